//! C14 correspondence: (scrutinee type, accepted arm list, value) triples of the C12 universe; the
//! compiled program reports the arm taken (through `1000 + match …`, so a leaked stack slot is seen)
//! and every bound variable; compared with the Lean model of the emitted comparison/binding code run
//! on the model VM, and checked directly against a Rust reference (first matching arm, bindings of the
//! first matching alternative).  Also `let` and `for` destructuring.
#[path = "../patuniv.rs"]
mod patuniv;
use patuniv::*;
use vh::*;

struct Job {
    req: String,
    src: String,
    /// (arm, bindings in slot order) by the reference semantics
    spec: String,
    var_tys: Vec<(String, Ty)>,
    what: String,
    kind: &'static str,
    is_let: bool,
}

fn match_src(u: &Universe, ty: &Ty, arms: &[Pat], v: &Val) -> (String, Vec<(String, Ty)>) {
    let mut all_vars: Vec<(String, Ty)> = vec![];
    let mut bodies = vec![];
    for (k, p) in arms.iter().enumerate() {
        let mut vars = vec![];
        bound_vars(u, p, ty, &mut vars);
        let mut b = String::from("{\n");
        for (x, _) in &vars {
            b.push_str(&format!("    println(\"{x}=\" .. {x})\n"));
        }
        b.push_str(&format!("    {k}\n  }}"));
        bodies.push(b);
        all_vars.extend(vars);
    }
    let mut src = u.decls_src();
    src.push_str(&format!("let s = {}\n", u.val_src(v, ty)));
    src.push_str("let r = 1000 + match s {\n");
    for (k, p) in arms.iter().enumerate() {
        src.push_str(&format!("  {} -> {}\n", u.pat_src(p), bodies[k]));
    }
    src.push_str("}\nprintln(\"r=\" .. r)\n");
    (src, all_vars)
}

fn spec_of(arm: Option<usize>, binds: &[(String, Val)]) -> String {
    let mut s = match arm {
        Some(k) => format!("arm={k} leak=0"),
        None => "leak=0".to_string(),
    };
    let mut b: Vec<(usize, String)> =
        binds.iter().map(|(x, v)| (x[1..].parse::<usize>().unwrap(), base_canon(v))).collect();
    b.sort();
    for (slot, v) in b {
        s.push_str(&format!(" {slot}={v}"));
    }
    s
}

/// the implementation's answer from the program's output
fn impl_answer(r: &RunResult, var_tys: &[(String, Ty)], is_let: bool) -> String {
    match &r.outcome {
        Outcome::Done => {}
        Outcome::Rejected(e) => return format!("rejected {}", e.lines().nth(1).unwrap_or("").trim()),
        // a host panic of the VM is the model VM's `fault`
        Outcome::Crash(_) => return "fault".to_string(),
        o => return format!("{} {}", o.tag(), r.err_text.lines().next().unwrap_or("")),
    }
    let mut arm: Option<i64> = None;
    let mut binds: Vec<(usize, String)> = vec![];
    for line in r.out.lines() {
        if let Some(x) = line.strip_prefix("r=") {
            arm = x.trim().parse::<i64>().ok().map(|n| n - 1000);
        } else if let Some((name, val)) = line.split_once('=') {
            if let Some((_, ty)) = var_tys.iter().find(|(n, _)| n == name) {
                binds.push((name[1..].parse::<usize>().unwrap(), printed_canon(val, ty)));
            }
        }
    }
    binds.sort();
    let mut s = if is_let {
        "leak=0".to_string()
    } else {
        match arm {
            Some(k) => format!("arm={k} leak=0"),
            None => "arm=? leak=0".into(),
        }
    };
    for (slot, v) in binds {
        s.push_str(&format!(" {slot}={v}"));
    }
    s
}

/// renumber binding names per arm list so that every variable of the program has its own slot
fn gen_arms(u: &Universe, ty: &Ty, rng: &mut Rng, avoid: bool) -> Vec<Pat> {
    let narms = 1 + rng.below(4) as usize;
    let depth = 1 + rng.below(3) as usize;
    let mut binds: Option<Vec<(String, Ty)>> = Some(vec![]);
    let mut arms = vec![];
    for k in 0..narms {
        let mut p = u.gen_pat(ty, depth, rng, &mut binds, avoid);
        // a catch-all early makes every later arm unreachable: keep those rare
        let mut tries = 0;
        while k + 1 < narms && matches!(p, Pat::Wild | Pat::Bind(_)) && tries < 4 {
            p = u.gen_pat(ty, depth, rng, &mut binds, avoid);
            tries += 1;
        }
        arms.push(p);
    }
    arms
}

fn irrefutable(u: &Universe, ty: &Ty, depth: usize, rng: &mut Rng, binds: &mut Vec<(String, Ty)>) -> Pat {
    let base = matches!(ty, Ty::Bool | Ty::Int | Ty::Float | Ty::Str);
    match ty {
        Ty::Tuple(ts) if depth > 0 && rng.chance(4, 5) => {
            Pat::Tuple(ts.iter().map(|t| irrefutable(u, t, depth - 1, rng, binds)).collect())
        }
        Ty::Struct(id) if depth > 0 && rng.chance(4, 5) => {
            let ps: Vec<Pat> = u.structs[*id].iter().map(|t| irrefutable(u, t, depth - 1, rng, binds)).collect();
            let order = if rng.chance(1, 2) { Some(shuffled(ps.len(), rng)) } else { None };
            Pat::Struct(*id, ps, order)
        }
        Ty::Void if rng.chance(1, 2) => Pat::Void,
        _ if base && rng.chance(3, 4) => {
            let name = format!("x{}", binds.len());
            binds.push((name.clone(), ty.clone()));
            Pat::Bind(name)
        }
        _ => Pat::Wild,
    }
}

fn main() {
    // child mode: compile and run one regression program (it may hang or abort the process)
    let args: Vec<String> = std::env::args().collect();
    if args.len() >= 3 && args[1] == "--probe" {
        let src = std::fs::read_to_string(&args[2]).unwrap();
        let r = std::thread::Builder::new().stack_size(256 << 20).spawn(move || run_program(&src)).unwrap().join().unwrap();
        println!("{}", r.out);
        std::process::exit(if r.outcome == Outcome::Done { 0 } else { 3 });
    }
    let mut ctx = Ctx::from_env("C14");
    let u = universe();
    let quick = ctx.quick();
    let out_dir = ctx.out_dir.clone();

    // ---- hard regression checks for the repaired defects (D27, D31, D46, D47 incl. the compile hang):
    //      each program must print the expected output; every one runs in a child process under a
    //      time limit; a timeout only counts after a second run, alone, with a generous limit, so that
    //      machine load cannot raise a false alarm.  The shapes are unconditionally in the main stream.
    let run_probe = |name: &str, body: &str, limit_s: u64| -> Result<String, String> {
        let path = out_dir.join(format!("probe_{name}.abra"));
        std::fs::write(&path, body).unwrap();
        let exe = std::env::current_exe().unwrap();
        let mut child = std::process::Command::new(exe)
            .arg("--probe").arg(&path).arg("x")
            .stdout(std::process::Stdio::piped()).stderr(std::process::Stdio::null()).spawn()
            .map_err(|e| format!("cannot start the probe process: {e}"))?;
        let t0 = std::time::Instant::now();
        loop {
            match child.try_wait() {
                Ok(Some(_)) => break,
                Ok(None) if t0.elapsed().as_secs() >= limit_s => {
                    let _ = child.kill();
                    let _ = child.wait();
                    return Err("timeout".into());
                }
                _ => std::thread::sleep(std::time::Duration::from_millis(20)),
            }
        }
        let o = child.wait_with_output().map_err(|e| e.to_string())?;
        let out = String::from_utf8_lossy(&o.stdout).trim().to_string();
        if o.status.success() { Ok(out) } else { Ok(format!("{out} <abnormal exit {:?}>", o.status.code())) }
    };
    let probes: [(&str, &str, &str); 11] = [
        ("D103", "type Ee =\n  | Aa(int, int)\n  | Bb(int)\nlet (Ee.Aa(_, _) | _) = Ee.Bb(0)\nprintln(\"end\")\n", "end"),
        ("D103b", "type Ee =\n  | Aa(int, int)\n  | Bb(int)\nvar t = 0\nfor (Ee.Aa(x, _) | Ee.Bb(x)) in [Ee.Bb(5), Ee.Aa(7, 1)] {\n  t = t * 10 + x\n}\nlet ((1 | 2, y) | (_, y)) = (3, 4)\nprintln(t + y)\n", "61"),
        ("D97", "let (x | x, y) = (1, 2)\nprintln(x + y)\n", "3"),
        ("B15-let-variants", "type Wrap = Wr(int)\ntype Two = Aa(x: int, y: int)\ntype Unit = Un\nlet (Wrap.Wr(a)) = Wrap.Wr(3)\nvar (Two.Aa(x = b, y = c), e) = (Two.Aa(4, 5), 6)\nb = b + 1\ne = e + 1\nlet ((d, _) | (_, d)) = (1, 2)\nlet (Unit.Un, f) = (Unit.Un, 7)\nvar t = 0\nfor (.Wr(g), h) in [(Wrap.Wr(1), 2), (Wrap.Wr(3), 4)] {\n  t = t + g + h\n}\nlet (.Wr(k)): Wrap = Wrap.Wr(8)\nprintln(a + b + c + e + d + f + t + k)\n", "46"),
        ("A09-zero-field-struct", "type Unit = {}\ntype Wrap = Wr(Unit) | Zed\nlet u = Unit()\nlet a = match u {\n  Unit() -> 1\n}\nlet b = match Wrap.Wr(Unit()) {\n  .Wr(Unit()) -> 10\n  .Zed -> 20\n}\nlet c = match (1, Unit()) {\n  (2, Unit()) -> 100\n  (1, Unit()) -> 200\n  _ -> 300\n}\nprintln(a + b + c)\n", "211"),
        ("D27", "let t = (1, 4)\nlet r = match t {\n  (1 | 2, 3 | 4) -> 0\n  _ -> 1\n}\nprintln(r)\n", "0"),
        ("D27b", "let t = (2, 3)\nlet r = match t {\n  (1 | 2, 3 | 4) -> 0\n  _ -> 1\n}\nprintln(r)\n", "0"),
        ("D31", "type Foo =\n  | Bar(void)\n  | Baz\nlet t = (Foo.Bar(nil), false)\nlet r = match t {\n  (.Bar(_), true) -> 0\n  (.Bar(_), false) -> 2\n  (.Baz, _) -> 1\n}\nprintln(r)\n", "2"),
        ("D46", "type Foo =\n  | Cc(bool, void)\n  | Dd\nlet s = Foo.Cc(true, nil)\nlet r = match s {\n  .Cc(true, _) -> 1\n  .Cc(false, _) -> 2\n  .Dd -> 3\n}\nprintln(r)\n", "1"),
        ("D47", "type Foo =\n  | Aa(void)\n  | Bb\nlet s = Foo.Aa(nil)\nlet r = 100 + match s {\n  .Aa(_) -> 1\n  .Bb -> 2\n}\nprintln(r)\n", "101"),
        ("D47hang", "type Foo =\n  | Aa(void)\n  | Bb\nlet s = Foo.Aa(nil)\nlet r = 100 + match s {\n  .Aa(nil | _) -> 1\n  .Bb -> 2\n}\nprintln(r)\n", "101"),
    ];
    let mut hang_regressed = false;
    for (id, body, expect) in probes {
        let mut got = run_probe(id, body, 20);
        if got == Err("timeout".to_string()) {
            // nothing else is running in this process at this point: run it again alone
            got = run_probe(id, body, 240);
        }
        let ok = got.as_deref() == Ok(expect);
        ctx.count(&format!("regression:{id}:{}", if ok { "passes" } else { "FAILS" }));
        if !ok {
            if got == Err("timeout".to_string()) {
                hang_regressed = true;
            }
            ctx.spec_fail(format!(
                "{id} regression: the program below must print `{expect}`, the implementation gave `{}`:\n{body}",
                match &got { Ok(o) => o.clone(), Err(e) => e.clone() }
            ));
        }
    }
    // the only concession: when the compiler hangs again on an or-pattern under a void payload (already
    // reported above as a violation), that shape is not compiled in-process, so that the run terminates
    let avoid_void_payload_subpat = hang_regressed;
    AVOID_NAMED_VOID.store(hang_regressed, std::sync::atomic::Ordering::Relaxed);
    MORE_BINDS.store(true, std::sync::atomic::Ordering::Relaxed);

    let mut jobs: Vec<Job> = vec![];
    let mut tys = scrutinee_types();
    tys.extend(scrutinee_types_d46());
    let n_cases = if quick { 420 } else { 9000 };
    let max_vals = if quick { 5 } else { 24 };
    let mut tries = 0;
    let mut made = 0;
    while made < n_cases && tries < n_cases * 30 {
        tries += 1;
        let ty = ctx.rng.pick(&tys).clone();
        if ty == Ty::Void {
            continue;
        }
        // every fifth case: a first arm with or-patterns in several components (the D27 shape)
        let several_ors = made % 5 == 4 && matches!(ty, Ty::Tuple(_) | Ty::Struct(_));
        let mut arms = gen_arms(&u, &ty, &mut ctx.rng, avoid_void_payload_subpat);
        if several_ors {
            let comps = u.product_tys(&ty);
            let mut none = None;
            let ps: Vec<Pat> = comps
                .iter()
                .map(|t| {
                    let mut l = u.gen_pat(t, 1, &mut ctx.rng, &mut none, avoid_void_payload_subpat);
                    while matches!(l, Pat::Or(..)) {
                        l = u.gen_pat(t, 1, &mut ctx.rng, &mut none, avoid_void_payload_subpat);
                    }
                    let r = u.gen_pat(t, 1, &mut ctx.rng, &mut none, avoid_void_payload_subpat);
                    if l == r || matches!(t, Ty::Void) { l } else { Pat::Or(Box::new(l), Box::new(r)) }
                })
                .collect();
            let first = match &ty {
                Ty::Struct(id) => Pat::Struct(*id, ps, None),
                _ => Pat::Tuple(ps),
            };
            arms.insert(0, first);
        }
        let values = u.values(&ty, 4);
        // make the arm list acceptable: drop unreachable arms, close with a wildcard if needed
        let mut reached = vec![false; arms.len()];
        let mut any_unmatched = false;
        for x in &values {
            match first_match(&arms, x) {
                Some(k) => reached[k] = true,
                None => any_unmatched = true,
            }
        }
        let mut k = 0;
        arms.retain(|_| {
            k += 1;
            reached[k - 1]
        });
        if any_unmatched {
            arms.push(Pat::Wild);
        }
        if arms.is_empty() {
            continue;
        }
        if arms.iter().any(|p| or_chains(p) > 1) {
            ctx.count("with-several-or-chains");
        }
        made += 1;
        let (with_or, with_bind) = (arms.iter().any(has_or), arms.iter().any(|p| { let mut v = vec![]; bound_vars(&u, p, &ty, &mut v); !v.is_empty() }));
        ctx.count(&format!("type:{}", head_kind(&ty)));
        if with_or { ctx.count("with-or-pattern"); }
        if with_bind { ctx.count("with-bindings"); }
        let mut chosen: Vec<Val> = vec![];
        if values.len() <= max_vals {
            chosen = values.clone();
        } else {
            // one value per arm first (so every arm is exercised), then random ones
            for k in 0..arms.len() {
                if let Some(x) = values.iter().find(|x| first_match(&arms, x) == Some(k)) {
                    chosen.push(x.clone());
                }
            }
            while chosen.len() < max_vals {
                chosen.push(ctx.rng.pick(&values).clone());
            }
        }
        for v in chosen {
            let (src, var_tys) = match_src(&u, &ty, &arms, &v);
            let arm = first_match(&arms, &v);
            let mut b = vec![];
            if let Some(k) = arm {
                bindings(&arms[k], &v, &mut b);
            }
            jobs.push(Job {
                req: format!("pc match {} {} {} {} {}", u.env_req(), u.ty_req(&ty), arms.len(),
                    arms.iter().map(|p| u.pat_req(p)).collect::<Vec<_>>().join(" "), val_req(&v)),
                src,
                spec: spec_of(arm, &b),
                var_tys,
                what: format!("match {} on {} with arms [{}]", u.val_src(&v, &ty), u.ty_src(&ty),
                    arms.iter().map(|p| u.pat_src(p)).collect::<Vec<_>>().join(" ; ")),
                kind: "match",
                is_let: false,
            });
        }
    }
    // ---- let / for destructuring
    let n_let = if quick { 150 } else { 3000 };
    for i in 0..n_let {
        let ty = ctx.rng.pick(&tys).clone();
        if !matches!(ty, Ty::Tuple(_) | Ty::Struct(_)) {
            continue;
        }
        let mut binds = vec![];
        let p = irrefutable(&u, &ty, 2, &mut ctx.rng, &mut binds);
        if matches!(p, Pat::Wild | Pat::Bind(_)) {
            continue;
        }
        let values = u.values(&ty, 3);
        let v = ctx.rng.pick(&values).clone();
        let use_for = i % 3 == 0;
        let mut src = u.decls_src();
        if use_for {
            src.push_str(&format!("let arr = [{}]\nfor {} in arr {{\n", u.val_src(&v, &ty), u.pat_src(&p)));
            for (x, _) in &binds {
                src.push_str(&format!("  println(\"{x}=\" .. {x})\n"));
            }
            src.push_str("}\n");
        } else {
            src.push_str(&format!("let {} = {}\n", u.pat_src(&p), u.val_src(&v, &ty)));
            for (x, _) in &binds {
                src.push_str(&format!("println(\"{x}=\" .. {x})\n"));
            }
        }
        let mut b = vec![];
        bindings(&p, &v, &mut b);
        ctx.count(if use_for { "for-destructuring" } else { "let-destructuring" });
        jobs.push(Job {
            req: format!("pc let {} {} {} {}", u.env_req(), u.ty_req(&ty), u.pat_req(&p), val_req(&v)),
            src,
            spec: spec_of(None, &b),
            var_tys: binds,
            what: format!("{} {} = {}", if use_for { "for" } else { "let" }, u.pat_src(&p), u.val_src(&v, &ty)),
            kind: if use_for { "for" } else { "let" },
            is_let: true,
        });
    }

    // ---- let / var / for with variant, named-variant, literal and or sub-patterns (D96, D97): every
    //      irrefutable pattern binds like the matching arm would
    let n_rich = if quick { 220 } else { 4000 };
    let mut made_rich = 0;
    let mut tries_rich = 0;
    while made_rich < n_rich && tries_rich < n_rich * 40 {
        tries_rich += 1;
        let ty = ctx.rng.pick(&tys).clone();
        if ty == Ty::Void {
            continue;
        }
        let mut binds: Option<Vec<(String, Ty)>> = Some(vec![]);
        let p = u.gen_pat(&ty, 1 + ctx.rng.below(2) as usize, &mut ctx.rng, &mut binds, false);
        if matches!(p, Pat::Wild | Pat::Bind(_)) || !irrefutable_on(&u, &ty, &p) {
            continue;
        }
        // plain tuple/struct patterns of wildcards and bindings are the old stream's
        let interesting = has_or(&p) || format!("{:?}", p).contains("Variant") || format!("{:?}", p).contains("Void");
        if !interesting && ctx.rng.chance(4, 5) {
            continue;
        }
        made_rich += 1;
        let binds = binds.unwrap();
        let values = u.values(&ty, 3);
        let v = ctx.rng.pick(&values).clone();
        let form = made_rich % LET_FORMS.len();
        let uses: Vec<String> = binds.iter().map(|(x, _)| format!("println(\"{x}=\" .. {x})")).collect();
        let mut b = vec![];
        bindings(&p, &v, &mut b);
        ctx.count(&format!("rich-destructuring:{}", LET_FORMS[form]));
        if has_or(&p) { ctx.count("rich-destructuring:with-or-pattern"); }
        jobs.push(Job {
            req: format!("pc let {} {} {} {} #{}", u.env_req(), u.ty_req(&ty), u.pat_req(&p), val_req(&v), LET_FORMS[form]),
            src: let_program(&u, &ty, &p, &v, form, &uses),
            spec: spec_of(None, &b),
            var_tys: binds,
            what: format!("{} ({}) = {}", LET_FORMS[form], u.pat_src(&p), u.val_src(&v, &ty)),
            kind: "rich-let",
            is_let: true,
        });
    }

    let results = par_map(&jobs, |j| run_program(&j.src));
    for (j, r) in jobs.iter().zip(results) {
        let imp = impl_answer(&r, &j.var_tys, j.is_let);
        ctx.count(&format!("kind:{}", j.kind));
        if imp != j.spec {
            ctx.spec_fail(format!("{}: implementation `{imp}`, reference semantics `{}`", j.what, j.spec));
        }
        if let Some(k) = j.spec.strip_prefix("arm=") {
            ctx.count(&format!("arm-taken:{}", k.split(' ').next().unwrap_or("?")));
        }
        ctx.case(j.req.clone(), imp);
    }
    ctx.finish();
}
