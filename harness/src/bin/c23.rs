//! C23 correspondence.
//!  (1) templates: `?` / `!` at statement, operand, argument and nested-call position, option and result,
//!      success and failure inputs; the expected trace of executed statements is computed here from the
//!      property's own words (payload, or immediate return of none/err without running the rest; payload or
//!      panic) — `spec_fail` on any deviation — and the same programs are compared with `Abra.Sem`;
//!  (2) the real prelude functions `Try.branch`, `Try.from_residual`, `Unwrap.unwrap` against the hand
//!      transliteration the theorems are about (`prelude …` requests);
//!  (3) generated F2/F3 programs with many `?`/`!` in every position against `Abra.Sem`;
//!  (4) every try lowering found in the real unoptimised assembly of those programs against `tryCode`
//!      (`trylower …` requests; parameters read from the dump, the shape from the model);
//!  (0) the 112 mixed-Try programs of harness/src/bg9cov.rs (Rust oracle) and the checker's verdict on each of them
//!      against the Lean rule `tryAccepted` (`trycompat …` requests); (1b) 16 task programs (pending host call vs a failing `!`).
#[path = "../bg9cov.rs"]
mod bg9cov;
#[path = "../progen.rs"]
mod progen;
use progen::run::*;
use progen::*;
use vh::*;
use std::panic::{AssertUnwindSafe, catch_unwind};

fn mk_fns() -> &'static str {
    "fn mk(a: int) -> option<int> {\n  if a < 0 { return option.none }\n  option.some(a)\n}\n\
     fn mkr(a: int) -> result<int, string> {\n  if a < 0 { return result.err(\"neg\" .. a) }\n  result.ok(a)\n}\n\
     fn add(x: int, y: int) -> int {\n  println(\"add\")\n  x + y\n}\n"
}

/// (name, source, expected output, expected outcome kind)
fn templates() -> Vec<(String, String, String, String)> {
    let mut v = vec![];
    for a in [-3i64, 0, 2, 7] {
        let ok = a >= 0;
        // ---- option, `?`
        // statement position
        let src = format!("{}fn f(a: int) -> option<int> {{\n  println(\"s\")\n  mk(a)?\n  println(\"t\")\n  option.some(1)\n}}\nprintln(f({a}))\n", mk_fns());
        let exp = if ok { "s\nt\nsome(1)\n".to_string() } else { "s\nnone\n".to_string() };
        v.push((format!("opt-stmt({a})"), src, exp, "done".into()));
        // operand position (a pending left operand must be discarded by the early return)
        let src = format!("{}fn f(a: int) -> option<int> {{\n  let v = 10 + mk(a)?\n  println(\"t\")\n  option.some(v)\n}}\nprintln(f({a}))\n", mk_fns());
        let exp = if ok { format!("t\nsome({})\n", 10 + a) } else { "none\n".to_string() };
        v.push((format!("opt-operand({a})"), src, exp, "done".into()));
        // argument position (the first argument is already evaluated and pushed)
        let src = format!("{}fn f(a: int) -> option<int> {{\n  let v = add(100, mk(a)?)\n  println(\"t\")\n  option.some(v)\n}}\nprintln(f({a}))\n", mk_fns());
        let exp = if ok { format!("add\nt\nsome({})\n", 100 + a) } else { "none\n".to_string() };
        v.push((format!("opt-arg({a})"), src, exp, "done".into()));
        // nested calls: the inner `?` succeeds for a >= 0, the outer one for a >= 5
        let src = format!("{}fn f(a: int) -> option<int> {{\n  let v = mk(mk(a)? - 5)?\n  println(\"t\")\n  option.some(v)\n}}\nprintln(f({a}))\n", mk_fns());
        let exp = if a >= 5 { format!("t\nsome({})\n", a - 5) } else { "none\n".to_string() };
        v.push((format!("opt-nested({a})"), src, exp, "done".into()));
        // inside a loop and a tuple (operands pending in the loop and in the tuple)
        let src = format!("{}fn f(a: int) -> option<int> {{\n  var s = 0\n  for i in 3 {{\n    let t = (i, mk(a - i)?)\n    s = s + 1\n  }}\n  println(\"t\")\n  option.some(s)\n}}\nprintln(f({a}))\n", mk_fns());
        let exp = if a >= 2 { "t\nsome(3)\n".to_string() } else { "none\n".to_string() };
        v.push((format!("opt-loop({a})"), src, exp, "done".into()));
        // ---- result, `?`
        let src = format!("{}fn f(a: int) -> result<int, string> {{\n  println(\"s\")\n  mkr(a)?\n  println(\"t\")\n  result.ok(1)\n}}\nprintln(f({a}))\n", mk_fns());
        let exp = if ok { "s\nt\nok(1)\n".to_string() } else { format!("s\nerr(neg{a})\n") };
        v.push((format!("res-stmt({a})"), src, exp, "done".into()));
        let src = format!("{}fn f(a: int) -> result<int, string> {{\n  let v = 10 + mkr(a)?\n  println(\"t\")\n  result.ok(v)\n}}\nprintln(f({a}))\n", mk_fns());
        let exp = if ok { format!("t\nok({})\n", 10 + a) } else { format!("err(neg{a})\n") };
        v.push((format!("res-operand({a})"), src, exp, "done".into()));
        let src = format!("{}fn f(a: int) -> result<int, string> {{\n  let v = add(100, mkr(a)?)\n  println(\"t\")\n  result.ok(v)\n}}\nprintln(f({a}))\n", mk_fns());
        let exp = if ok { format!("add\nt\nok({})\n", 100 + a) } else { format!("err(neg{a})\n") };
        v.push((format!("res-arg({a})"), src, exp, "done".into()));
        let src = format!("{}fn f(a: int) -> result<int, string> {{\n  let v = mkr(mkr(a)? - 5)?\n  println(\"t\")\n  result.ok(v)\n}}\nprintln(f({a}))\n", mk_fns());
        let exp = if a >= 5 { format!("t\nok({})\n", a - 5) } else if a >= 0 { format!("err(neg{})\n", a - 5) } else { format!("err(neg{a})\n") };
        v.push((format!("res-nested({a})"), src, exp, "done".into()));
        // ---- `!`
        let src = format!("{}println(\"s\")\nlet v = 10 + mk({a})!\nprintln(v)\n", mk_fns());
        let (exp, kind) = if ok { (format!("s\n{}\n", 10 + a), "done") } else { ("s\n".to_string(), "error:panic") };
        v.push((format!("opt-unwrap({a})"), src, exp, kind.into()));
        let src = format!("{}println(\"s\")\nlet v = add(1, mkr({a})!)\nprintln(v)\n", mk_fns());
        let (exp, kind) = if ok { (format!("s\nadd\n{}\n", 1 + a), "done") } else { ("s\n".to_string(), "error:panic") };
        v.push((format!("res-unwrap({a})"), src, exp, kind.into()));
        // `?` on a void payload
        let src = format!("{}fn g(a: int) -> option<void> {{\n  if a < 0 {{ return option.none }}\n  option.some(nil)\n}}\nfn f(a: int) -> option<int> {{\n  g(a)?\n  println(\"t\")\n  option.some(a)\n}}\nprintln(f({a}))\n", mk_fns());
        let exp = if ok { format!("t\nsome({a})\n") } else { "none\n".to_string() };
        v.push((format!("opt-void({a})"), src, exp, "done".into()));
    }
    v.extend(void_param_templates());
    v
}

/// functions and a lambda with void-typed parameters (explicit `u: void` in first / middle / last position and
/// several of them; a type parameter instantiated with void by passing `nil`): `?` on its success and failure
/// path, `!`, explicit `return`, implicit result — with live caller locals around the call and the call used inside
/// an operand.  A void parameter binds `nil` and occupies no argument slot.
fn void_param_templates() -> Vec<(String, String, String, String)> {
    let defs = "fn fv1(u: void, a: int) -> option<int> {\n  let v = mk(a)?\n  println(\"t1\")\n  option.some(v + 1)\n}\n\
        fn fv2(a: int, u: void, b: int) -> option<int> {\n  let v = 1 + mk(a)? + b\n  option.some(v)\n}\n\
        fn fv3(a: int, u: void) -> result<int, string> {\n  let v = add(100, mkr(a)?)\n  println(u)\n  result.ok(v)\n}\n\
        fn fv4(u: void, a: int, w: void, b: int, z: void) -> option<int> {\n  let x = mk(a)?\n  let y = mk(b)?\n  option.some(x * 10 + y)\n}\n\
        fn fg(ctx: T, a: int, b: int) -> result<int, string> {\n  let x = mkr(a)?\n  let y = mkr(b)?\n  result.ok(x + y)\n}\n\
        fn fr(u: void, a: int, w: void) -> int {\n  if a < 0 {\n    return 0 - a\n  }\n  a * 2\n}\n\
        fn fu(u: void, a: int) -> int {\n  mk(a)! + 1\n}\n\
        fn run(a: int) -> option<int> {\n  let s = 1000\n  let r = s + fv1(nil, a)? + fv2(a, nil, 5)?\n  println(s)\n  option.some(r)\n}\n";
    let mut v = vec![];
    for a in [-3i64, 0, 2, 7] {
        let ok = a >= 0;
        let lit = if a < 0 { format!("({a})") } else { format!("{a}") };
        let src = format!(
            "{}{defs}let sentinel = 777\nlet lamv = (u: void, x: int) -> {{\n  if x < 0 {{ 0 - x }} else {{ x + sentinel }}\n}}\n\
             println(fv1(nil, {lit}))\nprintln(sentinel + 1)\n\
             println(fv2({lit}, nil, 5))\nprintln(fv3({lit}, nil))\nprintln(fv4(nil, {lit}, nil, 5, nil))\nprintln(fv4(nil, 5, nil, {lit}, nil))\n\
             println(fg(nil, {lit}, 2))\nprintln(fg(7, {lit}, 2))\nprintln(fg(nil, 2, {lit}))\nprintln(fg(\"c\", 2, {lit}))\n\
             println(fr(nil, {lit}, nil))\nprintln(run({lit}))\nprintln(lamv(nil, {lit}))\nprintln(sentinel)\n\
             println(10 + fu(nil, {lit}))\nprintln(sentinel)\n",
            mk_fns()
        );
        let o = |x: Option<i64>| match x { Some(n) => format!("some({n})"), None => "none".to_string() };
        let r = |x: Result<i64, i64>| match x { Ok(n) => format!("ok({n})"), Err(e) => format!("err(neg{e})") };
        let mut exp = String::new();
        if ok { exp.push_str("t1\n"); }
        exp.push_str(&format!("{}\n778\n", o(if ok { Some(a + 1) } else { None })));
        exp.push_str(&format!("{}\n", o(if ok { Some(1 + a + 5) } else { None })));
        if ok { exp.push_str(&format!("add\nnil\n{}\n", r(Ok(100 + a)))); } else { exp.push_str(&format!("{}\n", r(Err(a)))); }
        exp.push_str(&format!("{}\n", o(if ok { Some(a * 10 + 5) } else { None })));
        exp.push_str(&format!("{}\n", o(if ok { Some(50 + a) } else { None })));
        let g1 = if ok { r(Ok(a + 2)) } else { r(Err(a)) };
        exp.push_str(&format!("{g1}\n{g1}\n"));
        let g2 = if ok { r(Ok(2 + a)) } else { r(Err(a)) };
        exp.push_str(&format!("{g2}\n{g2}\n"));
        exp.push_str(&format!("{}\n", if a < 0 { -a } else { a * 2 }));
        if ok { exp.push_str(&format!("t1\n1000\n{}\n", o(Some(1000 + (a + 1) + (1 + a + 5))))); } else { exp.push_str("none\n"); }
        exp.push_str(&format!("{}\n777\n", if a < 0 { -a } else { a + 777 }));
        let kind = if ok { exp.push_str(&format!("{}\n777\n", 10 + a + 1)); "done" } else { "error:panic" };
        v.push((format!("void-param({a})"), src, exp, kind.into()));
    }
    v
}

/// the real prelude function applied to a value, rendered as the `prelude` driver renders it
fn prelude_program(f: &str, val: &str) -> Option<String> {
    let payload = |p: &str| -> String {
        let mut it = p.splitn(2, ':');
        match (it.next(), it.next()) {
            (Some("int"), Some(n)) => n.to_string(),
            (Some("str"), Some("-")) => "\"\"".to_string(),
            (Some("str"), Some(h)) => format!("{:?}", String::from_utf8((0..h.len()).step_by(2).map(|i| u8::from_str_radix(&h[i..i + 2], 16).unwrap()).collect()).unwrap()),
            _ => "nil".into(),
        }
    };
    let pty = |p: &str| if p.starts_with("int") { "int" } else if p.starts_with("str") { "string" } else { "void" };
    let (decl, _ty) = if val == "none" {
        ("let x: option<int> = option.none".to_string(), "option")
    } else if let Some(p) = val.strip_prefix("some:") {
        (format!("let x: option<{}> = option.some({})", pty(p), payload(p)), "option")
    } else if let Some(p) = val.strip_prefix("ok:") {
        (format!("let x: result<{}, string> = result.ok({})", pty(p), payload(p)), "result")
    } else if let Some(p) = val.strip_prefix("err:") {
        (format!("let x: result<int, {}> = result.err({})", pty(p), payload(p)), "result")
    } else {
        (format!("let x = {}", payload(val)), "payload")
    };
    Some(match f {
        "option.branch" | "result.branch" => format!("{decl}\nmatch Try.branch(x) {{\n  .Continue(v) -> println(\"C \" .. v)\n  .Break(r) -> println(\"B \" .. r)\n}}\n"),
        "option.from_residual" => "let y: option<int> = Try.from_residual(nil)\nprintln(\"V \" .. y)\n".to_string(),
        "result.from_residual" => format!("{decl}\nlet y: result<int, string> = Try.from_residual(x)\nprintln(\"V \" .. y)\n"),
        "option.unwrap" | "result.unwrap" => format!("{decl}\nprintln(\"V \" .. Unwrap.unwrap(x))\n"),
        _ => return None,
    })
}

/// main hits a failing `!` (or, for contrast, finishes after a failing `?` was handled) while tasks are alive and
/// print in a loop.  (name, source, expected main lines, expected outcome kind, number of tasks)
fn task_templates() -> Vec<(String, String, Vec<String>, String, usize)> {
    let fns = "fn lookup(key: int) -> option<int> {\n  if key < 3 { option.some(key * 10) } else { option.none }\n}\n\
        fn parse(n: int) -> result<int, string> {\n  if n >= 0 { result.ok(n) } else { result.err(\"negative\") }\n}\n\
        fn via(k: int) -> int {\n  lookup(k)! + 1\n}\n\
        fn tryit(k: int) -> option<int> {\n  let v = lookup(k)?\n  println(\"m:after-try\")\n  option.some(v)\n}\n";
    let mut v = vec![];
    for (tn, ntasks, unbounded) in [("one-bounded", 1usize, false), ("two-bounded", 2, false), ("one-unbounded", 1, true), ("two-mixed", 2, true)] {
        let mut tasks = String::new();
        for t in 0..ntasks {
            if unbounded && t == 0 {
                tasks.push_str(&format!("task {{\n  var i = 0\n  while true {{\n    println(\"t{t}:\" .. i)\n    i = i + 1\n  }}\n}}\n"));
            } else {
                tasks.push_str(&format!("task {{\n  for i in 300 {{\n    println(\"t{t}:\" .. i)\n  }}\n}}\n"));
            }
        }
        for (fname, fail_line) in [
            ("unwrap-none", "println(\"m:c=\" .. lookup(5)!)"),
            ("unwrap-err", "println(\"m:c=\" .. parse(0 - 4)!)"),
            ("unwrap-via-call", "println(\"m:c=\" .. via(9))"),
        ] {
            let src = format!("{fns}{tasks}println(\"m:a=\" .. lookup(1)!)\nprintln(\"m:b=\" .. parse(7)!)\nprintln(\"m:before\")\n{fail_line}\nprintln(\"m:unreachable\")\n");
            v.push((format!("{tn}/{fname}"), src, vec!["m:a=10".into(), "m:b=7".into(), "m:before".into()], "error:panic".to_string(), ntasks));
        }
        // contrast: the failing `?` makes `tryit` return none; main goes on and finishes
        let src = format!("{fns}{tasks}println(\"m:a=\" .. lookup(1)!)\nprintln(\"m:r=\" .. tryit(7))\nprintln(\"m:s=\" .. tryit(2))\nprintln(\"m:before\")\n");
        v.push((
            format!("{tn}/try-contrast"),
            src,
            vec!["m:a=10".into(), "m:r=none".into(), "m:after-try".into(), "m:s=some(20)".into(), "m:before".into()],
            "done".to_string(),
            ntasks,
        ));
    }
    v
}

fn main() {
    let mut ctx = Ctx::from_env("C23");
    if std::env::var("VERIF_DEBUG").is_ok() {
        std::panic::set_hook(Box::new(|i| eprintln!("PANIC: {i}")));
    }

    // ---- (1) templates with the property's own oracle
    let ts = templates();
    let res = par_map(&ts, |(_, src, _, _)| run_program_opts(src, &RunOpts { budgets: vec![1000], max_steps: 500_000, files: vec![] }));
    for ((name, src, exp, kind), r) in ts.iter().zip(res) {
        let got_kind = r.outcome.tag();
        ctx.count(&format!("template:{}:{}", name.split('(').next().unwrap(), got_kind));
        if &got_kind != kind || &r.out != exp {
            ctx.spec_fail(format!(
                "{name}: `?`/`!` does not follow option/result semantics: outcome {got_kind} output {:?}, expected {kind} {:?}\n{src}",
                r.out, exp
            ));
        }
    }

    // ---- (1b) `!` / `?` in main while tasks are alive: the host is serviced exactly as abra_cli does (run a slice;
    // Done or MainThreadError end the run; otherwise every thread's pending host call is served).  After main's last
    // line a task can print at most one line per slice (it then waits for the host), and main needs at most ~60 more
    // steps to reach the panic / the end: so at most `tasks * (60 / budget + 2)` task lines may follow.
    let tts = task_templates();
    let budgets_t: [u32; 4] = [100, 1000, 7, 1];
    let tres = par_map(&tts, |(_, src, _, _, _)| {
        budgets_t.iter().map(|b| run_program_opts(src, &RunOpts { budgets: vec![*b], max_steps: 600_000, files: vec![] })).collect::<Vec<_>>()
    });
    for ((name, src, main_lines, kind, ntasks), rs) in tts.iter().zip(tres) {
        let mut bad: Option<String> = None;
        for (b, r) in budgets_t.iter().zip(rs.iter()) {
            let lines: Vec<&str> = r.out.lines().collect();
            let mains: Vec<&str> = lines.iter().filter(|l| l.starts_with("m:")).cloned().collect();
            let last_main = lines.iter().rposition(|l| l.starts_with("m:"));
            let after = last_main.map(|i| lines.len() - 1 - i).unwrap_or(lines.len());
            let allowed = ntasks * (60 / *b as usize + 2);
            if &r.outcome.tag() != kind {
                bad = Some(format!("budget {b}: outcome {} (expected {kind}) after {} output lines", r.outcome.tag(), lines.len()));
            } else if mains != main_lines.iter().map(|s| s.as_str()).collect::<Vec<_>>() {
                bad = Some(format!("budget {b}: main printed {:?}, expected {:?}", mains, main_lines));
            } else if after > allowed {
                bad = Some(format!("budget {b}: {after} task lines were printed after main's last line (at most {allowed} can come from steps taken before the program stops)"));
            }
            if bad.is_some() {
                break;
            }
        }
        let fam = name.split('/').nth(1).unwrap_or("");
        match bad {
            None => ctx.count(&format!("task-template:{fam}:ok")),
            Some(why) => {
                ctx.count(&format!("task-template:{fam}:FAILS"));
                ctx.spec_fail(format!("{name}: a failing `!` in main must stop the program at once (and a handled `?` must not), also while tasks are running: {why}\n{src}"));
            }
        }
    }

    // ---- (2) the real prelude functions vs the transliteration
    let payloads = ["int:0", "int:7", "int:-12", "str:6162", "str:-"];
    let mut reqs: Vec<(String, String)> = vec![];
    for p in payloads {
        reqs.push(("option.branch".into(), format!("some:{p}")));
        reqs.push(("option.unwrap".into(), format!("some:{p}")));
        if p.starts_with("int") {
            reqs.push(("result.branch".into(), format!("ok:{p}")));
            reqs.push(("result.unwrap".into(), format!("ok:{p}")));
        }
        if p.starts_with("str") && p != "str:-" {
            reqs.push(("result.branch".into(), format!("err:{p}")));
            reqs.push(("result.unwrap".into(), format!("err:{p}")));
            reqs.push(("result.from_residual".into(), p.to_string()));
        }
    }
    reqs.push(("option.branch".into(), "none".into()));
    reqs.push(("option.unwrap".into(), "none".into()));
    reqs.push(("option.from_residual".into(), "nil".into()));
    let progs: Vec<Option<String>> = reqs.iter().map(|(f, v)| prelude_program(f, v)).collect();
    let outs = par_map(&progs, |p| p.as_ref().map(|s| run_program(s)));
    for ((f, v), r) in reqs.iter().zip(outs) {
        let Some(r) = r else { continue };
        let ans = match &r.outcome {
            Outcome::Done => r.out.trim_end_matches('\n').to_string(),
            Outcome::Error(k) if k == "panic" => "panic".to_string(),
            o => format!("other {}", o.tag()),
        };
        ctx.count(&format!("prelude:{f}"));
        ctx.case(format!("prelude {f} {v}"), ans);
    }

    // ---- (3) generated programs, `?`/`!` boosted
    let base = probe_shapes(&mut ctx);
    // coverage-guided template families with their own oracles (harness/src/bg9cov.rs)
    bg9cov::run_templates(&mut ctx, "C23");
    // the static rule of `?` as a model tie: the checker's verdict on every mixed-Try program vs `tryAccepted`
    // (lean/AbraModel/TryLower.lean) on the operand / return type families
    for (t, o, r) in bg9cov::try_mixed_cases() {
        let verdict = match catch_unwind(AssertUnwindSafe(|| abra_core::check("main.abra", provider(&t.src, &[])))) {
            Ok(Ok(())) => "accept",
            Ok(Err(_)) => "reject",
            Err(_) => "checker-panic",
        };
        ctx.count(&format!("trycompat:{verdict}"));
        ctx.case(format!("trycompat {o} {r} #{}", t.name.replace(' ', "_")), verdict.to_string());
    }
    let n = if ctx.quick() { 160 } else { 4000 };
    struct Job {
        prog: Program,
        src: String,
        req: String,
    }
    let mut jobs = vec![];
    for k in 0..n {
        let mut r = Rng::new(ctx.rng.next());
        let o = GenOpts { tier: if k % 4 == 3 { 3 } else { 2 }, stmts: 4 + (k % 7), budget: 50 + (k as i32 % 5) * 15, try_boost: true, big_ints: 1, ..base.clone() };
        let (prog, hist) = generate(&mut r, o);
        for (f, c) in hist {
            if f.starts_with("try") || f == "unwrap" || f == "return" || f.starts_with("call") {
                *ctx.hist.entry(format!("gen:{f}")).or_insert(0) += c;
            }
        }
        let src = program_src(&prog);
        let req = sem_request(&prog, &format!("T{k}"));
        jobs.push(Job { prog, src, req });
    }
    let results = par_map(&jobs, |j| real_all_budgets(&j.src, &j.prog.final_ty));
    let model = model_batch(&jobs.iter().map(|j| j.req.clone()).collect::<Vec<_>>());
    let mut to_shrink = vec![];
    for (i, (j, (real, answers))) in jobs.iter().zip(results.iter()).enumerate() {
        if !real.accepted {
            ctx.count("gen:generator-rejected");
            continue;
        }
        ctx.count(&format!("gen-outcome:{}", real.answer.split(' ').next().unwrap_or("")));
        if answers.iter().any(|a| a != &answers[0]) {
            ctx.spec_fail(format!("result depends on the step budget: {:?}\n{}", answers, j.src));
        }
        if model[i] != real.answer {
            to_shrink.push(i);
        }
        ctx.case(j.req.clone(), real.answer.clone());
    }
    let shrunk: Vec<(usize, Program)> = par_map(&to_shrink.iter().take(5).cloned().collect::<Vec<_>>(), |&i| (i, shrink(&jobs[i].prog, 300)));
    for (i, p) in shrunk {
        ctx.spec_fail(format!(
            "program with `?`/`!` differs from the reference interpreter: implementation `{}`, reference `{}`; shrunk program:\n{}",
            results[i].0.answer,
            model[i],
            program_src(&p)
        ));
    }

    // ---- (4) the lowering sequences in the real unoptimised assembly
    let asms = par_map(&jobs, |j| real_assembly(&j.src));
    let mut seen = std::collections::BTreeSet::new();
    for (j, asm) in jobs.iter().zip(asms) {
        let Ok(lines) = asm else { continue };
        // split into functions: a label line that is not a local jump target starts one (function labels carry a `.` or `<`)
        let instrs: Vec<&str> = lines.iter().map(|l| l.trim()).collect();
        for i in 0..instrs.len() {
            if instrs[i] != "deconstruct_variant" {
                continue;
            }
            // try lowering = deconstruct_variant; push_int 0; equal_int; jump_if_false L; call k …from_residual…; return n; L:
            let w: Vec<&str> = instrs[i..].iter().filter(|l| !l.is_empty()).take(8).cloned().collect();
            if w.len() < 7 || !w[4].starts_with("call ") || !w[4].contains("from_residual") {
                continue; // a `for` loop or a pattern
            }
            ctx.count("trylower:found");
            let call: Vec<&str> = w[4].split(' ').collect();
            let ra = call[1];
            let ret: Vec<&str> = w[5].split(' ').collect();
            let rn = if ret.len() == 2 { ret[1] } else { "?" };
            let label = w[3].strip_prefix("jump_if_false ").unwrap_or("?");
            let jump_ok = w[6] == format!("{label}:");
            let real_seq = format!(
                "{};{};{};jump_if_false {};call {} from_residual;{}",
                w[0],
                w[1],
                w[2],
                if jump_ok { "+2" } else { "?" },
                ra,
                w[5]
            );
            // residual arity: a void residual (option) is not passed
            let opt = call[2].contains("option<");
            if (opt && ra != "0") || (!opt && ra != "1") {
                ctx.spec_fail(format!("from_residual called with {ra} arguments for {}\n{}", call[2], j.src));
            }
            let key = format!("{ra} {rn}");
            if seen.insert((key.clone(), real_seq.clone())) {
                ctx.case(format!("trylower {key}"), real_seq);
            }
        }
    }
    ctx.finish();
}
