//! C16 correspondence: float comparisons (total order), division-by-zero check, arithmetic in every
//! operand form incl. optimizer folds, unary minus, `int_from_float`, `float_from_int`, executed by
//! the real compiler + VM.  Values enter a program as exact decimal literals (Rust's `Display` for
//! f64 is the shortest decimal that parses back to the same bits; Abra literals have no exponent
//! syntax, `Display` never uses one) or, for ±inf / NaN, as run-time computations; results come back
//! through `println` and are parsed on the host (`parse(print(x)) == x`), NaN signs through `x < 0.0`.
//! Each answer is compared with the Lean model `Abra.F64` (IEEE arithmetic is a parameter of the
//! model: the host's result for the same operands is passed along) and, independently, with an
//! executable statement of the property in Rust (`spec_fail`).
use std::hint::black_box;
use vh::*;

const SIGN: u64 = 1 << 63;

fn is_nan(b: u64) -> bool {
    f64::from_bits(b).is_nan()
}

/// decimal literal of a finite value, always with a decimal point, never with an exponent
fn lit(b: u64) -> String {
    let f = f64::from_bits(b);
    assert!(f.is_finite());
    let mut s = format!("{}", f);
    if !s.contains('.') {
        s.push_str(".0");
    }
    if s.starts_with('-') { format!("({s})") } else { s }
}

fn huge_lit() -> String {
    let mut s = String::from("1");
    for _ in 0..308 {
        s.push('0');
    }
    s.push_str(".0");
    s
}

/// run-time prologue: ±inf and the hardware's NaN, as variables (no literal spells them)
fn prologue() -> String {
    format!("let huge = {}\nlet inf = huge * 10.0\nlet ninf = inf * (-1.0)\nlet nan = inf - inf\n", huge_lit())
}

/// the same three values as the host computes them (same hardware, evaluated at run time)
fn host_specials() -> (u64, u64, u64) {
    let huge: f64 = black_box(1e308);
    let inf = black_box(huge * black_box(10.0));
    let ninf = black_box(inf * black_box(-1.0));
    let nan = black_box(inf - inf);
    (inf.to_bits(), ninf.to_bits(), nan.to_bits())
}

#[derive(Clone)]
struct Opd {
    bits: u64,
    /// expression usable anywhere (a literal, or one of the prologue variables)
    expr: String,
    literal: bool,
}

fn opd(b: u64, sp: (u64, u64, u64)) -> Option<Opd> {
    let f = f64::from_bits(b);
    if f.is_finite() {
        Some(Opd { bits: b, expr: lit(b), literal: true })
    } else if b == sp.0 {
        Some(Opd { bits: b, expr: "inf".into(), literal: false })
    } else if b == sp.1 {
        Some(Opd { bits: b, expr: "ninf".into(), literal: false })
    } else if b == sp.2 {
        Some(Opd { bits: b, expr: "nan".into(), literal: false })
    } else {
        None // other NaN payloads cannot be produced by an Abra program
    }
}

fn boundary() -> Vec<u64> {
    let mut v: Vec<u64> = vec![
        0, SIGN, 1, SIGN | 1, 0x000F_FFFF_FFFF_FFFF, 0x0010_0000_0000_0000, 0x3FF0_0000_0000_0000,
        0xBFF0_0000_0000_0000, 0x3FEF_FFFF_FFFF_FFFF, 0x3FF0_0000_0000_0001, 0x3FE0_0000_0000_0000,
        0x3FDF_FFFF_FFFF_FFFF, 0x3FF8_0000_0000_0000, 0x4004_0000_0000_0000, 0xC00C_0000_0000_0000,
        0x4000_0000_0000_0000, 0xC000_0000_0000_0000, 0x4024_0000_0000_0000,
        0x433F_FFFF_FFFF_FFFF, 0x4340_0000_0000_0000, 0x4340_0000_0000_0001, 0xC340_0000_0000_0000,
        0x43DF_FFFF_FFFF_FFFF, 0x43E0_0000_0000_0000, 0x43E0_0000_0000_0001, 0xC3E0_0000_0000_0000,
        0xC3E0_0000_0000_0001, 0xC3DF_FFFF_FFFF_FFFF, 0x43F0_0000_0000_0000, 0x41DF_FFFF_FFC0_0000,
        0x7FEF_FFFF_FFFF_FFFF, 0xFFEF_FFFF_FFFF_FFFF, 0x7FE0_0000_0000_0000, 0x5FE0_0000_0000_0000,
        0x2000_0000_0000_0000, 0x3CB0_0000_0000_0000, 0x4059_0000_0000_0000, 0x3FB9_9999_9999_999A,
    ];
    v.sort();
    v.dedup();
    v
}

fn rand_bits(rng: &mut Rng) -> u64 {
    loop {
        let b = match rng.below(4) {
            0 => rng.next(),
            1 => {
                // moderate exponents: results stay finite and inexact
                let e = 1023 - 40 + rng.below(80);
                (rng.below(2) << 63) | (e << 52) | (rng.next() & ((1 << 52) - 1))
            }
            2 => {
                // integers around the i64 limits and 2^53
                let e = 1023 + 50 + rng.below(16);
                (rng.below(2) << 63) | (e << 52) | (rng.next() & ((1 << 52) - 1))
            }
            _ => {
                let e = rng.below(2047);
                (rng.below(2) << 63) | (e << 52) | (rng.next() & ((1 << 52) - 1))
            }
        };
        if f64::from_bits(b).is_finite() {
            return b;
        }
    }
}

fn hex64(b: u64) -> String {
    format!("{:016x}", b)
}

fn render_bits(b: u64) -> String {
    if is_nan(b) { if b & SIGN != 0 { "nan-".into() } else { "nan+".into() } } else { hex64(b) }
}

/// IEEE 754 totalOrder, stated on sign and magnitude (independent of `total_cmp` and of the key)
fn total_lt(a: u64, b: u64) -> bool {
    let (sa, sb) = (a >> 63, b >> 63);
    if sa != sb { sa == 1 } else if sa == 0 { (a & !SIGN) < (b & !SIGN) } else { (a & !SIGN) > (b & !SIGN) }
}

/// `f as i64` stated with exact integer arithmetic on the decoded fields
fn spec_to_int(b: u64) -> i64 {
    let e = ((b >> 52) & 0x7FF) as i32;
    let m = (b & ((1 << 52) - 1)) as u128;
    let neg = b >> 63 == 1;
    if e == 0x7FF {
        return if m != 0 { 0 } else if neg { i64::MIN } else { i64::MAX };
    }
    if e == 0 {
        return 0;
    }
    let sig = (1u128 << 52) | m;
    let sh = e - 1075;
    let mag: u128 = if sh >= 0 { if sh >= 70 { u128::MAX } else { sig << sh } } else if -sh >= 64 { 0 } else { sig >> (-sh) };
    if neg {
        if mag >= 1u128 << 63 { i64::MIN } else { -(mag as i128) as i64 }
    } else if mag > i64::MAX as u128 {
        i64::MAX
    } else {
        mag as i64
    }
}

/// is `r` the binary64 nearest to the integer `n` (ties to even)?  exact integer arithmetic
fn spec_from_int_ok(n: i64, r: u64) -> bool {
    if n == 0 {
        return r == 0;
    }
    let e = ((r >> 52) & 0x7FF) as i32;
    let m = (r & ((1 << 52) - 1)) as i128;
    if e == 0 || e == 0x7FF || (r >> 63 == 1) != (n < 0) {
        return false;
    }
    let sig = (1i128 << 52) | m;
    let sh = e - 1075;
    let a = (n as i128).abs();
    if sh <= 0 {
        // exactly representable case: sig / 2^-sh must be the integer a
        return sig == a << (-sh);
    }
    let v = sig << sh;
    let ulp = 1i128 << sh;
    let d = (v - a).abs();
    // nearest; a tie goes to the even significand; and `a` must not fit in 53 bits with a smaller ulp
    2 * d < ulp || (2 * d == ulp && sig % 2 == 0)
}

struct Job {
    req: String,
    src: String,
    kind: &'static str,
    form: &'static str,
    what: String,
    spec: Option<String>,
}

const CMP_DESTS: [&str; 10] = ["print", "let", "assign", "if", "arg", "fn-print", "fn-let", "fn-assign", "fn-if", "fn-ret"];

/// the six comparisons of (a, b) in operand shape `form` (var/var, var/literal = *Imm, literal/literal) with the
/// RESULT consumed as `dest` says: printed directly, stored into a new local, assigned to an existing variable,
/// used as an `if` condition, passed as a call argument — at top level, and the same inside a function (locals
/// are frame offsets there), plus returned from a function.  The optimizer picks a different instruction
/// variant per (operand shape, destination).
fn cmp_program(a: &Opd, b: &Opd, form: &str, dest: &str) -> String {
    let in_fn = dest.starts_with("fn-");
    let d = dest.strip_prefix("fn-").unwrap_or(dest);
    // operand expressions as seen where the comparison is written
    let (x, y) = match form {
        "var" => ("a".to_string(), "b".to_string()),
        "imm" => ("a".to_string(), b.expr.clone()),
        _ => (a.expr.clone(), b.expr.clone()),
    };
    let ops = ["<", "<=", ">", ">=", "==", "!="];
    let mut out = prologue();
    out.push_str("fn idb(v: bool) -> bool {\n  v\n}\n");
    let use_result = |i: usize, e: &str, ind: &str| -> String {
        match d {
            "print" => format!("{ind}println({e})\n"),
            "let" => format!("{ind}let r{i} = {e}\n{ind}println(r{i})\n"),
            "assign" => format!("{ind}var r{i} = false\n{ind}r{i} = {e}\n{ind}println(r{i})\n"),
            "if" => format!("{ind}if {e} {{\n{ind}  println(true)\n{ind}}} else {{\n{ind}  println(false)\n{ind}}}\n"),
            _ => format!("{ind}println(idb({e}))\n"),
        }
    };
    let (params, args) = match form {
        "var" => ("a: float, b: float".to_string(), format!("{}, {}", a.expr, b.expr)),
        "imm" => ("a: float".to_string(), a.expr.clone()),
        _ => (String::new(), String::new()),
    };
    if !in_fn {
        match form {
            "var" => out.push_str(&format!("let a = {}\nlet b = {}\n", a.expr, b.expr)),
            "imm" => out.push_str(&format!("let a = {}\n", a.expr)),
            _ => {}
        }
        for (i, op) in ops.iter().enumerate() {
            out.push_str(&use_result(i, &format!("{x} {op} {y}"), ""));
        }
    } else if d == "ret" {
        for (i, op) in ops.iter().enumerate() {
            out.push_str(&format!("fn c{i}({params}) -> bool {{\n  {x} {op} {y}\n}}\nprintln(c{i}({args}))\n"));
        }
    } else {
        out.push_str(&format!("fn go({params}) {{\n"));
        for (i, op) in ops.iter().enumerate() {
            out.push_str(&use_result(i, &format!("{x} {op} {y}"), "  "));
        }
        out.push_str(&format!("}}\ngo({args})\n"));
    }
    out
}

fn render_cmp(r: &RunResult) -> String {
    match &r.outcome {
        Outcome::Done => {
            let names = ["lt", "le", "gt", "ge", "eq", "ne"];
            let ls: Vec<&str> = r.out.lines().collect();
            if ls.len() != 6 {
                return format!("other bad-output {:?}", r.out);
            }
            names.iter().zip(ls).map(|(n, l)| format!("{n}={}", match l { "true" => "1", "false" => "0", _ => "?" })).collect::<Vec<_>>().join(" ")
        }
        Outcome::Error(k) => format!("err {k}"),
        o => format!("other {}", o.tag()),
    }
}

/// result printed as `println(r)` then `println(r < 0.0)`
fn render_float(r: &RunResult) -> String {
    match &r.outcome {
        Outcome::Done => {
            let ls: Vec<&str> = r.out.lines().collect();
            if ls.len() != 2 {
                return format!("other bad-output {:?}", r.out);
            }
            match ls[0].parse::<f64>() {
                Ok(f) if f.is_nan() => format!("ok {}", if ls[1] == "true" { "nan-" } else { "nan+" }),
                Ok(f) => format!("ok {}", hex64(f.to_bits())),
                Err(_) => format!("other unparsable {:?}", ls[0]),
            }
        }
        Outcome::Error(k) => format!("err {k}"),
        o => format!("other {}", o.tag()),
    }
}

fn host_arith(op: &str, a: u64, b: u64) -> u64 {
    let (x, y) = (black_box(f64::from_bits(a)), black_box(f64::from_bits(b)));
    black_box(match op {
        "add" => x + y,
        "sub" => x - y,
        "mul" => x * y,
        "div" => x / y,
        _ => x.powf(y),
    })
    .to_bits()
}

fn main() {
    let mut ctx = Ctx::from_env("C16");
    let sp = host_specials();
    let quick = ctx.quick();
    let mut set = boundary();
    set.extend_from_slice(&[sp.0, sp.1, sp.2]);
    let mut jobs: Vec<Job> = vec![];

    // ---------------------------------------------------------------- comparisons
    let mut pairs: Vec<(u64, u64)> = vec![];
    if quick {
        for _ in 0..260 {
            pairs.push((*ctx.rng.pick(&set), *ctx.rng.pick(&set)));
        }
    } else {
        for &a in &set {
            for &b in &set {
                pairs.push((a, b));
            }
        }
    }
    for &(a, b) in &[(0, SIGN), (SIGN, 0), (sp.2, sp.2), (sp.2, sp.1), (sp.0, sp.2), (sp.2, 0), (0, 0), (SIGN, SIGN), (1, 0), (SIGN | 1, SIGN)] {
        pairs.push((a, b));
    }
    for _ in 0..(if quick { 120 } else { 3000 }) {
        let a = rand_bits(&mut ctx.rng);
        let b = match ctx.rng.below(4) {
            0 => a,
            1 => a ^ SIGN,
            2 => a.wrapping_add(1),
            _ => rand_bits(&mut ctx.rng),
        };
        if f64::from_bits(b).is_finite() {
            pairs.push((a, b));
        }
    }
    for (a, b) in pairs {
        let (Some(oa), Some(ob)) = (opd(a, sp), opd(b, sp)) else { continue };
        // every applicable operand form for every pair: the ten comparison *Imm arms and the folded forms are
        // separate code paths from the variable/variable arms
        let mut forms_here: Vec<&'static str> = vec!["var"];
        if ob.literal { forms_here.push("imm"); }
        if oa.literal && ob.literal { forms_here.push("lit"); }
        // destinations: one seeded destination per (pair, shape); every destination for equal operands
        // (incl. -0.0/+0.0 and the NaN pair) and for a seeded tenth of the others
        let all_dests = a == b || (a ^ b) == SIGN || ctx.rng.chance(1, if quick { 40 } else { 3 });
        for form in forms_here {
        let dests: Vec<&'static str> = if all_dests { CMP_DESTS.to_vec() } else if quick { vec![*ctx.rng.pick(&CMP_DESTS)] } else { vec!["print", *ctx.rng.pick(&CMP_DESTS[1..])] };
        for dest in dests {
        let lt = total_lt(a, b);
        let gt = total_lt(b, a);
        let eq = a == b;
        let bit = |x: bool| if x { '1' } else { '0' };
        let spec = format!("lt={} le={} gt={} ge={} eq={} ne={}", bit(lt), bit(lt || eq), bit(gt), bit(gt || eq), bit(eq), bit(!eq));
        jobs.push(Job {
            req: format!("f64 cmp {} {} #{form}/{dest}", hex64(a), hex64(b)),
            src: cmp_program(&oa, &ob, form, dest),
            kind: "cmp",
            form: Box::leak(format!("{form}/{dest}").into_boxed_str()),
            what: format!("{} ? {} ({} ? {}) [{form}, result -> {dest}]", oa.expr, ob.expr, hex64(a), hex64(b)),
            spec: Some(spec),
        });
        }
        }
    }

    // ---------------------------------------------------------------- arithmetic, all operand forms
    let ops = [("add", "+"), ("sub", "-"), ("mul", "*"), ("div", "/"), ("pow", "^")];
    let n_arith = if quick { 700 } else { 12000 };
    for i in 0..n_arith {
        let (name, sym) = ops[i % ops.len()];
        let a = if ctx.rng.chance(1, 2) { *ctx.rng.pick(&set) } else { rand_bits(&mut ctx.rng) };
        let mut b = if ctx.rng.chance(1, 2) { *ctx.rng.pick(&set) } else { rand_bits(&mut ctx.rng) };
        if name == "div" && ctx.rng.chance(1, 4) {
            b = if ctx.rng.chance(1, 2) { 0 } else { SIGN };
        }
        if name == "pow" && ctx.rng.chance(1, 2) {
            // small exponents, fractional ones of negative bases (NaN results) included
            b = *ctx.rng.pick(&[0x3FE0_0000_0000_0000u64, 0x4000_0000_0000_0000, 0x4008_0000_0000_0000, 0xBFF0_0000_0000_0000, 0, 0x3FF8_0000_0000_0000]);
        }
        let (Some(oa), Some(ob)) = (opd(a, sp), opd(b, sp)) else { continue };
        let form = match ctx.rng.below(5) {
            0 => "var",
            1 if ob.literal => "imm",
            2 | 3 if oa.literal && ob.literal => "lit",
            4 if name != "pow" => "cmpd",
            _ => "var",
        };
        let c = host_arith(name, a, b);
        // where the result goes: a new local (default), printed directly, an existing variable, a call argument,
        // a function's return value, a local inside a function
        let dest: &'static str = if form == "cmpd" { "cmpd" } else { *ctx.rng.pick(&["let", "let", "print", "assign", "arg", "fn-ret", "fn-let", "fn-assign"]) };
        let src = if form == "cmpd" {
            format!("{}var r = {}\nlet b = {}\nr {sym}= b\nprintln(r)\nprintln(r < 0.0)\n", prologue(), oa.expr, ob.expr)
        } else {
            let (x, y, pre, params, args) = match form {
                "var" => ("a".to_string(), "b".to_string(), format!("let a = {}\nlet b = {}\n", oa.expr, ob.expr), "a: float, b: float".to_string(), format!("{}, {}", oa.expr, ob.expr)),
                "imm" => ("a".to_string(), ob.expr.clone(), format!("let a = {}\n", oa.expr), "a: float".to_string(), oa.expr.clone()),
                _ => (oa.expr.clone(), ob.expr.clone(), String::new(), String::new(), String::new()),
            };
            let e = format!("{x} {sym} {y}");
            let tail = "println(r)\nprintln(r < 0.0)\n";
            match dest {
                "let" => format!("{}{pre}let r = {e}\n{tail}", prologue()),
                "print" => format!("{}{pre}println({e})\nprintln(({e}) < 0.0)\n", prologue()),
                "assign" => format!("{}{pre}var r = 0.0\nr = {e}\n{tail}", prologue()),
                "arg" => format!("{}fn idf(v: float) -> float {{\n  v\n}}\n{pre}let r = idf({e})\n{tail}", prologue()),
                "fn-ret" => format!("{}fn g({params}) -> float {{\n  {e}\n}}\nlet r = g({args})\n{tail}", prologue()),
                "fn-let" => format!("{}fn g({params}) -> float {{\n  let q = {e}\n  q\n}}\nlet r = g({args})\n{tail}", prologue()),
                _ => format!("{}fn g({params}) -> float {{\n  var q = 0.0\n  q = {e}\n  q\n}}\nlet r = g({args})\n{tail}", prologue()),
            }
        };
        let zero_div = name == "div" && (b & !SIGN) == 0;
        let spec = if zero_div { "err divzero".to_string() } else { format!("ok {}", render_bits(c)) };
        jobs.push(Job {
            req: format!("f64 arith {} {name} {} {} {} #{form}/{dest}", if form == "lit" { "lit" } else { "var" }, hex64(a), hex64(b), hex64(c)),
            src,
            kind: "arith",
            form: Box::leak(format!("{form}/{dest}").into_boxed_str()),
            what: format!("{} {sym} {} ({} {name} {}) [{form}, result -> {dest}]", oa.expr, ob.expr, hex64(a), hex64(b)),
            spec: Some(spec),
        });
    }

    // ---------------------------------------------------------------- chains: v op a op b [op c] with literal operands
    // one instruction per operator, left to right, one rounding each (no reassociation of immediates);
    // `v + a * b` and `x += a op b` group to the right: v op1 (a op2 b)
    let f = |x: f64| x.to_bits();
    let designed: Vec<(u64, &str, u64, &str, u64)> = vec![
        (f(9007199254740992.0), "add", f(1.0), "add", f(1.0)),
        (f(-9007199254740992.0), "sub", f(1.0), "sub", f(1.0)),
        (f(9007199254740992.0), "add", f(1.0), "sub", f(1.0)),
        (f(9007199254740992.0), "sub", f(-1.0), "sub", f(-1.0)),
        (f(1.0), "add", f(0.00000000000000006), "add", f(0.00000000000000006)),
        (f(1.0), "sub", f(0.00000000000000003), "sub", f(0.00000000000000003)),
        (f(1e308), "add", f(1e308), "add", f(-1e308)),
        (f(1e308), "add", f(1e308), "sub", f(1e308)),
        (f(-1e308), "sub", f(1e308), "add", f(1e308)),
        (f(1e16), "add", f(1.0), "add", f(1.0)),
        (f(1e16), "add", f(1.0), "sub", f(1e16)),
        (0x7FEF_FFFF_FFFF_FFFF, "mul", f(2.0), "mul", f(0.5)),
        (0x7FEF_FFFF_FFFF_FFFF, "mul", f(0.5), "mul", f(2.0)),
        (0x7FEF_FFFF_FFFF_FFFF, "mul", f(2.0), "div", f(2.0)),
        (0x7FEF_FFFF_FFFF_FFFF, "div", f(0.5), "div", f(2.0)),
        (0x7FEF_FFFF_FFFF_FFFF, "div", f(0.5), "mul", f(0.5)),
        (1, "mul", f(0.5), "mul", f(2.0)),
        (1, "div", f(2.0), "div", f(0.5)),
        (1, "div", f(2.0), "mul", f(2.0)),
        (f(1.0), "div", f(3.0), "div", f(3.0)),
        (f(1.0), "div", f(3.0), "mul", f(3.0)),
        (f(0.1), "mul", f(3.0), "mul", f(10.0)),
        (f(0.1), "add", f(0.2), "add", f(0.3)),
        (f(0.1), "add", f(0.2), "sub", f(0.3)),
        (f(1.0), "div", f(0.0), "div", f(1.0)),
        (f(1.0), "div", f(2.0), "div", SIGN),
        (f(1.0), "mul", f(0.0), "div", f(0.0)),
        (f(5.0), "add", f(3.0), "mul", f(2.0)),
        (f(9007199254740992.0), "add", f(0.5), "mul", f(2.0)),
        (f(1.0), "sub", f(1e308), "mul", f(10.0)),
        (f(2.0), "mul", f(3.0), "add", f(0.1)),
        (f(1.0), "div", f(3.0), "sub", f(0.3333333333333333)),
    ];
    let mut chains: Vec<(u64, Vec<(&str, u64)>)> = designed.iter().map(|(v, o1, a, o2, b)| (*v, vec![(*o1, *a), (*o2, *b)])).collect();
    let finite_set: Vec<u64> = set.iter().cloned().filter(|b| f64::from_bits(*b).is_finite()).collect();
    let chain_ops = ["add", "sub", "mul", "div"];
    for _ in 0..(if quick { 260 } else { 8000 }) {
        let v = if ctx.rng.chance(1, 2) { *ctx.rng.pick(&set) } else { rand_bits(&mut ctx.rng) };
        let n = 2 + ctx.rng.below(2) as usize;
        let mut steps = vec![];
        for _ in 0..n {
            let a = match ctx.rng.below(3) {
                0 => *ctx.rng.pick(&finite_set),
                1 => *ctx.rng.pick(&[f(1.0), f(-1.0), f(2.0), f(0.5), f(3.0), f(0.1), f(1e308), f(1e-300), f(0.00000000000000006), f(4503599627370496.0)]),
                _ => {
                    let e = 1023 - 60 + ctx.rng.below(120);
                    (ctx.rng.below(2) << 63) | (e << 52) | (ctx.rng.next() & ((1 << 52) - 1))
                }
            };
            steps.push((*ctx.rng.pick(&chain_ops), a));
        }
        chains.push((v, steps));
    }
    let sym = |o: &str| match o { "add" => "+", "sub" => "-", "mul" => "*", _ => "/" };
    let prec = |o: &str| if o == "add" || o == "sub" { 1 } else { 2 };
    for (v, steps) in chains {
        let Some(ov) = opd(v, sp) else { continue };
        // left-to-right is what the source means only while precedence does not increase along the chain
        let left_assoc = steps.windows(2).all(|w| prec(w[0].0) >= prec(w[1].0));
        if left_assoc {
            // host, step by step
            let mut cs: Vec<u64> = vec![];
            let mut cur = v;
            let mut err = false;
            for (o, a) in &steps {
                if *o == "div" && (a & !SIGN) == 0 { err = true; break; }
                cur = host_arith(o, cur, *a);
                cs.push(cur);
            }
            let spec = if err { "err divzero".to_string() } else { format!("ok {}", render_bits(cur)) };
            let mut req = format!("f64 chain {}", hex64(v));
            let mut run = v;
            for (i, (o, a)) in steps.iter().enumerate() {
                // after a zero divisor the host values are irrelevant (the model stops there)
                let c = cs.get(i).cloned().unwrap_or(0);
                req.push_str(&format!(" {o} {} {}", hex64(*a), hex64(c)));
                run = c;
            }
            let _ = run;
            let expr_lits: String = steps.iter().map(|(o, a)| format!(" {} {}", sym(o), lit(*a))).collect();
            let names = ["a", "b", "c"];
            let expr_vars: String = steps.iter().enumerate().map(|(i, (o, _))| format!(" {} {}", sym(o), names[i])).collect();
            let lets: String = steps.iter().enumerate().map(|(i, (_, a))| format!("let {} = {}\n", names[i], lit(*a))).collect();
            for form in ["vlit", "allvar", "assign"] {
                let src = match form {
                    "vlit" => format!("{}let v = {}\nlet r = v{expr_lits}\nprintln(r)\nprintln(r < 0.0)\n", prologue(), ov.expr),
                    "allvar" => format!("{}let v = {}\n{lets}let r = v{expr_vars}\nprintln(r)\nprintln(r < 0.0)\n", prologue(), ov.expr),
                    _ => format!("{}var r = {}\nr = r{expr_lits}\nprintln(r)\nprintln(r < 0.0)\n", prologue(), ov.expr),
                };
                jobs.push(Job {
                    req: format!("{req} #{form}"),
                    src,
                    kind: "chain",
                    form,
                    what: format!("{}{expr_lits} (v = {})", ov.expr, hex64(v)),
                    spec: Some(spec.clone()),
                });
            }
        }
        // right-grouped: v op1 (a op2 b) — as written with precedence, with parentheses, and as `x op1= a op2 b`
        let (o1, a) = steps[0];
        let (o2, b) = steps[1];
        let zero2 = o2 == "div" && (b & !SIGN) == 0;
        let t = if zero2 { 0 } else { host_arith(o2, a, b) };
        let zero1 = o1 == "div" && (t & !SIGN) == 0;
        let c = if zero2 || zero1 { 0 } else { host_arith(o1, v, t) };
        let spec = if zero2 || zero1 { "err divzero".to_string() } else { format!("ok {}", render_bits(c)) };
        let req = format!("f64 chainr {} {o1} {} {o2} {} {} {}", hex64(v), hex64(a), hex64(b), hex64(t), hex64(c));
        let mut forms: Vec<(&'static str, String)> = vec![
            ("paren", format!("{}let v = {}\nlet r = v {} ({} {} {})\nprintln(r)\nprintln(r < 0.0)\n", prologue(), ov.expr, sym(o1), lit(a), sym(o2), lit(b))),
            ("cmpd", format!("{}var r = {}\nr {}= {} {} {}\nprintln(r)\nprintln(r < 0.0)\n", prologue(), ov.expr, sym(o1), lit(a), sym(o2), lit(b))),
            ("parenvar", format!("{}let v = {}\nlet a = {}\nlet b = {}\nlet r = v {} (a {} b)\nprintln(r)\nprintln(r < 0.0)\n", prologue(), ov.expr, lit(a), lit(b), sym(o1), sym(o2))),
        ];
        if prec(o2) > prec(o1) {
            forms.push(("prec", format!("{}let v = {}\nlet r = v {} {} {} {}\nprintln(r)\nprintln(r < 0.0)\n", prologue(), ov.expr, sym(o1), lit(a), sym(o2), lit(b))));
        }
        for (form, src) in forms {
            jobs.push(Job {
                req: format!("{req} #{form}"),
                src,
                kind: "chainr",
                form,
                what: format!("{} {} ({} {} {}) (v = {})", ov.expr, sym(o1), lit(a), sym(o2), lit(b), hex64(v)),
                spec: Some(spec.clone()),
            });
        }
    }

    // ---------------------------------------------------------------- math instructions, conversions into locals, intrinsics by name
    let host_math = |f: &str, x: u64| -> u64 {
        let v = black_box(f64::from_bits(x));
        black_box(match f {
            "sqrt" => v.sqrt(), "sin" => v.sin(), "cos" => v.cos(), "tan" => v.tan(), "asin" => v.asin(),
            "acos" => v.acos(), "atan" => v.atan(), "log" => v.ln(), "log2" => v.log2(), "log10" => v.log10(),
            "floor" => v.floor(), "ceil" => v.ceil(), _ => v.round(),
        }).to_bits()
    };
    let fb = |x: f64| x.to_bits();
    let mut mvals: Vec<u64> = set.clone();
    mvals.extend_from_slice(&[fb(0.5), fb(-0.5), fb(0.3), fb(-0.3), fb(2.5), fb(-2.5), fb(3.5), fb(-3.5), fb(0.49999999999999994),
        fb(-0.49999999999999994), fb(4503599627370495.5), fb(-4503599627370495.5), fb(4503599627370497.0), fb(1.0000000000000002),
        fb(-1.0000000000000002), fb(3.141592653589793), fb(1.5707963267948966), fb(0.7853981633974483), fb(2.718281828459045),
        fb(8.0), fb(1000.0), fb(0.001), fb(1e-300), fb(1e300), fb(-4.0), fb(2.0), fb(100.0)]);
    let mfns = ["sqrt", "sin", "cos", "tan", "asin", "acos", "atan", "log", "log2", "log10", "floor", "ceil", "round"];
    let n_math = if quick { 330 } else { 9000 };
    for i in 0..n_math {
        let fnm = mfns[i % mfns.len()];
        let x = if ctx.rng.chance(2, 3) { *ctx.rng.pick(&mvals) } else { rand_bits(&mut ctx.rng) };
        let Some(ox) = opd(x, sp) else { continue };
        let c = host_math(fnm, x);
        let has_method = matches!(fnm, "sqrt" | "floor" | "ceil" | "round");
        let form = match ctx.rng.below(5) {
            0 if ox.literal => "lit",
            1 => "let",
            2 => "fnval",
            3 if has_method => "method",
            _ => "var",
        };
        let tail = "println(r)\nprintln(r < 0.0)\n";
        let src = match form {
            "lit" => format!("let r = {fnm}({})\n{tail}", ox.expr),
            // operand and destination are both locals (the optimizer's replace_first_arg / replace_dest arms)
            "let" => format!("{}fn go(x: float) -> float {{\n  let y = x\n  let r = {fnm}(y)\n  r\n}}\nlet r = go({})\n{tail}", prologue(), ox.expr),
            "fnval" => format!("{}let g = {fnm}\nlet x = {}\nlet r = g(x)\n{tail}", prologue(), ox.expr),
            "method" => format!("{}let x = {}\nlet r = x.{fnm}()\n{tail}", prologue(), ox.expr),
            _ => format!("{}let x = {}\nlet r = {fnm}(x)\n{tail}", prologue(), ox.expr),
        };
        jobs.push(Job {
            req: format!("f64 math {fnm} {} {} #{form}", hex64(x), hex64(c)),
            src, kind: "math", form,
            what: format!("{fnm}({}) ({})", ox.expr, hex64(x)),
            spec: Some(format!("ok {}", render_bits(c))),
        });
    }
    for _ in 0..(if quick { 40 } else { 1200 }) {
        let y = if ctx.rng.chance(1, 2) { *ctx.rng.pick(&mvals) } else { rand_bits(&mut ctx.rng) };
        let x = if ctx.rng.chance(1, 2) { *ctx.rng.pick(&mvals) } else { rand_bits(&mut ctx.rng) };
        let (Some(oy), Some(ox)) = (opd(y, sp), opd(x, sp)) else { continue };
        let c = black_box(black_box(f64::from_bits(y)).atan2(black_box(f64::from_bits(x)))).to_bits();
        let form = match ctx.rng.below(3) { 0 if oy.literal && ox.literal => "lit", 1 => "let", _ => "var" };
        let tail = "println(r)\nprintln(r < 0.0)\n";
        let src = match form {
            "lit" => format!("let r = atan2({}, {})\n{tail}", oy.expr, ox.expr),
            "let" => format!("{}fn go(y: float, x: float) -> float {{\n  let a = atan2(y * 1.0, x)\n  a\n}}\nlet r = go({}, {})\n{tail}", prologue(), oy.expr, ox.expr),
            _ => format!("{}let y = {}\nlet x = {}\nlet r = atan2(y, x)\n{tail}", prologue(), oy.expr, ox.expr),
        };
        jobs.push(Job {
            req: format!("f64 atan2 {} {} {} #{form}", hex64(y), hex64(x), hex64(c)),
            src, kind: "atan2", form,
            what: format!("atan2({}, {})", oy.expr, ox.expr),
            spec: Some(format!("ok {}", render_bits(c))),
        });
    }
    // float -> string -> (host parse): `string_from_float`, `.str()`, stored straight into a local
    for _ in 0..(if quick { 60 } else { 2000 }) {
        let x = if ctx.rng.chance(1, 2) { *ctx.rng.pick(&mvals) } else { rand_bits(&mut ctx.rng) };
        let Some(ox) = opd(x, sp) else { continue };
        let form = match ctx.rng.below(3) { 0 => "str-let", 1 => "intrinsic-let", _ => "concat" };
        let src = match form {
            "str-let" => format!("{}let x = {}\nlet s = x.str()\nprintln(s)\nprintln(x < 0.0)\n", prologue(), ox.expr),
            "intrinsic-let" => format!("{}let x = {}\nlet s = string_from_float(x)\nprintln(s)\nprintln(x < 0.0)\n", prologue(), ox.expr),
            _ => format!("{}let x = {}\nprintln(\"\" .. x)\nprintln(x < 0.0)\n", prologue(), ox.expr),
        };
        // a NaN prints as `NaN`: only NaN-ness survives (the text parses to the canonical +NaN, as `viaString` says)
        let spec = if is_nan(x) { "ok nan+".to_string() } else { format!("ok {}", hex64(x)) };
        jobs.push(Job { req: format!("f64 viastring {} #{form}", hex64(x)), src, kind: "tostr", form, what: format!("str({})", ox.expr), spec: Some(spec) });
    }
    // the arithmetic and comparison intrinsics called by NAME (emit_intrinsic arms, not the inlined operators)
    for i in 0..(if quick { 100 } else { 3000 }) {
        let a = if ctx.rng.chance(1, 2) { *ctx.rng.pick(&set) } else { rand_bits(&mut ctx.rng) };
        let mut b = if ctx.rng.chance(1, 2) { *ctx.rng.pick(&set) } else { rand_bits(&mut ctx.rng) };
        let (Some(oa), Some(_)) = (opd(a, sp), opd(b, sp)) else { continue };
        if i % 2 == 0 {
            let (name, iname) = [("add", "add_float"), ("sub", "subtract_float"), ("mul", "multiply_float"), ("div", "divide_float"), ("pow", "power_float")][(i / 2) % 5];
            if name == "div" && ctx.rng.chance(1, 3) { b = if ctx.rng.chance(1, 2) { 0 } else { SIGN }; }
            let ob = opd(b, sp).unwrap();
            let c = host_arith(name, a, b);
            let zero_div = name == "div" && (b & !SIGN) == 0;
            let fv = ctx.rng.chance(1, 3);
            let src = if fv {
                format!("{}let f = {iname}\nlet r = f({}, {})\nprintln(r)\nprintln(r < 0.0)\n", prologue(), oa.expr, ob.expr)
            } else {
                format!("{}let a = {}\nlet r = {iname}(a, {})\nprintln(r)\nprintln(r < 0.0)\n", prologue(), oa.expr, ob.expr)
            };
            jobs.push(Job {
                req: format!("f64 arith var {name} {} {} {} #{}", hex64(a), hex64(b), hex64(c), if fv { "intr-fnval" } else { "intr" }),
                src, kind: "arith", form: if fv { "intr-fnval" } else { "intr" },
                what: format!("{iname}({}, {})", oa.expr, ob.expr),
                spec: Some(if zero_div { "err divzero".to_string() } else { format!("ok {}", render_bits(c)) }),
            });
        } else {
            let ob = opd(b, sp).unwrap();
            let lt = total_lt(a, b);
            let gt = total_lt(b, a);
            let eq = a == b;
            let bit = |x: bool| if x { '1' } else { '0' };
            let spec = format!("lt={} le={} gt={} ge={} eq={} ne={}", bit(lt), bit(lt || eq), bit(gt), bit(gt || eq), bit(eq), bit(!eq));
            let src = format!("{}let a = {}\nlet b = {}\nprintln(less_than_float(a, b))\nprintln(less_than_or_equal_float(a, b))\nprintln(greater_than_float(a, b))\nprintln(greater_than_or_equal_float(a, b))\nprintln(equal_float(a, b))\nprintln(not equal_float(a, b))\n", prologue(), oa.expr, ob.expr);
            jobs.push(Job { req: format!("f64 cmp {} {} #intr", hex64(a), hex64(b)), src, kind: "cmp", form: "intr", what: format!("intrinsics on {} {}", oa.expr, ob.expr), spec: Some(spec) });
        }
    }

    // ---------------------------------------------------------------- `^` whichever way the operands are written
    // base in a variable / parameter / array element with the exponent as a LITERAL (PowerFloatImm), against the
    // exponent in a variable, x.pow(y), power_float, Num.power — all bit-exactly the host's f64::powf
    {
        let fbits = |x: f64| x.to_bits();
        let exps: Vec<u64> = [2.0, 3.0, 4.0, -1.0, -2.0, 0.5, 10.0, 64.0, 65.0, 1.5, 0.0, 1.0, -3.0, 63.0, -64.0, 5.0, 7.0, -0.5, 100.0]
            .iter().map(|e| fbits(*e)).collect();
        let mut pw: Vec<(u64, u64)> = vec![
            (fbits(1e155), fbits(-2.0)), (fbits(1e-155), fbits(2.0)), (fbits(1e154), fbits(2.0)), (fbits(1e155), fbits(2.0)),
            (fbits(1.3), fbits(3.0)), (fbits(1e103), fbits(3.0)), (fbits(1e-108), fbits(3.0)), (fbits(-1.3), fbits(3.0)),
            (fbits(1e77), fbits(4.0)), (fbits(2.0), fbits(64.0)), (fbits(2.0), fbits(65.0)), (fbits(0.5), fbits(64.0)),
            (fbits(1.0000000000000002), fbits(64.0)), (fbits(1.0000000000000002), fbits(65.0)), (fbits(-0.0), fbits(-1.0)),
            (fbits(0.0), fbits(-2.0)), (fbits(-0.0), fbits(3.0)), (fbits(-2.0), fbits(0.5)), (fbits(1e-320), fbits(2.0)),
        ];
        for b in [0.1, 0.3, 0.7, 1.2, 1.3, 2.3, -0.1, -2.3, 10.0, 3.0] {
            for e in &exps { pw.push((fbits(b), *e)); }
        }
        for _ in 0..(if quick { 300 } else { 9000 }) {
            // random mantissa, moderate exponent, either sign
            let e = 1023 - 12 + ctx.rng.below(24);
            let base = (ctx.rng.below(4) / 3 << 63) | (e << 52) | (ctx.rng.next() & ((1 << 52) - 1));
            let ex = if ctx.rng.chance(4, 5) { *ctx.rng.pick(&exps[..9]) } else { *ctx.rng.pick(&exps) };
            pw.push((base, ex));
        }
        if quick {
            // keep the designed pairs, sample the grid
            let keep = 19;
            let mut sampled: Vec<(u64, u64)> = pw[..keep].to_vec();
            for p in &pw[keep..] { if ctx.rng.chance(3, 4) { sampled.push(*p); } }
            pw = sampled;
        }
        for (a, b) in pw {
            let c = host_arith("pow", a, b);
            let (la, lb) = (lit(a), lit(b));
            let routes = ["imm", "param-imm", "elem-imm", "var", "method", "intrinsic", "intrinsic-imm", "num"];
            let src = format!(
                "fn f(p: float) -> float {{\n  p ^ {lb}\n}}\nlet x = {la}\nlet y = {lb}\nlet arr = [x, 1.0]\n\
                 let r0 = x ^ {lb}\nprintln(r0)\nprintln(r0 < 0.0)\nlet r1 = f(x)\nprintln(r1)\nprintln(r1 < 0.0)\n\
                 let r2 = arr[0] ^ {lb}\nprintln(r2)\nprintln(r2 < 0.0)\nlet r3 = x ^ y\nprintln(r3)\nprintln(r3 < 0.0)\n\
                 let r4 = x.pow(y)\nprintln(r4)\nprintln(r4 < 0.0)\nlet r5 = power_float(x, y)\nprintln(r5)\nprintln(r5 < 0.0)\n\
                 let r6 = power_float(x, {lb})\nprintln(r6)\nprintln(r6 < 0.0)\nlet r7 = Num.power(x, y)\nprintln(r7)\nprintln(r7 < 0.0)\n");
            jobs.push(Job {
                req: format!("f64 arith var pow {} {} {} #{}", hex64(a), hex64(b), hex64(c), routes.join(",")),
                src, kind: "powroutes", form: "routes",
                what: format!("{la} ^ {lb} ({} pow {})", hex64(a), hex64(b)),
                spec: Some(format!("ok {}", render_bits(c))),
            });
        }
    }

    // ---------------------------------------------------------------- unary minus
    let mut negs: Vec<u64> = set.clone();
    for _ in 0..(if quick { 40 } else { 1500 }) {
        negs.push(rand_bits(&mut ctx.rng));
    }
    for x in negs {
        let Some(ox) = opd(x, sp) else { continue };
        let c = (black_box(-0.0f64) - black_box(f64::from_bits(x))).to_bits();
        let form = if ox.literal && ctx.rng.chance(1, 2) { "lit" } else { "var" };
        let src = if form == "var" {
            format!("{}let x = {}\nlet r = -x\nprintln(r)\nprintln(r < 0.0)\n", prologue(), ox.expr)
        } else {
            format!("let r = -({})\nprintln(r)\nprintln(r < 0.0)\n", ox.expr)
        };
        // IEEE negation: the sign bit flips, for every non-NaN operand; a NaN stays a NaN
        let spec = if is_nan(x) { None } else { Some(format!("ok {}", hex64(x ^ SIGN))) };
        jobs.push(Job {
            req: format!("f64 neg {} {} #{form}", hex64(x), hex64(c)),
            src,
            kind: "neg",
            form,
            what: format!("-({}) ({})", ox.expr, hex64(x)),
            spec,
        });
    }

    // ---------------------------------------------------------------- int_from_float
    let mut tis: Vec<u64> = set.clone();
    for _ in 0..(if quick { 150 } else { 6000 }) {
        tis.push(rand_bits(&mut ctx.rng));
    }
    for x in tis {
        let Some(ox) = opd(x, sp) else { continue };
        let form = match ctx.rng.below(4) {
            0 if ox.literal => "lit",
            1 => "method",
            2 => "let",
            _ => "var",
        };
        let src = match form {
            // operand and result are locals of a function (the optimizer's replace_dest arm for IntFromFloat)
            "let" => format!("{}fn go(x: float) -> int {{\n  let y = x\n  let i = int_from_float(y)\n  i\n}}\nprintln(go({}))\n", prologue(), ox.expr),
            "lit" => format!("println(int_from_float({}))\n", ox.expr),
            "method" => format!("{}let x = {}\nprintln(x.to_int())\n", prologue(), ox.expr),
            _ => format!("{}let x = {}\nprintln(int_from_float(x))\n", prologue(), ox.expr),
        };
        jobs.push(Job {
            req: format!("f64 toint {} #{form}", hex64(x)),
            src,
            kind: "toint",
            form,
            what: format!("int_from_float({}) ({})", ox.expr, hex64(x)),
            spec: Some(format!("{}", spec_to_int(x))),
        });
    }

    // ---------------------------------------------------------------- float_from_int
    let mut fis: Vec<i64> = vec![0, 1, -1, 2, 3, -3, 1 << 52, (1 << 53) - 1, 1 << 53, (1 << 53) + 1, (1 << 53) + 2, (1 << 53) + 3,
        -((1 << 53) + 1), (1 << 54) + 2, (1 << 54) + 6, i64::MAX, i64::MAX - 1, i64::MIN, i64::MIN + 1, i64::MAX - 511, i64::MAX - 512,
        i64::MAX - 513, (1 << 62) + 256, (1 << 62) + 257, (1 << 62) + 255, (1 << 62) + 768, 1 << 62, 1 << 31, (1 << 60) + 64, (1 << 60) + 192];
    for _ in 0..(if quick { 150 } else { 6000 }) {
        let n = match ctx.rng.below(3) {
            0 => ctx.rng.next() as i64,
            1 => {
                // a tie or near-tie just above 2^53: significand, then half-ulp pattern below it
                let sh = 1 + ctx.rng.below(10);
                let q = (1u64 << 52) | (ctx.rng.next() & ((1 << 52) - 1));
                let low = match ctx.rng.below(3) { 0 => 1u64 << (sh - 1), 1 => (1u64 << (sh - 1)) + 1, _ => (1u64 << (sh - 1)).wrapping_sub(1) };
                let v = ((q << sh) | (low & ((1 << sh) - 1))) as i64;
                if ctx.rng.chance(1, 2) { v } else { v.wrapping_neg() }
            }
            _ => ctx.rng.range(-(1 << 54), 1 << 54),
        };
        fis.push(n);
    }
    for n in fis {
        let form = match ctx.rng.below(3) { 0 => "lit", 1 => "method", _ => "var" };
        let src = match form {
            "lit" => format!("let r = float_from_int({n})\nprintln(r)\nprintln(r < 0.0)\n"),
            "method" => format!("let n = {n}\nlet r = n.to_float()\nprintln(r)\nprintln(r < 0.0)\n"),
            _ => format!("let n = {n}\nlet r = float_from_int(n)\nprintln(r)\nprintln(r < 0.0)\n"),
        };
        jobs.push(Job { req: format!("f64 fromint {n} #{form}"), src, kind: "fromint", form, what: format!("float_from_int({n})"), spec: None });
    }

    // ---------------------------------------------------------------- run
    let results = par_map(&jobs, |j| {
        let r = run_program(&j.src);
        match j.kind {
            "cmp" => render_cmp(&r),
            "toint" => match &r.outcome {
                Outcome::Done => r.out.trim().to_string(),
                Outcome::Error(k) => format!("err {k}"),
                o => format!("other {}", o.tag()),
            },
            "powroutes" => {
                match &r.outcome {
                    Outcome::Done => {
                        let ls: Vec<&str> = r.out.lines().collect();
                        if ls.len() != 16 { return format!("other bad-output {:?}", r.out); }
                        ls.chunks(2).map(|c| match c[0].parse::<f64>() {
                            Ok(f) if f.is_nan() => format!("ok {}", if c[1] == "true" { "nan-" } else { "nan+" }),
                            Ok(f) => format!("ok {}", hex64(f.to_bits())),
                            Err(_) => format!("other unparsable {:?}", c[0]),
                        }).collect::<Vec<_>>().join("|")
                    }
                    Outcome::Error(k) => format!("err {k}"),
                    o => format!("other {}", o.tag()),
                }
            }
            "tostr" => {
                // line 1: the text; line 2: the operand's sign (to render a NaN like the model does)
                match &r.outcome {
                    Outcome::Done => {
                        let ls: Vec<&str> = r.out.lines().collect();
                        if ls.len() != 2 { return format!("other bad-output {:?}", r.out); }
                        match ls[0].parse::<f64>() {
                            // the text `NaN` parses to the canonical quiet NaN: the sign is what the text carries (none)
                            Ok(f) => format!("ok {}", render_bits(f.to_bits())),
                            Err(_) => format!("other unparsable {:?}", ls[0]),
                        }
                    }
                    Outcome::Error(k) => format!("err {k}"),
                    o => format!("other {}", o.tag()),
                }
            }
            "fromint" => {
                let s = render_float(&r);
                s.strip_prefix("ok ").map(|x| x.to_string()).unwrap_or(s)
            }
            _ => render_float(&r),
        }
    });
    // laws checked directly on the implementation's comparison answers
    for (j, imp) in jobs.iter().zip(results.iter()) {
        if j.kind == "powroutes" {
            // one case per route; all routes must give the same bits, the host's powf
            let base_req = j.req.split(" #").next().unwrap().to_string();
            let routes: Vec<&str> = j.req.split(" #").nth(1).unwrap().split(',').collect();
            let parts: Vec<String> = if imp.contains('|') { imp.split('|').map(|x| x.to_string()).collect() } else { vec![imp.clone(); routes.len()] };
            let spec = j.spec.as_ref().unwrap();
            for (route, ans) in routes.iter().zip(parts.iter()) {
                ctx.count("kind:pow-route");
                ctx.count(&format!("form:pow-route:{route}"));
                if ans != spec {
                    ctx.spec_fail(format!("{} written as `{route}`: implementation `{ans}`, host powf `{spec}` (other routes: {imp})\n--- program\n{}", j.what, j.src));
                }
                ctx.case(format!("{base_req} #{route}"), ans.clone());
            }
            continue;
        }
        ctx.count(&format!("kind:{}", j.kind));
        ctx.count(&format!("form:{}:{}", j.kind, j.form));
        let class = if imp.starts_with("err") { imp.replace(' ', "_") } else if imp.contains("nan") { "nan".into() } else if imp.starts_with("other") { "other".into() } else { "value".into() };
        ctx.count(&format!("result:{}:{class}", j.kind));
        if let Some(spec) = &j.spec {
            if spec != imp {
                ctx.spec_fail(format!("{} [{} form {}]: implementation `{imp}`, specification `{spec}`\n--- program\n{}", j.what, j.kind, j.form, j.src));
            }
        }
        if j.kind == "cmp" && imp.starts_with("lt=") {
            let v: Vec<bool> = imp.split(' ').map(|f| f.ends_with('1')).collect();
            let (lt, le, gt, ge, eq, ne) = (v[0], v[1], v[2], v[3], v[4], v[5]);
            let ones = [lt, eq, gt].iter().filter(|x| **x).count();
            if ones != 1 || le != !gt || ge != !lt || ne == eq || le != (lt || eq) || ge != (gt || eq) {
                ctx.spec_fail(format!("{}: comparison answers are not those of one total order: `{imp}`", j.what));
            }
        }
        if j.kind == "fromint" {
            let n: i64 = j.req.split(' ').nth(2).unwrap().parse().unwrap();
            match u64::from_str_radix(imp, 16) {
                Ok(r) if spec_from_int_ok(n, r) => {
                    ctx.count(if (n as i128).abs() <= 1 << 53 { "fromint:exact" } else { "fromint:rounded" });
                }
                _ => ctx.spec_fail(format!("{}: implementation `{imp}` is not the nearest binary64 (ties to even)", j.what)),
            }
        }
        ctx.case(j.req.clone(), imp.clone());
    }
    ctx.finish();
}
