//! ad-hoc probe (bG10 scratch): check / compile_bytecode / check_lsp on a file, each in a big-stack thread
fn main() {
    let path = std::env::args().nth(1).unwrap();
    let src = std::fs::read_to_string(path).unwrap();
    for which in ["check", "compile", "check_lsp", "errors"] {
        let s = src.clone();
        let h = std::thread::Builder::new().stack_size(64 << 20).spawn(move || {
            let r = std::panic::catch_unwind(|| match which {
                "check" => format!("{:?}", abra_core::check("main.abra", vh::provider(&s, &[])).map_err(|e| e.to_string().len())),
                "compile" => format!("{:?}", abra_core::compile_bytecode("main.abra", vh::provider(&s, &[])).map(|_| ()).map_err(|e| e.to_string().len())),
                "check_lsp" => { let _a = abra_core::check_lsp("main.abra", vh::provider(&s, &[])); "returned".to_string() }
                _ => { let a = abra_core::check_lsp("main.abra", vh::provider(&s, &[])); format!("{} errors", a.errors().len()) }
            });
            println!("{which}: {}", match r { Ok(s) => s, Err(p) => format!("PANIC {}", vh::panic_msg(p)) });
        }).unwrap();
        let _ = h.join();
    }
}
