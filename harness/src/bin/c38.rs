//! C38 correspondence: seeded allocation histories on the real `utils::arena::Arena`.
//!
//! For every allocation the harness records the real address, the buffer list and the offset
//! (hook `Arena::verif_layout`), hands the model the base addresses the real allocator returned and
//! compares the (buffer, start) the code chose with the Lean model `Abra.Arena`.  Independently of
//! the model it checks the property's own statement on the real addresses (`spec_fail`):
//! alignment of the absolute address, in-bounds of an owned buffer, pairwise non-overlap, buffers
//! never moved/dropped/shrunk, and (stability) every value still reads back what was written after
//! the whole history.
//!
//! The histories run in a child process (this binary re-executed with `--child`): a write outside a
//! buffer corrupts the heap, so the child reports the failing input *before* going on and exits;
//! the parent records it and restarts a child for the remaining cases.
use std::alloc::{GlobalAlloc, Layout, System};
use std::io::{BufRead, Write};
use std::mem::{align_of, size_of};
use std::sync::atomic::{AtomicUsize, Ordering};
use utils::arena::Arena;
use vh::*;

// ---------------------------------------------------------------- an allocator that uses its freedom
/// The arena's buffers are `Box<[MaybeUninit<u8>]>`: layout alignment 1, so the global allocator may
/// return *any* address.  glibc happens to return multiples of 16, which hides alignment defects; this
/// allocator (legal: it honours every layout) places alignment-1 blocks at every residue mod 64 in
/// turn, so "for every base address" is exercised on the real code and not only under Miri.
struct Skew;
static SKEW_CTR: AtomicUsize = AtomicUsize::new(0);
unsafe impl GlobalAlloc for Skew {
    unsafe fn alloc(&self, l: Layout) -> *mut u8 {
        unsafe {
            if l.align() == 1 && l.size() > 0 {
                let k = (SKEW_CTR.fetch_add(1, Ordering::Relaxed) * 37 + 1) % 64;
                let base = System.alloc(Layout::from_size_align_unchecked(l.size() + 128, 64));
                if base.is_null() {
                    return base;
                }
                let p = base.add(64 + k);
                *p.sub(1) = k as u8;
                p
            } else {
                System.alloc(l)
            }
        }
    }
    unsafe fn dealloc(&self, p: *mut u8, l: Layout) {
        unsafe {
            if l.align() == 1 && l.size() > 0 {
                let k = *p.sub(1) as usize;
                System.dealloc(p.sub(64 + k), Layout::from_size_align_unchecked(l.size() + 128, 64));
            } else {
                System.dealloc(p, l)
            }
        }
    }
}
#[global_allocator]
static GLOBAL: Skew = Skew;

// ---------------------------------------------------------------- value kinds
trait Pat: PartialEq {
    fn pat(seed: u64) -> Self;
}
fn byte(seed: u64, i: usize) -> u8 {
    let mut r = Rng::new(seed.wrapping_add(i as u64 / 8));
    (r.next() >> ((i % 8) * 8)) as u8
}
macro_rules! int_pat {
    ($($t:ty),*) => {$(impl Pat for $t { fn pat(seed: u64) -> Self { let mut r = Rng::new(seed); ((r.next() as u128) << 64 | r.next() as u128) as $t } })*};
}
int_pat!(u8, u16, u32, u64, u128);
impl Pat for () {
    fn pat(_: u64) -> Self {}
}
impl<const N: usize> Pat for [u8; N] {
    fn pat(seed: u64) -> Self {
        let mut a = [0u8; N];
        for (i, b) in a.iter_mut().enumerate() {
            *b = byte(seed, i);
        }
        a
    }
}
#[derive(PartialEq)]
#[repr(align(16))]
struct A16<const N: usize>([u8; N]);
#[derive(PartialEq)]
#[repr(align(32))]
struct A32<const N: usize>([u8; N]);
#[derive(PartialEq)]
#[repr(align(64))]
struct A64<const N: usize>([u8; N]);
#[derive(PartialEq)]
#[repr(align(16))]
struct Z16;
#[derive(PartialEq)]
#[repr(C)]
struct Mixed(u8, u64, u16);
impl<const N: usize> Pat for A16<N> {
    fn pat(seed: u64) -> Self {
        A16(<[u8; N]>::pat(seed))
    }
}
impl<const N: usize> Pat for A32<N> {
    fn pat(seed: u64) -> Self {
        A32(<[u8; N]>::pat(seed))
    }
}
impl<const N: usize> Pat for A64<N> {
    fn pat(seed: u64) -> Self {
        A64(<[u8; N]>::pat(seed))
    }
}
impl Pat for Z16 {
    fn pat(_: u64) -> Self {
        Z16
    }
}
impl Pat for Mixed {
    fn pat(seed: u64) -> Self {
        Mixed(u8::pat(seed), u64::pat(seed + 1), u16::pat(seed + 2))
    }
}

type Held<'a> = Vec<Box<dyn Fn() -> bool + 'a>>;

/// allocate a pattern value of type T in the real arena; returns (address, size, align)
fn place<'a, T: Pat + 'a>(arena: &'a Arena, seed: u64, held: &mut Held<'a>) -> (usize, usize, usize) {
    let r = arena.alloc(T::pat(seed));
    let addr = &*r as *const T as usize;
    let expect = T::pat(seed);
    held.push(Box::new(move || *r == expect));
    (addr, size_of::<T>(), align_of::<T>())
}

macro_rules! kinds {
    ($(($i:expr, $name:expr, $t:ty)),* $(,)?) => {
        const NKINDS: usize = [$($i),*].len();
        fn kind_info(k: usize) -> (&'static str, usize, usize) {
            match k { $($i => ($name, size_of::<$t>(), align_of::<$t>()),)* _ => unreachable!() }
        }
        fn place_kind<'a>(k: usize, arena: &'a Arena, seed: u64, held: &mut Held<'a>) -> (usize, usize, usize) {
            match k { $($i => place::<$t>(arena, seed, held),)* _ => unreachable!() }
        }
    };
}
kinds!(
    (0, "u8", u8),
    (1, "u16", u16),
    (2, "u32", u32),
    (3, "u64", u64),
    (4, "u128", u128),
    (5, "unit", ()),
    (6, "b1", [u8; 1]),
    (7, "b3", [u8; 3]),
    (8, "b7", [u8; 7]),
    (9, "b13", [u8; 13]),
    (10, "b64", [u8; 64]),
    (11, "b100", [u8; 100]),
    (12, "b1000", [u8; 1000]),
    (13, "b5000", [u8; 5000]),
    (14, "a16x16", A16<16>),
    (15, "a16x40", A16<40>),
    (16, "a32x32", A32<32>),
    (17, "a32x1", A32<1>),
    (18, "a64x64", A64<64>),
    (19, "a64x200", A64<200>),
    (20, "z16", Z16),
    (21, "mixed", Mixed),
    (22, "b0", [u8; 0]),
    (23, "b20000", [u8; 20000]),
);

const SMALL: &[usize] = &[0, 1, 2, 3, 4, 5, 6, 7, 8, 9, 21, 22];
const ALIGNED: &[usize] = &[3, 4, 14, 15, 16, 17, 18, 19, 20, 0, 6];
const BIG: &[usize] = &[10, 11, 12, 13, 19, 23, 0, 3];

struct Case {
    idx: usize,
    cap: usize,
    ops: Vec<(usize, u64)>,
}

fn gen_case(rng: &mut Rng, idx: usize) -> Case {
    let caps = [0usize, 0, 1, 3, 7, 8, 9, 16, 24, 31, 64, 100, 255, 256, 1024, 4096, 6000];
    let cap = *rng.pick(&caps);
    let profile = rng.below(5);
    let n = 1 + rng.below(60) as usize;
    let mut ops = vec![];
    for _ in 0..n {
        let k = match profile {
            0 => *rng.pick(SMALL),
            1 => *rng.pick(ALIGNED),
            2 => *rng.pick(BIG),
            3 => {
                if rng.chance(1, 6) {
                    *rng.pick(BIG)
                } else {
                    *rng.pick(SMALL)
                }
            }
            _ => rng.below(NKINDS as u64) as usize,
        };
        ops.push((k, rng.next()));
    }
    Case { idx, cap, ops }
}

/// the histories that fail on the unrepaired code (D14), always run first
fn regression_cases() -> Vec<Case> {
    vec![
        // first u64 in an empty arena: the buffer has alignment 1
        Case { idx: 0, cap: 0, ops: vec![(3, 1)] },
        // with_capacity(8), a u64, then a 16-byte value: the offset must restart in the new buffer
        Case { idx: 1, cap: 8, ops: vec![(3, 1), (14, 2)] },
        Case { idx: 2, cap: 8, ops: vec![(3, 1), (4, 2), (0, 3), (13, 4), (0, 5), (19, 6)] },
        Case { idx: 3, cap: 1, ops: vec![(0, 1), (0, 2), (1, 3), (5, 4), (20, 5), (18, 6), (0, 7)] },
    ]
}

// ---------------------------------------------------------------- child: run histories on the real arena
fn child() {
    let stdin = std::io::stdin();
    let out = std::io::stdout();
    for line in stdin.lock().lines() {
        let line = line.unwrap();
        let mut it = line.split_whitespace();
        let idx: usize = it.next().unwrap().parse().unwrap();
        let cap: usize = it.next().unwrap().parse().unwrap();
        let ops: Vec<(usize, u64)> = it
            .map(|w| {
                let (k, s) = w.split_once(':').unwrap();
                (k.parse().unwrap(), s.parse().unwrap())
            })
            .collect();
        let mut o = out.lock();
        writeln!(o, "B {idx}").unwrap();
        o.flush().unwrap();
        let fatal = run_case(idx, cap, &ops, &mut o);
        writeln!(o, "E {idx}").unwrap();
        o.flush().unwrap();
        if fatal {
            std::process::exit(3);
        }
    }
}

/// returns true when the history wrote outside a buffer (the heap can no longer be trusted)
fn run_case(idx: usize, cap: usize, ops: &[(usize, u64)], o: &mut impl Write) -> bool {
    // a zero-capacity arena is built through each of its three constructors in turn
    let arena = match (cap, idx % 3) {
        (0, 1) => {
            writeln!(o, "H constructor:new()").unwrap();
            Arena::new()
        }
        (0, 2) => {
            writeln!(o, "H constructor:default()").unwrap();
            Arena::default()
        }
        _ => {
            writeln!(o, "H constructor:with_capacity").unwrap();
            Arena::with_capacity(cap)
        }
    };
    let mut held: Held = vec![];
    let (bufs0, off0) = arena.verif_layout();
    let descr = |upto: usize| -> String {
        let names: Vec<String> = ops[..upto].iter().map(|(k, _)| kind_info(*k).0.to_string()).collect();
        format!("Arena::with_capacity({cap}); alloc of [{}]", names.join(", "))
    };
    if bufs0.len() != 1 || bufs0[0].1 != cap || off0 != 0 {
        writeln!(o, "F {idx}\twith_capacity({cap}) gives buffers {bufs0:?} offset {off0}").unwrap();
    }
    let mut req = format!("arena {} {}", bufs0[0].0, cap);
    let mut imp = String::new();
    let mut prev_bufs = bufs0.clone();
    let mut prev_off = off0;
    let mut placed: Vec<(usize, usize)> = vec![]; // (addr, size) of every value so far
    let mut fatal = false;
    let mut last = (prev_bufs.len(), prev_off, cap);
    for (i, &(k, seed)) in ops.iter().enumerate() {
        let (addr, size, align) = place_kind(k, &arena, seed, &mut held);
        let (bufs, off) = arena.verif_layout();
        let (cb, cl) = *bufs.last().unwrap();
        let switched = bufs.len() != prev_bufs.len();
        // --- the property's own statement, on the real addresses
        if addr % align != 0 {
            writeln!(o, "F {idx}\t{}: value #{i} ({}, align {align}) placed at address {addr:#x}, not a multiple of {align} (buffer base {cb:#x})", descr(i + 1), kind_info(k).0).unwrap();
        }
        let inside = bufs.iter().any(|&(b, l)| addr >= b && addr + size <= b + l);
        if !inside {
            writeln!(o, "F {idx}\t{}: value #{i} ({}, {size} bytes) written to [{:#x}, {:#x}) which is outside every buffer of the arena {:x?} (current buffer: base {cb:#x}, len {cl}, write at offset {}..{})", descr(i + 1), kind_info(k).0, addr, addr + size, bufs, addr as i128 - cb as i128, addr as i128 - cb as i128 + size as i128).unwrap();
            fatal = true;
        }
        if size > 0 {
            for (j, &(a2, s2)) in placed.iter().enumerate() {
                if s2 > 0 && addr < a2 + s2 && a2 < addr + size {
                    writeln!(o, "F {idx}\t{}: value #{i} [{:#x}, {:#x}) overlaps value #{j} [{:#x}, {:#x})", descr(i + 1), addr, addr + size, a2, a2 + s2).unwrap();
                }
            }
        }
        if bufs.len() < prev_bufs.len() || bufs[..prev_bufs.len()] != prev_bufs[..] {
            writeln!(o, "F {idx}\t{}: after value #{i} the earlier buffers changed: {:x?} -> {:x?}", descr(i + 1), prev_bufs, bufs).unwrap();
        }
        placed.push((addr, size));
        // --- correspondence record
        let start = addr as i128 - cb as i128;
        req.push_str(&format!(" {size} {align} {cb}"));
        imp.push_str(&format!("{}:{} ", bufs.len() - 1, start));
        // histogram
        let pad_addr = if switched { cb } else { cb + prev_off };
        let pad = (align - pad_addr % align) % align;
        writeln!(o, "H {}", if switched { "switch" } else { "same-buffer" }).unwrap();
        writeln!(o, "H {}", if pad == 0 { "pad=0" } else { "pad>0" }).unwrap();
        if switched {
            let pl = prev_bufs.last().unwrap().1;
            writeln!(o, "H {}", if cl > 2 * pl { "switch:sized-by-value" } else { "switch:doubled" }).unwrap();
            if prev_off == 0 {
                writeln!(o, "H switch:previous-buffer-unused").unwrap();
            }
        }
        if size == 0 {
            writeln!(o, "H zero-size").unwrap();
        }
        if align >= 16 {
            writeln!(o, "H align>=16").unwrap();
        }
        if size > 2 * prev_bufs.last().unwrap().1 {
            writeln!(o, "H size>2*len").unwrap();
        }
        prev_bufs = bufs;
        prev_off = off;
        last = (prev_bufs.len(), off, cl);
        if fatal {
            break;
        }
    }
    if !fatal {
        // stability: every value still reads back what was written
        for (i, h) in held.iter().enumerate() {
            if !h() {
                writeln!(o, "F {idx}\t{}: value #{i} no longer reads back what was stored", descr(ops.len())).unwrap();
            }
        }
    }
    writeln!(o, "C {idx}\t{req} #case{idx}\t{imp}| {} {} {}", last.0, last.1, last.2).unwrap();
    std::mem::forget(held);
    if fatal {
        std::mem::forget(arena);
    }
    fatal
}

// ---------------------------------------------------------------- parent
fn case_line(c: &Case) -> String {
    let ops: Vec<String> = c.ops.iter().map(|(k, s)| format!("{k}:{s}")).collect();
    format!("{} {} {}", c.idx, c.cap, ops.join(" "))
}

fn describe(c: &Case) -> String {
    let names: Vec<&str> = c.ops.iter().map(|(k, _)| kind_info(*k).0).collect();
    format!("Arena::with_capacity({}); alloc of [{}]", c.cap, names.join(", "))
}

fn main() {
    if std::env::args().nth(1).as_deref() == Some("--child") {
        child();
        return;
    }
    let mut ctx = Ctx::from_env("C38");
    let n = if ctx.quick() { 600 } else { 20000 };
    let mut cases = regression_cases();
    for i in 0..n {
        let idx = cases.len();
        let _ = i;
        cases.push(gen_case(&mut ctx.rng, idx));
    }
    let exe = std::env::current_exe().unwrap();
    let mut next = 0usize;
    let mut aborted = 0usize;
    while next < cases.len() {
        let input: String = cases[next..].iter().map(|c| case_line(c) + "\n").collect();
        let mut ch = std::process::Command::new(&exe)
            .arg("--child")
            .stdin(std::process::Stdio::piped())
            .stdout(std::process::Stdio::piped())
            .stderr(std::process::Stdio::piped())
            .spawn()
            .expect("spawn child");
        let mut stdin = ch.stdin.take().unwrap();
        let writer = std::thread::spawn(move || {
            let _ = stdin.write_all(input.as_bytes());
        });
        let outp = ch.wait_with_output().unwrap();
        let _ = writer.join();
        let text = String::from_utf8_lossy(&outp.stdout).to_string();
        let mut begun: Option<usize> = None;
        let mut ended: Option<usize> = None;
        for l in text.lines() {
            if let Some(r) = l.strip_prefix("B ") {
                begun = r.trim().parse().ok();
            } else if let Some(r) = l.strip_prefix("E ") {
                ended = r.trim().parse().ok();
            } else if let Some(r) = l.strip_prefix("H ") {
                ctx.count(r.trim());
            } else if let Some(r) = l.strip_prefix("F ") {
                if ctx.spec_failures.len() < 200 {
                    ctx.spec_fail(r.split_once('\t').map(|x| x.1).unwrap_or(r).to_string());
                }
                ctx.count("spec-failures");
            } else if let Some(r) = l.strip_prefix("C ") {
                let mut p = r.splitn(3, '\t');
                let _idx = p.next();
                if let (Some(req), Some(imp)) = (p.next(), p.next()) {
                    ctx.case(req.to_string(), imp.trim_end().to_string());
                }
            }
        }
        match (begun, ended) {
            (Some(b), Some(e)) if b == e => next = b + 1,
            (Some(b), _) => {
                // the child died inside case b
                aborted += 1;
                let err = String::from_utf8_lossy(&outp.stderr);
                let why: Vec<&str> = err.lines().filter(|l| !l.trim().is_empty() && !l.starts_with("note:")).take(3).collect();
                if ctx.spec_failures.len() < 200 {
                    ctx.spec_fail(format!(
                        "{}: the process running this history died ({}) — {}",
                        describe(&cases[b]),
                        outp.status,
                        if why.is_empty() { "memory corruption in the arena".to_string() } else { why.join(" / ") }
                    ));
                }
                next = b + 1;
                if aborted >= 25 {
                    ctx.notes.push(format!("stopped after {aborted} histories killed the process; {} histories not run", cases.len() - next));
                    break;
                }
            }
            (None, _) => {
                ctx.spec_fail(format!("child produced no output: {:?}", outp.status));
                break;
            }
        }
        if outp.status.success() {
            break;
        }
    }
    if aborted > 0 {
        ctx.notes.push(format!("{aborted} child processes died inside a history"));
    }
    // thorough tier: the same kind of histories under Miri, the implementation-side UB oracle
    if !ctx.quick() {
        miri_stage(&mut ctx);
    }
    ctx.finish();
}

/// Run the Miri driver crate (`/verif/harness/miri_utils`) if a Miri toolchain is usable offline.
fn miri_stage(ctx: &mut Ctx) {
    let Some(dir) = miri_crate_dir() else {
        ctx.notes.push("miri stage: driver crate missing".into());
        return;
    };
    let seed = ctx.rng.next() >> 1;
    let out = std::process::Command::new("cargo")
        .args(["+nightly", "miri", "run", "--offline", "--quiet", "--bin", "arena_miri"])
        .current_dir(&dir)
        .env("MIRIFLAGS", "-Zmiri-tree-borrows -Zmiri-disable-isolation")
        .env("VERIF_MIRI_SEED", seed.to_string())
        .env("VERIF_MIRI_CASES", "40")
        .env_remove("RUSTFLAGS")
        .output();
    match out {
        Err(e) => ctx.notes.push(format!("miri stage skipped: {e}")),
        Ok(o) => {
            let text = format!("{}{}", String::from_utf8_lossy(&o.stdout), String::from_utf8_lossy(&o.stderr));
            if o.status.success() {
                ctx.count("miri-histories-clean");
                ctx.notes.push(format!("miri: {}", text.lines().find(|l| l.contains("_miri:")).unwrap_or("")));
            } else if text.contains("Undefined Behavior") {
                let hist = text.lines().filter(|l| l.starts_with("HISTORY")).last().unwrap_or("");
                let ub = text.lines().find(|l| l.contains("Undefined Behavior")).unwrap_or("");
                ctx.spec_fail(format!("Miri reports undefined behaviour in Arena (VERIF_MIRI_SEED={seed}): {hist} => {ub}"));
            } else {
                ctx.notes.push(format!("miri stage did not run: {}", text.lines().rev().take(3).collect::<Vec<_>>().join(" | ")));
            }
        }
    }
}

/// The Miri driver crate lives next to this crate's sources; against a scratch copy of the repository
/// (VERIF_REPO) a copy whose path dependency points at that copy is written next to the alternate harness.
fn miri_crate_dir() -> Option<std::path::PathBuf> {
    let manifest = std::path::Path::new(env!("CARGO_MANIFEST_DIR"));
    let src = std::fs::canonicalize(manifest.join("src")).ok()?;
    let real = src.parent()?.join("miri_utils");
    if !real.exists() {
        return None;
    }
    let repo = std::env::var("VERIF_REPO").unwrap_or_else(|_| "/repo".into());
    let repo = repo.trim_end_matches('/').to_string();
    let dir = if repo == "/repo" {
        real
    } else {
        let alt = manifest.join("miri_utils");
        std::fs::create_dir_all(alt.join("src/bin")).ok()?;
        for f in ["Cargo.toml", "src/lib.rs", "src/bin/arena_miri.rs", "src/bin/idset_miri.rs"] {
            let text = std::fs::read_to_string(real.join(f)).ok()?.replace("/repo/", &format!("{repo}/"));
            std::fs::write(alt.join(f), text).ok()?;
        }
        alt
    };
    let _ = std::fs::copy(format!("{repo}/Cargo.lock"), dir.join("Cargo.lock"));
    Some(dir)
}
