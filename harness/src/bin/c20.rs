//! C20 correspondence: the assignment decision table on real programs.
//!
//! Every binding form (let, var, destructured let/var, for variable, match binding incl. a variant
//! payload, function parameter, lambda parameter, array element incl. nested, struct field incl.
//! nested, a function name) × every assignment operator (=, +=, -=, *=, /=, %=) × three contexts
//! (top level, function body, lambda body) × operand pairs (ordinary, overflowing, zero divisor,
//! floats) is compiled and run by the real front end and VM.  Accepted ⇒ the program prints the
//! variable/element/field afterwards, so the effect of the store is observed; rejected ⇒ the kind
//! of diagnostic is recorded; a panic anywhere is recorded as a crash.
//! * vs the Lean model (`assign …`): same decision and same stored value.
//! * vs the property itself (`spec_fail`): `let` (and captured) ⇒ diagnostic; `var`, element, field ⇒
//!   accepted with the exact value (i128 reference arithmetic); any other form ⇒ accepted with the
//!   plain effect or a diagnostic; never a crash.
//! Assignment to a captured variable (from a lambda, a nested lambda or a task; D20, repaired in
//! fdfd074) is part of the main stream: every such form must be rejected with a diagnostic, while
//! elements / fields of captured objects and a lambda's own locals stay assignable.
use vh::*;

const OPS: [(&str, &str); 6] = [("eq", "="), ("add", "+="), ("sub", "-="), ("mul", "*="), ("div", "/="), ("mod", "%=")];

#[derive(Clone)]
struct Form {
    tag: &'static str,
    /// model target word
    target: &'static str,
    captured: bool,
    /// top-level items the body needs
    decls: &'static str,
    /// statements; {OLD} {OP} {RHS} are substituted; must print the assigned location last
    body: &'static str,
    /// the body contains its own function/lambda and must stay at top level
    top_only: bool,
    /// the assignment runs inside a task: operand pairs that end in a runtime error are left out
    no_err: bool,
    /// `assignat` request: (statements in the Names grammar, id:kind:captured list) — the Names model
    /// decides which declaration the target means
    at: Option<(&'static str, &'static str)>,
}

fn forms() -> Vec<Form> {
    let f = |tag, target, captured, decls, body, top_only| Form { tag, target, captured, decls, body, top_only, no_err: false, at: None };
    vec![
        f("let", "let", false, "", "let x = {OLD}\nx {OP} {RHS}\nprintln(x)\n", false),
        f("var", "var", false, "", "var x = {OLD}\nx {OP} {RHS}\nprintln(x)\n", false),
        f("let-tuple", "let", false, "", "let (x, y) = ({OLD}, 1)\nx {OP} {RHS}\nprintln(x)\n", false),
        f("var-tuple", "var", false, "", "var (y, x) = (1, {OLD})\nx {OP} {RHS}\nprintln(x)\n", false),
        // let / var patterns with variant, named-variant, struct and or sub-patterns (record_pat_mutability)
        f("let-variant", "let", false, "type Wo = | Only({TY})\n", "let (Wo.Only(x), y) = (Wo.Only({OLD}), 1)\nx {OP} {RHS}\nprintln(x)\n", false),
        f("var-variant", "var", false, "type Wo = | Only({TY})\n", "var (Wo.Only(x), y) = (Wo.Only({OLD}), 1)\nx {OP} {RHS}\nprintln(x)\n", false),
        f("let-variant-named", "let", false, "type Tw = | Aa(p: {TY}, q: int)\n", "let (Tw.Aa(p = x, q = y), z) = (Tw.Aa(p = {OLD}, q = 2), 1)\nx {OP} {RHS}\nprintln(x)\n", false),
        f("var-variant-named", "var", false, "type Tw = | Aa(p: {TY}, q: int)\n", "var (Tw.Aa(p = x, q = y), z) = (Tw.Aa(p = {OLD}, q = 2), 1)\nx {OP} {RHS}\nprintln(x)\n", false),
        f("let-struct", "let", false, "type Pq = { v: {TY}, w: int }\n", "let Pq(v = x, w = _) = Pq({OLD}, 1)\nx {OP} {RHS}\nprintln(x)\n", false),
        f("var-struct", "var", false, "type Pq = { v: {TY}, w: int }\n", "var Pq(x, _) = Pq({OLD}, 1)\nx {OP} {RHS}\nprintln(x)\n", false),
        // un-annotated or-patterns (D97 f04535c, D103 ae0a5b4: bound through the matching alternative)
        f("let-or-pattern-plain", "let", false, "", "let ((x, _) | (_, x)) = ({OLD}, {OLD})\nx {OP} {RHS}\nprintln(x)\n", false),
        f("var-or-pattern-plain", "var", false, "", "var ((x, _) | (_, x)) = ({OLD}, {OLD})\nx {OP} {RHS}\nprintln(x)\n", false),
        f("var-or-pattern-variant", "var", false, "type Ab = | Pa({TY}) | Pb({TY})\n", "var (Ab.Pa(x) | Ab.Pb(x)) = Ab.Pb({OLD})\nx {OP} {RHS}\nprintln(x)\n", false),
        f("for-or-pattern", "for", false, "type Ab = | Pa({TY}) | Pb({TY})\n", "for (Ab.Pa(x) | Ab.Pb(x)) in [Ab.Pb({OLD})] {\n  x {OP} {RHS}\n  println(x)\n}\n", false),
        f("let-or-pattern", "let", false, "", "let ((x, _) | (_, x)): ({TY}, {TY}) = ({OLD}, {OLD})\nx {OP} {RHS}\nprintln(x)\n", false),
        f("var-or-pattern", "var", false, "", "var ((x, _) | (_, x)): ({TY}, {TY}) = ({OLD}, {OLD})\nx {OP} {RHS}\nprintln(x)\n", false),
        f("for", "for", false, "", "for x in [{OLD}] {\n  x {OP} {RHS}\n  println(x)\n}\n", false),
        f("for-tuple", "for", false, "", "for (x, y) in [({OLD}, 1)] {\n  x {OP} {RHS}\n  println(x)\n}\n", false),
        f("match", "match", false, "", "match {OLD} {\n  x -> {\n    x {OP} {RHS}\n    println(x)\n  }\n}\n", false),
        f(
            "match-variant",
            "match",
            false,
            "type Wr = | Full(int) | Empty\n",
            "let w = Wr.Full({OLD})\nmatch w {\n  .Full(x) -> {\n    x {OP} {RHS}\n    println(x)\n  }\n  .Empty -> println(0)\n}\n",
            false,
        ),
        f("param", "param", false, "fn fp(x: {TY}) {\n  x {OP} {RHS}\n  println(x)\n}\n", "fp({OLD})\n", false),
        f("lamparam", "lamparam", false, "", "let fl = (x: {TY}) -> {\n  x {OP} {RHS}\n  println(x)\n}\nfl({OLD})\n", false),
        f("elem", "elem", false, "", "let a = [{OLD}, {OLD}]\na[1] {OP} {RHS}\nprintln(a[1])\n", false),
        f("elem-var", "elem", false, "", "var a = [{OLD}]\na[0] {OP} {RHS}\nprintln(a[0])\n", false),
        f("elem-nested", "elem", false, "", "let a = [[{OLD}], [{OLD}]]\na[1][0] {OP} {RHS}\nprintln(a[1][0])\n", false),
        f("field", "field", false, "type Bx = { v: {TY} }\n", "let b = Bx({OLD})\nb.v {OP} {RHS}\nprintln(b.v)\n", false),
        f(
            "field-nested",
            "field",
            false,
            "type Bx = { v: {TY} }\ntype Ox = { b: Bx }\n",
            "let o = Ox(Bx({OLD}))\no.b.v {OP} {RHS}\nprintln(o.b.v)\n",
            false,
        ),
        f("field-of-elem", "field", false, "type Bx = { v: {TY} }\n", "let a = [Bx({OLD})]\na[0].v {OP} {RHS}\nprintln(a[0].v)\n", false),
        f("nonvar", "nonvar", false, "fn gq() { 1 }\n", "gq {OP} {RHS}\n", false),
        // a let captured by a lambda and assigned inside it: still a plain `let`
        f("captured-let", "let", true, "", "let x = {OLD}\nlet fc = () -> {\n  x {OP} {RHS}\n}\nfc()\nprintln(x)\n", true),
        f("captured-for", "for", true, "", "for x in [{OLD}] {\n  let fc = () -> {\n    x {OP} {RHS}\n  }\n  fc()\n  println(x)\n}\n", true),
        f(
            "captured-match",
            "match",
            true,
            "",
            "match {OLD} {\n  x -> {\n    let fc = () -> {\n      x {OP} {RHS}\n    }\n    fc()\n    println(x)\n  }\n}\n",
            true,
        ),
        f("captured-var", "var", true, "", "var x = {OLD}\nlet fc = () -> {\n  x {OP} {RHS}\n}\nfc()\nprintln(x)\n", true),
        f("captured-var-tuple", "var", true, "", "var (x, y) = ({OLD}, 1)\nlet fc = () -> {\n  x {OP} {RHS}\n}\nfc()\nprintln(x)\n", true),
        f(
            "captured-param",
            "param",
            true,
            "fn hp(x: {TY}) {\n  let fc = () -> {\n    x {OP} {RHS}\n  }\n  fc()\n  println(x)\n}\n",
            "hp({OLD})\n",
            true,
        ),
        f(
            "captured-lamparam",
            "lamparam",
            true,
            "",
            "let hl = (x: {TY}) -> {\n  let fc = () -> {\n    x {OP} {RHS}\n  }\n  fc()\n  println(x)\n}\nhl({OLD})\n",
            true,
        ),
        f("captured-var-nested", "var", true, "", "var x = {OLD}\nlet fo = () -> {\n  let fi = () -> {\n    x {OP} {RHS}\n  }\n  fi()\n}\nfo()\nprintln(x)\n", true),
        f("captured-var-inner", "var", true, "", "let fo = () -> {\n  var x = {OLD}\n  let fi = () -> {\n    x {OP} {RHS}\n  }\n  fi()\n  println(x)\n}\nfo()\n", true),
        f("captured-var-task", "var", true, "", "var x = {OLD}\ntask {\n  x {OP} {RHS}\n}\nprintln(x)\n", true),
        f("captured-param-task", "param", true, "fn ht(x: {TY}) {\n  task {\n    x {OP} {RHS}\n  }\n  println(x)\n}\n", "ht({OLD})\n", true),
        f("captured-let-task", "let", true, "", "let x = {OLD}\ntask {\n  x {OP} {RHS}\n}\nprintln(x)\n", true),
        // not captured: the lambda's own local, also when declared inside a nested lambda
        f("own-var-in-nested-lambda", "var", false, "", "let fo = () -> {\n  let fi = () -> {\n    var x = {OLD}\n    x {OP} {RHS}\n    println(x)\n  }\n  fi()\n}\nfo()\n", true),
        // elements / fields of captured objects stay assignable (the object is shared)
        f("elem-of-captured", "elem", false, "", "let a = [{OLD}]\nlet fc = () -> {\n  a[0] {OP} {RHS}\n}\nfc()\nprintln(a[0])\n", true),
        f("field-of-captured", "field", false, "type Bx = { v: {TY} }\n", "let b = Bx({OLD})\nlet fc = () -> {\n  b.v {OP} {RHS}\n}\nfc()\nprintln(b.v)\n", true),
    ]
}

/// Element / field assignments inside a lambda, a nested lambda or a task whose target
/// sub-expressions (array expression, index, nested index, `s.f[i]`, `a[i].f`) or right-hand side
/// mention an outer binding (let, var, for variable, function parameter, match binding) that occurs
/// NOWHERE ELSE in the lambda / task: the capture analysis must still find it.  All are accepted and
/// the effect is read back afterwards (through the shared object; from inside the task via a channel).
fn capture_only_forms() -> Vec<Form> {
    // (tag, type decls, setup, variable name, variable value, variable type, assignment, read-back, target)
    let positions: Vec<(&str, &str, &str, &str, &str, &str, &str, &str, &'static str)> = vec![
        ("index", "", "let a = [{OLD}, {OLD}]", "i", "1", "int", "a[i] {OP} {RHS}", "a[1]", "elem"),
        ("index-inner", "", "let a = [[{OLD}], [{OLD}, {OLD}]]", "i", "1", "int", "a[1][i] {OP} {RHS}", "a[1][1]", "elem"),
        ("index-outer", "", "let a = [[{OLD}], [{OLD}, {OLD}]]", "i", "1", "int", "a[i][1] {OP} {RHS}", "a[1][1]", "elem"),
        ("field-array-index", "type Hx = { f: array<{TY}> }\n", "let s = Hx([{OLD}, {OLD}])", "i", "1", "int", "s.f[i] {OP} {RHS}", "s.f[1]", "elem"),
        ("elem-field-index", "type Bx = { v: {TY} }\n", "let a = [Bx({OLD}), Bx({OLD})]", "i", "1", "int", "a[i].v {OP} {RHS}", "a[1].v", "field"),
        ("rhs-of-elem", "", "let a = [{OLD}, {OLD}]", "r", "{RHS}", "{TY}", "a[1] {OP} r", "a[1]", "elem"),
        ("rhs-of-field", "type Bx = { v: {TY} }\n", "let b = Bx({OLD})", "r", "{RHS}", "{TY}", "b.v {OP} r", "b.v", "field"),
        ("array-expr", "", "", "a", "[{OLD}, {OLD}]", "array<{TY}>", "a[1] {OP} {RHS}", "a[1]", "elem"),
        ("struct-expr", "type Bx = { v: {TY} }\n", "", "b", "Bx({OLD})", "Bx", "b.v {OP} {RHS}", "b.v", "field"),
    ];
    let mut out = vec![];
    for (ptag, tdecls, setup, var, val, vty, assign, read, target) in positions {
        for runner in ["lambda", "nested-lambda", "task"] {
            if runner == "task" && (ptag == "array-expr" || ptag == "struct-expr") {
                continue; // the read-back inside the task would mention the variable a second time
            }
            let run = match runner {
                "lambda" => format!("let fc = () -> {{\n  {assign}\n}}\nfc()\nprintln({read})\n"),
                "nested-lambda" => format!("let fo = () -> {{\n  let fi = () -> {{\n    {assign}\n  }}\n  fi()\n}}\nfo()\nprintln({read})\n"),
                _ => format!("let ch: channel<{{TY}}> = channel()\ntask {{\n  {assign}\n  ch.write({read})\n}}\nprintln(ch.read())\n"),
            };
            let inner = if setup.is_empty() { run } else { format!("{setup}\n{run}") };
            let indent = |t: &str, n: usize| t.lines().map(|l| format!("{}{l}\n", "  ".repeat(n))).collect::<String>();
            for kind in ["let", "var", "for", "param", "match"] {
                let (decls, body) = match kind {
                    "let" => (tdecls.to_string(), format!("let {var} = {val}\n{inner}")),
                    "var" => (tdecls.to_string(), format!("var {var} = {val}\n{inner}")),
                    "for" => (tdecls.to_string(), format!("for {var} in [{val}] {{\n{}}}\n", indent(&inner, 1))),
                    "param" => (format!("{tdecls}fn hq({var}: {vty}) {{\n{}}}\n", indent(&inner, 1)), format!("hq({val})\n")),
                    _ => (tdecls.to_string(), format!("match {val} {{\n  {var} -> {{\n{}  }}\n}}\n", indent(&inner, 2))),
                };
                let tag: &'static str = Box::leak(format!("only-in-{ptag}:{kind}:{runner}").into_boxed_str());
                out.push(Form {
                    tag,
                    target,
                    captured: false,
                    decls: Box::leak(decls.into_boxed_str()),
                    body: Box::leak(body.into_boxed_str()),
                    top_only: true,
                    no_err: runner == "task",
                    at: None,
                });
            }
        }
    }
    out
}

/// A declaration of the SAME NAME with the OPPOSITE mutability (or a binder of that name) inside a
/// scope-opening construct, and the assignment either after the construct has closed (the outer
/// declaration decides) or inside it (the inner one decides); also with the whole thing inside a
/// lambda that captures the outer variable.  The innermost VISIBLE declaration decides the verdict.
fn shadow_forms() -> Vec<Form> {
    let leak = |s: String| -> &'static str { Box::leak(s.into_boxed_str()) };
    // (tag, open, close, enc open, enc close)
    let scopes: Vec<(&str, &str, &str, &str, &str)> = vec![
        ("while", "var wq = true\nwhile wq {\n  wq = false\n", "}\n", "{", "}"),
        ("for", "for qf in [1] {\n", "}\n", "fqf.9{", "}"),
        ("if", "if true {\n", "}\n", "{", "}"),
        ("else", "if false {\n  let uu = 0\n} else {\n", "}\n", "I{luu.7;}{", "}"),
        ("match-arm", "match 1 {\n  _ -> {\n", "  }\n}\n", "M<n{", "}>"),
        ("block", "{\n", "}\n", "{", "}"),
        ("lambda", "let gq = () -> {\n", "}\ngq()\n", "pzq.8{", "}"),
    ];
    let binders: Vec<(&str, &str, &str, &'static str)> = vec![
        ("for-binder", "for x in [{OLD}] {\n  let uu = 0\n}\n", "fx.2{luu.7;}", "for"),
        ("match-binder", "match {OLD} {\n  x -> {\n    let uu = 0\n  }\n}\n", "M<ax.2{luu.7;}>", "match"),
        ("lambda-parameter", "let gq = (x: {TY}) -> {\n  let uu = 0\n}\ngq({OLD})\n", "px.2{luu.7;}", "lamparam"),
    ];
    let mut out = vec![];
    for (outer, inner) in [("let", "var"), ("var", "let")] {
        for (stag, open, close, eo, ec) in &scopes {
            // after the construct: the outer declaration is the innermost visible one
            out.push(Form {
                tag: leak(format!("shadow-after-{stag}:outer-{outer}")),
                target: if outer == "let" { "let" } else { "var" },
                captured: false,
                decls: "",
                body: leak(format!("{outer} x = {{OLD}}\n{open}  {inner} x = {{OLD}}\n{close}x {{OP}} {{RHS}}\nprintln(x)\n")),
                top_only: false,
                no_err: false,
                at: Some((leak(format!("lx.1;{eo}lx.2;{ec}ux;")), leak(format!("1:{outer}:0,2:{inner}:0")))),
            });
            // inside the construct, after the inner declaration: the inner one decides
            out.push(Form {
                tag: leak(format!("shadow-inside-{stag}:inner-{inner}")),
                target: if inner == "let" { "let" } else { "var" },
                captured: false,
                decls: "",
                body: leak(format!("{outer} x = {{OLD}}\n{open}  {inner} x = {{OLD}}\n  x {{OP}} {{RHS}}\n  println(x)\n{close}")),
                top_only: false,
                no_err: false,
                at: Some((leak(format!("lx.1;{eo}lx.2;ux;{ec}")), leak(format!("1:{outer}:0,2:{inner}:0")))),
            });
            // the same inside a lambda that captures the outer variable
            let ind = |t: &str| t.lines().map(|l| format!("  {l}\n")).collect::<String>();
            out.push(Form {
                tag: leak(format!("shadow-captured-after-{stag}:outer-{outer}")),
                target: if outer == "let" { "let" } else { "var" },
                captured: true,
                decls: "",
                body: leak(format!(
                    "{outer} x = {{OLD}}\nlet fc = () -> {{\n{}    {inner} x = {{OLD}}\n{}  x {{OP}} {{RHS}}\n}}\nfc()\nprintln(x)\n",
                    ind(open),
                    ind(close)
                )),
                top_only: true,
                no_err: false,
                at: Some((leak(format!("lx.1;pzz.6{{{eo}lx.2;{ec}ux;}}")), leak(format!("1:{outer}:1,2:{inner}:0")))),
            });
        }
        for (btag, code, enc, kind) in &binders {
            out.push(Form {
                tag: leak(format!("shadow-after-{btag}:outer-{outer}")),
                target: if outer == "let" { "let" } else { "var" },
                captured: false,
                decls: "",
                body: leak(format!("{outer} x = {{OLD}}\n{code}x {{OP}} {{RHS}}\nprintln(x)\n")),
                top_only: false,
                no_err: false,
                at: Some((leak(format!("lx.1;{enc}ux;")), leak(format!("1:{outer}:0,2:{kind}:0")))),
            });
        }
    }
    out
}

#[derive(Clone, Copy, PartialEq)]
enum Ctxt {
    Top,
    Fn,
    Lam,
}

fn build(form: &Form, op: &str, old: &str, rhs: &str, ty: &str, cx: Ctxt) -> String {
    let sub = |s: &str| s.replace("{OLD}", old).replace("{OP}", op).replace("{RHS}", rhs).replace("{TY}", ty);
    let decls = sub(form.decls);
    let body = sub(form.body);
    let indent = |s: &str| s.lines().map(|l| format!("  {l}\n")).collect::<String>();
    match cx {
        Ctxt::Top => format!("{decls}{body}"),
        Ctxt::Fn => format!("{decls}fn wrap() {{\n{}}}\nwrap()\n", indent(&body)),
        Ctxt::Lam => format!("{decls}let wrap = () -> {{\n{}}}\nwrap()\n", indent(&body)),
    }
}

fn classify(r: &RunResult) -> String {
    match &r.outcome {
        Outcome::Done => format!("accept {}", r.out.trim()),
        Outcome::Error(k) => format!("accept err {k}"),
        Outcome::Rejected(t) => {
            if t.contains("Can't modify immutable variable") {
                "diag immutable".into()
            } else if t.contains("Can't modify captured variable") {
                "diag captured".into()
            } else if t.contains("Can't assign to this") {
                "diag notvar".into()
            } else {
                let first = t.lines().find(|l| l.starts_with("error")).unwrap_or("").replace('\t', " ");
                format!("diag other: {first}")
            }
        }
        Outcome::Crash(m) => format!("crash: {}", m.lines().next().unwrap_or("").replace('\t', " ")),
        o => format!("other {}", o.tag()),
    }
}

/// exact reference arithmetic (the language's documented integer semantics, as in C15)
fn expected_int(op: &str, a: i64, b: i64) -> String {
    let fit = |x: i128| if x >= i64::MIN as i128 && x <= i64::MAX as i128 { format!("accept {x}") } else { "accept err overflow".into() };
    let (x, y) = (a as i128, b as i128);
    match op {
        "eq" => fit(y),
        "add" => fit(x + y),
        "sub" => fit(x - y),
        "mul" => fit(x * y),
        "div" => if b == 0 { "accept err divzero".into() } else { fit(x / y) },
        _ => if b == 0 { "accept err divzero".into() } else { fit(x.rem_euclid(y)) },
    }
}

fn expected_float(op: &str, a: f64, b: f64) -> f64 {
    match op {
        "eq" => b,
        "add" => a + b,
        "sub" => a - b,
        "mul" => a * b,
        _ => a / b,
    }
}

struct Job {
    form: Form,
    opname: &'static str,
    src: String,
    req: String,
    cx: Ctxt,
    int: Option<(i64, i64)>,
    float: Option<(f64, f64)>,
}

fn main() {
    let mut ctx = Ctx::from_env("C20");
    let mut int_pairs: Vec<(i64, i64)> = vec![(10, 3), (-7, 2), (i64::MAX, 1), (5, 0), (i64::MIN, -1), (0, 9)];
    let n_rand = if ctx.quick() { 2 } else { 40 };
    for _ in 0..n_rand {
        let a = ctx.rng.range(-1000, 1000);
        let b = ctx.rng.range(-12, 12);
        int_pairs.push((a, b));
    }
    let float_pairs: Vec<(f64, f64)> = vec![(10.0, 4.0), (-2.5, 0.5)];
    let mut jobs: Vec<Job> = vec![];
    let quick = ctx.quick();
    let mut all_forms = forms();
    all_forms.extend(capture_only_forms());
    all_forms.extend(shadow_forms());
    for form in all_forms {
        for (opname, opsym) in OPS {
            for cx in [Ctxt::Top, Ctxt::Fn, Ctxt::Lam] {
                if form.top_only && cx != Ctxt::Top {
                    continue;
                }
                let light = quick && (form.tag.starts_with("only-in-") || form.tag.starts_with("shadow-"));
                for (pi, &(a, b)) in int_pairs.iter().enumerate() {
                    if light && pi != 0 && pi != 3 {
                        continue; // quick tier: (10, 3) and (5, 0) for the capture-only forms
                    }
                    if form.no_err && expected_int(opname, a, b).contains("err") {
                        continue;
                    }
                    let src = build(&form, opsym, &a.to_string(), &b.to_string(), "int", cx);
                    let req = match form.at {
                        Some((enc, kinds)) => format!("assignat {enc} {kinds} {opname} {a} {b} #{}", form.tag),
                        None => format!("assign {} {} {} {} {} #{}", form.target, form.captured as u8, opname, a, b, form.tag),
                    };
                    jobs.push(Job { form: form.clone(), opname, src, req, cx, int: Some((a, b)), float: None });
                }
                if opname != "mod" {
                    for &(a, b) in float_pairs.iter().take(if light { 1 } else { 2 }) {
                        let src = build(&form, opsym, &format!("{a:?}"), &format!("{b:?}"), "float", cx);
                        let req = match form.at {
                            Some((enc, kinds)) => format!("assignat {enc} {kinds} {opname} - - #{}:float", form.tag),
                            None => format!("assign {} {} {} - - #{}:float", form.target, form.captured as u8, opname, form.tag),
                        };
                        jobs.push(Job { form: form.clone(), opname, src, req, cx, int: None, float: Some((a, b)) });
                    }
                }
            }
        }
    }
    let results = par_map(&jobs, |j| classify(&run_program(&j.src)));
    for (j, raw) in jobs.iter().zip(results) {
        let what = format!("{} `{}` ({}):\n{}", j.form.tag, j.opname, match j.cx { Ctxt::Top => "top level", Ctxt::Fn => "function", Ctxt::Lam => "lambda" }, j.src);
        ctx.count(&format!("form:{}", j.form.tag));
        ctx.count(&format!("op:{}", j.opname));
        let class = if raw.starts_with("accept err") {
            format!("accept-runtime-error:{}", raw.split(' ').nth(2).unwrap_or(""))
        } else if raw.starts_with("accept") {
            "accept".to_string()
        } else {
            raw.split(':').next().unwrap().replace(' ', "-")
        };
        ctx.count(&format!("answer:{class}"));
        ctx.count(&format!("decision:{}:{}", j.form.target, class.split(':').next().unwrap()));
        let crashed = raw.starts_with("crash") || raw.starts_with("other");
        let is_diag = raw.starts_with("diag");
        // the implementation's answer in the model's vocabulary
        let mut imp = raw.clone();
        if let Some((a, b)) = j.float {
            if raw.starts_with("accept ") && !raw.starts_with("accept err") {
                let want = expected_float(j.opname, a, b);
                let got: Option<f64> = raw[7..].parse().ok();
                if got != Some(want) {
                    ctx.spec_fail(format!("{what}-- stored value `{raw}`, the operator defines {want:?}"));
                }
                imp = "accept".into();
            }
        }
        // the property itself
        if crashed {
            ctx.spec_fail(format!("{what}-- assignment crashes the compiler/VM: `{raw}`"));
        } else {
            match j.form.target {
                "let" => {
                    if !is_diag {
                        ctx.spec_fail(format!("{what}-- assignment to a `let` binding is not rejected: `{raw}`"));
                    }
                }
                _ if j.form.captured => {
                    if !is_diag {
                        ctx.spec_fail(format!("{what}-- assignment to a captured variable is not rejected: `{raw}`"));
                    }
                }
                "var" | "elem" | "field" => {
                    if let Some((a, b)) = j.int {
                        let want = expected_int(j.opname, a, b);
                        if raw != want {
                            ctx.spec_fail(format!("{what}-- `{raw}`, the property demands `{want}`"));
                        }
                    } else if !raw.starts_with("accept") {
                        ctx.spec_fail(format!("{what}-- not accepted: `{raw}`"));
                    }
                }
                _ => {
                    // accepted with its plain effect, or a diagnostic
                    if !is_diag {
                        if let Some((a, b)) = j.int {
                            let want = expected_int(j.opname, a, b);
                            if raw != want {
                                ctx.spec_fail(format!("{what}-- accepted but the effect is `{raw}`, plain effect is `{want}`"));
                            }
                        }
                    }
                }
            }
        }
        ctx.case(j.req.clone(), imp);
    }
    ctx.finish();
}
