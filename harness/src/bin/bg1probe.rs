use vh::*;
fn main() {
    let src = std::fs::read_to_string(std::env::args().nth(1).unwrap()).unwrap();
    let r = run_program(&src);
    println!("{:?}\n---\n{}", r.outcome, r.out);
}
