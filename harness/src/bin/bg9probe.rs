//! scratch probe (bG9): run Abra files given on the command line, print outcome/output/final value
use abra_core::vm::Runtime;
use std::panic::{AssertUnwindSafe, catch_unwind};
use vh::*;

fn main() {
    std::panic::set_hook(Box::new(|_| {}));
    let args: Vec<String> = std::env::args().skip(1).collect();
    for a in args {
        let src = std::fs::read_to_string(&a).unwrap();
        let r = std::thread::Builder::new()
            .stack_size(256 << 20)
            .spawn(move || {
                let opts = RunOpts { budgets: vec![1000], max_steps: 200_000, files: vec![] };
                let chk = catch_unwind(AssertUnwindSafe(|| abra_core::check("main.abra", provider(&src, &[])).map_err(|e| e.to_string())));
                let chk = match chk { Ok(Ok(())) => "accepted".to_string(), Ok(Err(e)) => format!("rejected: {e}"), Err(p) => format!("CHECK-PANIC {}", panic_msg(p)) };
                let prog = catch_unwind(AssertUnwindSafe(|| abra_core::compile_bytecode("main.abra", provider(&src, &[]))));
                let prog = match prog {
                    Err(p) => return format!("check={chk}\nCOMPILE-PANIC {}", panic_msg(p)),
                    Ok(Err(e)) => return format!("check={chk}\nREJECTED {}", e.to_string()),
                    Ok(Ok(p)) => p,
                };
                let mut rt = Runtime::new(prog);
                let mut out = String::new();
                let r = catch_unwind(AssertUnwindSafe(|| drive(&mut rt, &opts, &mut out)));
                match r {
                    Err(p) => { std::mem::forget(rt); format!("check={chk}\nRUN-PANIC {}\nout={out:?}", panic_msg(p)) }
                    Ok((o, et, steps)) => {
                        let top = catch_unwind(AssertUnwindSafe(|| format!("{:?}", rt.top()))).unwrap_or("<empty>".into());
                        format!("check={chk}\noutcome={} steps={steps} top={top}\nout={out:?}\nerr={et:?}", o.tag())
                    }
                }
            })
            .unwrap()
            .join()
            .unwrap();
        println!("== {a}\n{r}");
    }
}
