//! ad-hoc probe (bG10 scratch, not part of any check): LSP queries at every offset of a file
use abra_core::{MockFileProvider, check_lsp};
fn main() {
    let path = std::env::args().nth(1).unwrap();
    let src = std::fs::read_to_string(path).unwrap();
    let r = std::panic::catch_unwind(|| {
        let a = check_lsp("main.abra", MockFileProvider::single_file(&src));
        for e in a.errors() {
            println!("error: {:?}", e);
        }
        for off in 0..=src.len() + 2 {
            let d = std::panic::catch_unwind(std::panic::AssertUnwindSafe(|| a.definition_at(0, off)));
            let t = std::panic::catch_unwind(std::panic::AssertUnwindSafe(|| a.type_at(0, off)));
            let c = std::panic::catch_unwind(std::panic::AssertUnwindSafe(|| a.completions_at(0, off).len()));
            let ch = src.get(off..).and_then(|s| s.chars().next());
            println!(
                "{off:4} {:?} def={} type={:?} compl={:?}",
                ch,
                match d {
                    Ok(Some(d)) => format!("f{}:{:?}={:?}", d.file_id, d.range, if d.file_id == 0 { src.get(d.range.clone()) } else { None }),
                    Ok(None) => "-".into(),
                    Err(p) => format!("PANIC {}", vh::panic_msg(p)),
                },
                match t { Ok(t) => t, Err(p) => Some(format!("PANIC {}", vh::panic_msg(p))) },
                match c { Ok(n) => n.to_string(), Err(p) => format!("PANIC {}", vh::panic_msg(p)) },
            );
        }
    });
    if let Err(p) = r {
        println!("PANIC in check_lsp: {}", vh::panic_msg(p));
    }
}
