//! C32 correspondence: generated multi-file programs (<= 3 files, call depth <= 5 plus lambdas and
//! recursion) that fail with each runtime error kind at a chosen statement.  The generator knows the
//! expected (file, line, function) chain.  Checked per program:
//!  * `VmError` text == the chain rendered independently here (spec, `spec_fail`) and == the Lean
//!    model's `renderTrace` (case `srcmap render`);
//!  * the three location tables of the compiled program == `SrcMap.build` of the optimized assembly's
//!    annotations (case `srcmap build`);
//!  * `pc_to_error_location(pc+1)` for EVERY instruction index == `SrcMap.lookup` (case `srcmap locs`)
//!    and == the annotation of instruction pc (spec).
//! Sources contain non-ASCII comments and string literals before the failing line (D12, char offsets used
//! as byte offsets, was repaired by /repo 5388a80; a regression shows up as a wrong line number).
use abra_core::vm::Runtime;
use vh::*;

#[derive(Clone, Debug)]
struct Frame {
    file: String,
    /// inclusive line range in which the reported line must fall (lo == hi for single-line operations)
    lo: usize,
    hi: usize,
    func: String,
}

struct FileSrc {
    name: String,
    lines: Vec<String>,
}
impl FileSrc {
    fn push(&mut self, s: impl Into<String>) -> usize {
        self.lines.push(s.into());
        self.lines.len()
    }
    fn text(&self) -> String {
        let mut t = self.lines.join("\n");
        t.push('\n');
        t
    }
}

struct Gen<'a> {
    rng: &'a mut Rng,
    files: Vec<FileSrc>,
    /// expected chain, innermost first
    chain: Vec<Frame>,
    tags: Vec<String>,
    prelude_unwrap_none: usize,
    prelude_unwrap_err: usize,
    /// line of `g(a, b)` inside `apply<f>` of each file
    apply_line: Vec<usize>,
}

const KINDS: [&str; 15] = [
    "wrapper_oob", "wrapper_div",
    "div_int", "mod_int", "div_assign", "div_float_var", "div_float_lit", "ovf_add", "ovf_mul", "ovf_neg",
    "ovf_pow", "oob_get", "oob_set", "panic", "unwrap_none",
];

impl<'a> Gen<'a> {
    fn filler(&mut self, f: usize, indent: &str, uid: &mut usize) {
        let n = self.rng.below(3);
        for _ in 0..n {
            *uid += 1;
            let k = *uid;
            match self.rng.below(8) {
                6 => {
                    // non-ASCII text before the failing line (D12 repaired: spans are byte offsets)
                    self.files[f].push(format!("{indent}// f\u{fc}ller {k} \u{e9}\u{6f22}\u{5b57} \u{1F600}"));
                }
                7 => {
                    self.files[f].push(format!("{indent}let n{k} = \"h\u{e9}llo \u{6f22}\u{5b57} {k}\""));
                }
                0 => {
                    self.files[f].push("");
                }
                1 => {
                    self.files[f].push(format!("{indent}// filler {k}"));
                }
                2 => {
                    self.files[f].push(format!("{indent}let t{k} = {} + {}", k, self.rng.below(50)));
                }
                3 => {
                    self.files[f].push(format!("{indent}let s{k} = \"a\" .. \"b{k}\""));
                }
                4 => {
                    // a finished call: must not show up in the trace
                    self.files[f].push(format!("{indent}let h{k} = helper{f}({k})"));
                }
                _ => {
                    self.files[f].push(format!("{indent}let u{k} = [1, 2, {k}]"));
                }
            }
        }
    }

    /// emit the failing statement(s) into file f at the current position inside function `func`;
    /// the variable `x` holds 0. Returns the kind line of the expected error.
    fn failing(&mut self, f: usize, indent: &str, func: &str, kind: &str, uid: &mut usize) -> String {
        let fname = self.files[f].name.clone();
        *uid += 1;
        let k = *uid;
        // setup lines
        let (expr, kind_line): (String, String) = match kind {
            "div_int" => ("10 / x".into(), "error: division by zero".into()),
            "mod_int" => ("(x + 7) % x".into(), "error: division by zero".into()),
            "div_assign" => {
                self.files[f].push(format!("{indent}var da{k} = 5"));
                let l = self.files[f].push(format!("{indent}da{k} /= x"));
                self.chain.push(Frame { file: fname, lo: l, hi: l, func: func.into() });
                self.tags.push("ctx:assign".into());
                return "error: division by zero".into();
            }
            "div_float_var" => {
                self.files[f].push(format!("{indent}let fz{k} = 0.0"));
                (format!("1.5 / fz{k}"), "error: division by zero".into())
            }
            "div_float_lit" => {
                self.files[f].push(format!("{indent}let fa{k} = 2.5"));
                (format!("fa{k} / 0.0"), "error: division by zero".into())
            }
            "ovf_add" => ("9223372036854775807 + (x + 1)".into(), "error: integer overflow/underflow".into()),
            "ovf_mul" => ("(x - 2) * 9223372036854775807".into(), "error: integer overflow/underflow".into()),
            "ovf_neg" => {
                self.files[f].push(format!("{indent}let mn{k} = x - 9223372036854775807 - 1"));
                (format!("-mn{k}"), "error: integer overflow/underflow".into())
            }
            "ovf_pow" => ("2 ^ (x + 64)".into(), "error: integer overflow/underflow".into()),
            "oob_get" => {
                self.files[f].push(format!("{indent}let arr{k} = [1, 2, 3]"));
                let e = if self.rng.chance(1, 2) { format!("arr{k}[x + 3]") } else { format!("arr{k}[x - 1]") };
                (e, "error: indexed past the end of an array".into())
            }
            "oob_set" => {
                self.files[f].push(format!("{indent}let arr{k} = [1, 2, 3]"));
                let l = self.files[f].push(format!("{indent}arr{k}[x + 3] = 7"));
                self.chain.push(Frame { file: fname, lo: l, hi: l, func: func.into() });
                self.tags.push("ctx:assign".into());
                return "error: indexed past the end of an array".into();
            }
            "panic" => {
                let l = self.files[f].push(format!("{indent}panic(\"boom {k}\")"));
                self.chain.push(Frame { file: fname, lo: l, hi: l, func: func.into() });
                self.tags.push("ctx:stmt".into());
                return format!("panic: `boom {k}`");
            }
            "wrapper_oob" | "wrapper_div" => {
                // the failing operation is inside the wrapper function generated for an intrinsic used as a
                // function value: that code has no source of its own and is attributed to the place where the
                // function value is made (D92, repaired by /repo 2fca043)
                let (line, name, kl) = if kind == "wrapper_oob" {
                    self.files[f].push(format!("{indent}let arr{k} = [1, 2, 3]"));
                    (format!("{indent}let q{k} = apply{f}(array_get, arr{k}, x + 3)"), "array_get", "error: indexed past the end of an array")
                } else {
                    (format!("{indent}let q{k} = applyd{f}(divide_int, 10 + x, x)"), "divide_int", "error: division by zero")
                };
                let l = self.files[f].push(line);
                let (al, an) = if kind == "wrapper_oob" { (self.apply_line[f], format!("apply{f}")) } else { (self.apply_line[f] + 3, format!("applyd{f}")) };
                self.chain.push(Frame { file: fname.clone(), lo: l, hi: l, func: name.into() });
                self.chain.push(Frame { file: fname.clone(), lo: al, hi: al, func: an });
                self.chain.push(Frame { file: fname, lo: l, hi: l, func: func.into() });
                self.tags.push("ctx:intrinsic-wrapper".into());
                return kl.into();
            }
            "unwrap_none" => {
                let err = self.rng.chance(1, 3);
                if err {
                    self.files[f].push(format!("{indent}let ow{k}: result<int, string> = result.err(\"bad\")"));
                } else {
                    self.files[f].push(format!("{indent}let ow{k}: option<int> = option.none"));
                }
                // the panic is raised inside the prelude's `unwrap`
                let pl = if err { self.prelude_unwrap_err } else { self.prelude_unwrap_none };
                self.chain.push(Frame { file: "prelude.abra".into(), lo: pl, hi: pl, func: "unwrap".into() });
                let msg = if err { "cannot unwrap result.err" } else { "cannot unwrap option.none" };
                (format!("ow{k}!"), format!("panic: `{msg}`"))
            }
            _ => unreachable!(),
        };
        // statement context of the failing expression
        let (lo, hi, tag) = match self.rng.below(9) {
            0 => {
                let l = self.files[f].push(format!("{indent}let q{k} = {expr}"));
                (l, l, "ctx:let")
            }
            1 => {
                let l = self.files[f].push(format!("{indent}println({expr})"));
                (l, l, "ctx:arg")
            }
            2 => {
                self.files[f].push(format!("{indent}if x < 5 {{"));
                let l = self.files[f].push(format!("{indent}  let q{k} = {expr}"));
                self.files[f].push(format!("{indent}}}"));
                (l, l, "ctx:if")
            }
            3 => {
                self.files[f].push(format!("{indent}var w{k} = 0"));
                self.files[f].push(format!("{indent}while w{k} < 3 {{"));
                self.files[f].push(format!("{indent}  w{k} = w{k} + 1"));
                let l = self.files[f].push(format!("{indent}  let q{k} = {expr}"));
                self.files[f].push(format!("{indent}}}"));
                (l, l, "ctx:while")
            }
            4 => {
                self.files[f].push(format!("{indent}match x {{"));
                self.files[f].push(format!("{indent}  1 -> println(\"one\")"));
                let l = self.files[f].push(format!("{indent}  _ -> println({expr})"));
                self.files[f].push(format!("{indent}}}"));
                (l, l, "ctx:match")
            }
            5 => {
                // argument of a call to another function: the callee is never entered
                let l = self.files[f].push(format!("{indent}let q{k} = helper{f}({expr})"));
                (l, l, "ctx:callarg")
            }
            6 => {
                // multi-line call, failing operation alone on its line
                self.files[f].push(format!("{indent}let q{k} = helper2_{f}("));
                self.files[f].push(format!("{indent}  x,"));
                let l = self.files[f].push(format!("{indent}  {expr}"));
                self.files[f].push(format!("{indent})"));
                (l, l, "ctx:multiline-arg")
            }
            7 => {
                self.files[f].push(format!("{indent}let q{k} = {{"));
                self.files[f].push(format!("{indent}  let inner = x + 1"));
                let l = self.files[f].push(format!("{indent}  {expr}"));
                self.files[f].push(format!("{indent}}}"));
                (l, l, "ctx:block")
            }
            _ => {
                let l = self.files[f].push(format!("{indent}let q{k} = [{expr}]"));
                (l, l, "ctx:array-lit")
            }
        };
        self.tags.push(tag.into());
        self.chain.push(Frame { file: fname, lo, hi, func: func.into() });
        kind_line
    }

    /// emit a call to `callee(x)` (or `callee(x, n)` for recursive callees) inside `func` of file f
    fn call_site(&mut self, f: usize, indent: &str, func: &str, callee: &str, uid: &mut usize) {
        let fname = self.files[f].name.clone();
        *uid += 1;
        let k = *uid;
        match self.rng.below(8) {
            0 => {
                let l = self.files[f].push(format!("{indent}let r{k} = {callee}"));
                self.chain.push(Frame { file: fname, lo: l, hi: l, func: func.into() });
                self.tags.push("call:let".into());
            }
            1 => {
                let l = self.files[f].push(format!("{indent}println({callee} + 1)"));
                self.chain.push(Frame { file: fname, lo: l, hi: l, func: func.into() });
                self.tags.push("call:arg".into());
            }
            2 => {
                self.files[f].push(format!("{indent}if x > -100 {{"));
                let l = self.files[f].push(format!("{indent}  println({callee})"));
                self.files[f].push(format!("{indent}}} else {{"));
                self.files[f].push(format!("{indent}  println(0)"));
                self.files[f].push(format!("{indent}}}"));
                self.chain.push(Frame { file: fname, lo: l, hi: l, func: func.into() });
                self.tags.push("call:if".into());
            }
            3 => {
                self.files[f].push(format!("{indent}var i{k} = 0"));
                self.files[f].push(format!("{indent}var acc{k} = 0"));
                self.files[f].push(format!("{indent}while i{k} < 3 {{"));
                let l = self.files[f].push(format!("{indent}  acc{k} = acc{k} + {callee}"));
                self.files[f].push(format!("{indent}  i{k} = i{k} + 1"));
                self.files[f].push(format!("{indent}}}"));
                self.chain.push(Frame { file: fname, lo: l, hi: l, func: func.into() });
                self.tags.push("call:while".into());
            }
            4 => {
                // through a lambda stored in a local: two frames (CallFuncObj, then Call inside the lambda)
                let lg = self.files[f].push(format!("{indent}let g{k} = (y: int) -> {}", callee.replace("(x", "(y")));
                self.filler(f, indent, uid);
                let lc = self.files[f].push(format!("{indent}let r{k} = g{k}(x)"));
                self.chain.push(Frame { file: fname.clone(), lo: lg, hi: lg, func: "<lambda>".into() });
                self.chain.push(Frame { file: fname, lo: lc, hi: lc, func: func.into() });
                self.tags.push("call:lambda".into());
            }
            5 => {
                self.files[f].push(format!("{indent}match x {{"));
                self.files[f].push(format!("{indent}  5 -> println(\"five\")"));
                let l = self.files[f].push(format!("{indent}  _ -> println({callee})"));
                self.files[f].push(format!("{indent}}}"));
                self.chain.push(Frame { file: fname, lo: l, hi: l, func: func.into() });
                self.tags.push("call:match".into());
            }
            6 => {
                // multi-line call: the Call instruction is emitted after the last argument
                let lo = self.files[f].push(format!("{indent}let r{k} = helper2_{f}("));
                self.files[f].push(format!("{indent}  x,"));
                self.files[f].push(format!("{indent}  {callee}"));
                let _ = lo;
                let l = self.files[f].lines.len();
                self.files[f].push(format!("{indent})"));
                self.chain.push(Frame { file: fname, lo: l, hi: l, func: func.into() });
                self.tags.push("call:multiline-arg".into());
            }
            _ => {
                let l = self.files[f].push(format!("{indent}let r{k} = [{callee}, 2]"));
                self.chain.push(Frame { file: fname, lo: l, hi: l, func: func.into() });
                self.tags.push("call:array-lit".into());
            }
        }
    }
}

struct Prog {
    main: String,
    extra: Vec<(String, String)>,
    kind_line: String,
    /// innermost first
    chain: Vec<Frame>,
    tags: Vec<String>,
}

fn gen_program(rng: &mut Rng, kind: &str, pl_none: usize, pl_err: usize) -> Prog {
    let nfiles = 1 + rng.below(3) as usize;
    let names = ["main.abra", "a.abra", "b.abra"];
    let depth = rng.below(6) as usize; // number of named functions below <main>
    let mut g = Gen {
        rng,
        files: (0..nfiles).map(|i| FileSrc { name: names[i].into(), lines: vec![] }).collect(),
        chain: vec![],
        tags: vec![],
        prelude_unwrap_none: pl_none,
        prelude_unwrap_err: pl_err,
        apply_line: vec![0; nfiles],
    };
    // imports: every file imports every other file (the checker resolves cycles between files)
    for i in 0..nfiles {
        for j in 0..nfiles {
            if i != j {
                let m = names[j].trim_end_matches(".abra");
                g.files[i].push(format!("use {m}"));
            }
        }
    }
    let mut uid = 0usize;
    // helpers per file (uniquely named)
    for f in 0..nfiles {
        if g.rng.chance(1, 2) {
            g.files[f].push("");
        }
        g.files[f].push(format!("fn helper{f}(v: T) -> T {{"));
        g.files[f].push("  v");
        g.files[f].push("}");
        g.files[f].push(format!("fn helper2_{f}(v: int, w: T) -> T {{"));
        g.files[f].push("  w");
        g.files[f].push("}");
        // (same body line number relative to each other: the second helper is two lines below the first)
        g.files[f].push(format!("fn apply{f}(g: (array<int>, int) -> int, a: array<int>, b: int) -> int {{"));
        g.apply_line[f] = g.files[f].push("  g(a, b)");
        g.files[f].push("}");
        g.files[f].push(format!("fn applyd{f}(g: (int, int) -> int, a: int, b: int) -> int {{"));
        g.files[f].push("  g(a, b)");
        g.files[f].push("}");
    }
    // which file each function lives in, recursion depth per function
    let file_of: Vec<usize> = (0..depth).map(|_| g.rng.below(nfiles as u64) as usize).collect();
    let rec: Vec<usize> = (0..depth).map(|_| if g.rng.chance(1, 5) { 1 + g.rng.below(3) as usize } else { 0 }).collect();
    // the chain is built innermost first, so emit functions from the leaf up; frames recorded per function
    // are collected separately and concatenated at the end.
    let mut per_fn: Vec<Vec<Frame>> = vec![];
    let mut kind_line = String::new();
    for i in (0..depth).rev() {
        let f = file_of[i];
        let name = format!("f{}", i + 1);
        g.chain.clear();
        if g.rng.chance(1, 2) {
            g.files[f].push("");
        }
        if rec[i] > 0 {
            g.files[f].push(format!("fn {name}(x: int, n: int) -> int {{"));
            g.files[f].push("  if n > 0 {");
            let lr = g.files[f].push(format!("    {name}(x, n - 1) + 1"));
            g.files[f].push("  } else {");
            let ind = "    ";
            g.filler(f, ind, &mut uid);
            if i + 1 == depth {
                kind_line = g.failing(f, ind, &name, kind, &mut uid);
            } else {
                let callee = callee_expr(i + 1, &rec);
                g.call_site(f, ind, &name, &callee, &mut uid);
            }
            g.filler(f, ind, &mut uid);
            g.files[f].push("    x");
            g.files[f].push("  }");
            g.files[f].push("}");
            let fname = g.files[f].name.clone();
            for _ in 0..rec[i] {
                g.chain.push(Frame { file: fname.clone(), lo: lr, hi: lr, func: name.clone() });
            }
            g.tags.push("call:recursion".into());
        } else {
            g.files[f].push(format!("fn {name}(x: int) -> int {{"));
            let ind = "  ";
            g.filler(f, ind, &mut uid);
            if i + 1 == depth {
                kind_line = g.failing(f, ind, &name, kind, &mut uid);
            } else {
                let callee = callee_expr(i + 1, &rec);
                g.call_site(f, ind, &name, &callee, &mut uid);
            }
            g.filler(f, ind, &mut uid);
            g.files[f].push("  x");
            g.files[f].push("}");
        }
        per_fn.push(g.chain.clone());
    }
    // main body
    g.chain.clear();
    g.files[0].push("");
    g.files[0].push("let x = 0");
    g.filler(0, "", &mut uid);
    if depth == 0 {
        kind_line = g.failing(0, "", "<main>", kind, &mut uid);
    } else {
        let callee = callee_expr(0, &rec);
        g.call_site(0, "", "<main>", &callee, &mut uid);
    }
    g.filler(0, "", &mut uid);
    g.files[0].push("println(\"end\")");
    per_fn.push(g.chain.clone());
    let chain: Vec<Frame> = per_fn.into_iter().flatten().collect();
    let main = g.files[0].text();
    let extra = g.files[1..].iter().map(|f| (f.name.clone(), f.text())).collect();
    Prog { main, extra, kind_line, chain, tags: g.tags.clone() }
}

/// Adversarial layout: byte offsets are only unique within one file.  For one caller/callee pair living in
/// different files, stretch one line of the caller (the call site, or the caller's final expression) with a
/// trailing comment and pad the callee's file so that the callee's header and body up to its failing line /
/// call site occupy the SAME byte offsets as that stretched line.  Line numbers are unchanged (only trailing
/// comments are added), so the expected chain stays valid.  Returns true when a pair was aligned.
fn align_offsets(p: &mut Prog, rng: &mut Rng) -> bool {
    let mut files: Vec<(String, Vec<String>)> = vec![("main.abra".to_string(), p.main.lines().map(|l| l.to_string()).collect())];
    for (n, t) in &p.extra {
        files.push((n.clone(), t.lines().map(|l| l.to_string()).collect()));
    }
    let idx_of = |files: &Vec<(String, Vec<String>)>, name: &str| files.iter().position(|f| f.0 == name);
    let off = |lines: &Vec<String>, line1: usize| -> usize { lines[..line1 - 1].iter().map(|l| l.len() + 1).sum() };
    let pairs: Vec<usize> = (0..p.chain.len().saturating_sub(1)).filter(|&i| p.chain[i].file != p.chain[i + 1].file).collect();
    if pairs.is_empty() {
        return false;
    }
    let i = *rng.pick(&pairs);
    let (callee, caller) = (&p.chain[i], &p.chain[i + 1]);
    let (Some(fa), Some(fb)) = (idx_of(&files, &caller.file), idx_of(&files, &callee.file)) else { return false };
    let header = format!("fn {}(", callee.func);
    let Some(hb0) = files[fb].1.iter().position(|l| l.starts_with(&header)) else { return false };
    let hb = hb0 + 1;
    let lb = callee.hi;
    if lb < hb {
        return false;
    }
    let region = off(&files[fb].1, lb) + files[fb].1[lb - 1].len() - off(&files[fb].1, hb);
    // target line in the caller's file
    let mut target = caller.lo;
    if caller.func != "<main>" && rng.chance(1, 2) {
        if let Some(close) = files[fa].1.iter().enumerate().skip(caller.lo).find(|(_, l)| l.as_str() == "}").map(|(k, _)| k) {
            if close >= 1 && close + 1 > caller.lo {
                target = close; // 1-based number of the line before the closing brace
            }
        }
    }
    if target == 0 || target > files[fa].1.len() {
        return false;
    }
    files[fa].1[target - 1].push_str(&format!(" // {}", "p".repeat(region + 24)));
    // a line before both regions that can take padding: the helper function header near the top of each file
    let pad_line = |lines: &Vec<String>, before: usize| lines.iter().take(before - 1).position(|l| l.starts_with("fn helper") && l.ends_with('{'));
    let oa = off(&files[fa].1, target) + 2;
    let ob = off(&files[fb].1, hb);
    if oa > ob {
        let Some(k) = pad_line(&files[fb].1, hb) else { return false };
        let d = oa - ob;
        files[fb].1[k].push_str(&if d >= 3 { format!(" //{}", "q".repeat(d - 3)) } else { " ".repeat(d) });
    } else if ob > oa {
        let Some(k) = pad_line(&files[fa].1, target) else { return false };
        let d = ob - oa;
        files[fa].1[k].push_str(&if d >= 3 { format!(" //{}", "q".repeat(d - 3)) } else { " ".repeat(d) });
    }
    let text = |l: &Vec<String>| { let mut t = l.join("\n"); t.push('\n'); t };
    p.main = text(&files[0].1);
    p.extra = files[1..].iter().map(|f| (f.0.clone(), text(&f.1))).collect();
    p.tags.push("layout:aligned-offsets".into());
    true
}

fn callee_expr(i: usize, rec: &[usize]) -> String {
    if rec[i] > 0 { format!("f{}(x, {})", i + 1, rec[i]) } else { format!("f{}(x)", i + 1) }
}

/// independent rendering of the expected `VmError` text (the property's statement made executable)
fn render_expected(kind_line: &str, locs: &[(String, usize, String)]) -> String {
    let width = locs.iter().map(|l| l.0.len() + 1 + l.1.to_string().len()).max().unwrap_or(10);
    let mut s = format!("{kind_line}\n[traceback]\n");
    for l in locs {
        let fl = format!("{}:{}", l.0, l.1);
        s.push_str(&format!("    {fl:width$} in `{}`\n", l.2));
    }
    s
}

/// parse the implementation's text back into (file, line, function) triples
fn parse_err_text(t: &str) -> Option<(String, Vec<(String, usize, String)>)> {
    let mut it = t.lines();
    let kind = it.next()?.to_string();
    if it.next()? != "[traceback]" {
        return None;
    }
    let mut v = vec![];
    for l in it {
        let l = l.strip_prefix("    ")?;
        let (fl, func) = l.split_once(" in `")?;
        let func = func.strip_suffix('`')?;
        let fl = fl.trim_end();
        let (file, line) = fl.rsplit_once(':')?;
        v.push((file.to_string(), line.parse().ok()?, func.to_string()));
    }
    Some((kind, v))
}

struct Res {
    run: RunResult,
    /// annotated instruction lines of the optimized assembly: `L` or `file:line:func`
    lines: Vec<String>,
    tables: String,
    /// implementation lookup for every pc+1 as `file:line:func` ids
    locs: Vec<String>,
    crash: Option<String>,
    /// immediates expanded into push + plain instruction
    expanded: usize,
}

fn render_table(t: &[(u32, u32)]) -> String {
    if t.is_empty() { "-".into() } else { t.iter().map(|p| format!("{}:{}", p.0, p.1)).collect::<Vec<_>>().join(",") }
}

fn imm_constant(t: &str) -> Option<(bool, String)> {
    let name = t.split('(').next().unwrap_or("");
    let is_float = name == "PushFloat" || name.ends_with("FloatImm");
    let is_int = name == "PushInt" || name == "StoreOffsetImm" || name == "ArrayPushIntImm" || name == "ModuloImm" || name.ends_with("IntImm");
    if is_float {
        let a = t.find('"')?;
        let b = t.rfind('"')?;
        if b > a { Some((true, t[a + 1..b].to_string())) } else { None }
    } else if is_int {
        let last = t.trim_end_matches(')').rsplit(|c| c == ',' || c == '(').next()?.trim();
        last.parse::<i64>().ok().map(|v| (false, v.to_string()))
    } else {
        None
    }
}

/// constants whose pool index (order of first occurrence, as `gather_constants` numbers them) exceeds 16 bits
fn late_constants(lines: &[String]) -> std::collections::HashSet<(bool, String)> {
    let (mut ni, mut nf) = (0usize, 0usize);
    let mut seen = std::collections::HashSet::new();
    let mut late = std::collections::HashSet::new();
    for l in lines {
        if !l.starts_with("I ") {
            continue;
        }
        let Some(t) = l.splitn(5, ' ').nth(4) else { continue };
        if let Some(c) = imm_constant(t) {
            if seen.insert(c.clone()) {
                let idx = if c.0 { nf += 1; nf - 1 } else { ni += 1; ni - 1 };
                if idx > 65535 {
                    late.insert(c);
                }
            }
        }
    }
    late
}

fn is_late_imm(t: &str, late: &std::collections::HashSet<(bool, String)>) -> bool {
    let name = t.split('(').next().unwrap_or("");
    name.ends_with("Imm") && imm_constant(t).map(|c| late.contains(&c)).unwrap_or(false)
}

/// multi-file program with more than 65536 distinct constants: immediates with late constants (expanded by
/// `expand_immediates`) come BEFORE the failing sites and the call sites of every frame
fn big_pool_prog(variant: usize) -> Prog {
    let mut m = FileSrc { name: "main.abra".into(), lines: vec![] };
    let mut h = FileSrc { name: "helper.abra".into(), lines: vec![] };
    let mut lf = FileSrc { name: "leaf.abra".into(), lines: vec![] };
    let elems: Vec<String> = (0..65600).map(|i| i.to_string()).collect();
    m.push("use helper");
    m.push("use leaf");
    m.push(format!("let big = [{}]", elems.join(", ")));
    m.push("let n = big.len()");
    m.push("let z = n - 65600");
    m.push("println(n + 700001)");
    m.push("println(scale(700007, 2))");
    let call_main = m.push("let r = compute(z)");
    m.push("println(r)");
    h.push("use leaf");
    h.push("fn compute(x: int) -> int {");
    h.push("  let a = x + 700002");
    h.push("  let b = a * 700003");
    let call_compute = h.push("  inner(x) + b");
    h.push("}");
    h.push("fn inner(x: int) -> int {");
    h.push("  let c = x + 700004");
    h.push("  let d = c - 700005");
    let (call_inner, fail_inner);
    if variant == 0 {
        call_inner = h.push("  scale(x, d)");
        fail_inner = 0;
    } else {
        h.push("  let ok = scale(700008, d)");
        h.push("  let arr = [1, 2, 3]");
        fail_inner = h.push("  arr[x + 700009 - 700006]");
        call_inner = 0;
    }
    h.push("}");
    lf.push("fn scale(x: int, d: int) -> int {");
    lf.push("  let e = d + 700006");
    let fail_leaf = lf.push("  let q = e / x");
    lf.push("  q");
    lf.push("}");
    let mut chain = vec![];
    let kind_line;
    if variant == 0 {
        kind_line = "error: division by zero";
        chain.push(Frame { file: "leaf.abra".into(), lo: fail_leaf, hi: fail_leaf, func: "scale".into() });
        chain.push(Frame { file: "helper.abra".into(), lo: call_inner, hi: call_inner, func: "inner".into() });
    } else {
        kind_line = "error: indexed past the end of an array";
        chain.push(Frame { file: "helper.abra".into(), lo: fail_inner, hi: fail_inner, func: "inner".into() });
    }
    chain.push(Frame { file: "helper.abra".into(), lo: call_compute, hi: call_compute, func: "compute".into() });
    chain.push(Frame { file: "main.abra".into(), lo: call_main, hi: call_main, func: "<main>".into() });
    Prog {
        main: m.text(),
        extra: vec![("helper.abra".into(), h.text()), ("leaf.abra".into(), lf.text())],
        kind_line: kind_line.into(),
        chain,
        tags: vec!["ctx:big-pool".into()],
    }
}

/// D109 family: callees with DEFAULT argument values declared in another file (lib.abra) and on other
/// lines, called with the default omitted.  The frame of such a call is located at the call expression
/// (for a multi-line call at its last written argument), an error inside the default's own expression at
/// the default's declaration, and whatever follows the call on the same line at the call again.
fn defaults_prog(variant: usize, in_fn: bool, pad: usize) -> Prog {
    let mut lib = FileSrc { name: "lib.abra".into(), lines: vec![] };
    let mut m = FileSrc { name: "main.abra".into(), lines: vec![] };
    lib.push("fn bad(z: int) -> int {");
    let l_bad = lib.push("  10 / z");
    lib.push("}");
    lib.push("fn zero() -> int {");
    lib.push("  0");
    lib.push("}");
    lib.push("// declarations with defaults");
    let l_fdiv_decl = lib.push("fn fdiv(a: int, b: int = 0, c: int = 1) -> int {");
    let l_fdiv_body = lib.push("  a / b + c");
    lib.push("}");
    let l_gexpr_decl = lib.push("fn gexpr(a: int, b: int = 10 / zero()) -> int {");
    lib.push("  a + b");
    lib.push("}");
    let l_gcall_decl = lib.push("fn gcall(a: int, b: int = bad(0)) -> int {");
    lib.push("  a + b");
    lib.push("}");
    lib.push("fn fine(a: int, b: int = 4) -> int {");
    lib.push("  a + b");
    lib.push("}");
    lib.push("type Pt = {");
    lib.push("  x: int");
    let l_pt_y = lib.push("  y: int = bad(0)");
    lib.push("}");
    lib.push("type Qt = {");
    lib.push("  x: int");
    lib.push("  y: int = 2");
    lib.push("}");
    lib.push("extend Qt {");
    lib.push("  fn scaled(self, k: int = 0) -> int {");
    let l_scaled_body = lib.push("    self.x / k");
    lib.push("  }");
    lib.push("}");
    lib.push("type shape =");
    lib.push("  | Circle(r: int = 3)");
    let l_variant = lib.push("  | Rect(w: int, h: int = bad(0))");
    let _ = (l_fdiv_decl,);
    m.push("use lib");
    for i in 0..pad {
        m.push(format!("// pad {i}"));
    }
    let ind = if in_fn { "  " } else { "" };
    let func = if in_fn { "caller" } else { "<main>" };
    if in_fn {
        m.push("fn caller(z: int) -> int {");
    } else {
        m.push("let z = 0");
    }
    m.push(format!("{ind}let q = Qt(8)"));
    let mut chain: Vec<Frame> = vec![];
    let mainf = |l: usize, f: &str| Frame { file: "main.abra".into(), lo: l, hi: l, func: f.into() };
    let libf = |l: usize, f: &str| Frame { file: "lib.abra".into(), lo: l, hi: l, func: f.into() };
    let kind_line = "error: division by zero";
    let tag;
    match variant {
        0 => {
            // failure inside the callee; the call omits two defaults
            let l = m.push(format!("{ind}let r = fdiv(10 + z)"));
            chain.push(libf(l_fdiv_body, "fdiv"));
            chain.push(mainf(l, func));
            tag = "default:fn-callee";
        }
        1 => {
            // failure in the default's own expression: located at the declaration, inside the calling function
            let _l = m.push(format!("{ind}let r = gexpr(1 + z)"));
            chain.push(libf(l_gexpr_decl, func));
            tag = "default:own-expression";
        }
        2 => {
            // the default's expression calls a function that fails
            let _l = m.push(format!("{ind}let r = gcall(1 + z)"));
            chain.push(libf(l_bad, "bad"));
            chain.push(libf(l_gcall_decl, func));
            tag = "default:expression-calls";
        }
        3 => {
            // after a call that took a default, on the same line
            let l = m.push(format!("{ind}let r = fine(1) + 10 / z"));
            chain.push(mainf(l, func));
            tag = "default:after-call-same-line";
        }
        4 => {
            // method with a default, failure inside the method
            let l = m.push(format!("{ind}let r = q.scaled()"));
            chain.push(libf(l_scaled_body, "scaled"));
            chain.push(mainf(l, func));
            tag = "default:method";
        }
        5 => {
            // struct constructor whose default field value fails
            let _l = m.push(format!("{ind}let p = Pt(1 + z)"));
            chain.push(libf(l_bad, "bad"));
            chain.push(libf(l_pt_y, func));
            tag = "default:struct-field";
        }
        6 => {
            // struct constructor with a default, then a failure on the same line
            let l = m.push(format!("{ind}let r = Qt(5).y / z"));
            chain.push(mainf(l, func));
            tag = "default:struct-then-fail";
        }
        7 => {
            // variant constructor whose default fails
            let _l = m.push(format!("{ind}let s = shape.Rect(2 + z)"));
            chain.push(libf(l_bad, "bad"));
            chain.push(libf(l_variant, func));
            tag = "default:variant";
        }
        8 => {
            // multi-line call, default omitted: located at the last written argument
            m.push(format!("{ind}let r = fdiv("));
            let l = m.push(format!("{ind}  10 + z"));
            m.push(format!("{ind})"));
            chain.push(libf(l_fdiv_body, "fdiv"));
            chain.push(mainf(l, func));
            tag = "default:multi-line-call";
        }
        9 => {
            // a call with a default as argument of a call whose callee fails: both frames at the call line
            let l = m.push(format!("{ind}let r = fdiv(fine(1) - 5 + z, 0)"));
            chain.push(libf(l_fdiv_body, "fdiv"));
            chain.push(mainf(l, func));
            tag = "default:nested";
        }
        _ => {
            // variant constructor with a default that is fine, then a failing call with a default
            m.push(format!("{ind}let c = shape.Circle()"));
            let l = m.push(format!("{ind}let r = q.scaled(k = z)"));
            chain.push(libf(l_scaled_body, "scaled"));
            chain.push(mainf(l, func));
            tag = "default:named-arg";
        }
    }
    if in_fn {
        m.push("  z");
        m.push("}");
        m.push("// call");
        let l = m.push("println(caller(0))");
        chain.push(mainf(l, "<main>"));
    }
    m.push("println(\"end\")");
    Prog {
        main: m.text(),
        extra: vec![("lib.abra".into(), lib.text())],
        kind_line: kind_line.into(),
        chain,
        tags: vec![tag.into()],
    }
}

fn exec(p: &Prog) -> Res {
    let opts = RunOpts { files: p.extra.clone(), ..Default::default() };
    let run = run_program_opts(&p.main, &opts);
    let r = std::panic::catch_unwind(std::panic::AssertUnwindSafe(|| {
        abra_core::verif_asm::start_optimize_trace();
        let prog = abra_core::compile_bytecode("main.abra", provider(&p.main, &p.extra));
        let tr = abra_core::verif_asm::take_optimize_trace();
        let prog = match prog {
            Ok(p) => p,
            Err(e) => return Err(format!("rejected: {e}")),
        };
        let d = abra_core::verif_asm::dump_program(&prog);
        let last = tr.last().cloned().unwrap_or_default();
        // The location tables are built from the FINAL instruction list: after `optimize`, immediates whose
        // constant has no 16-bit pool index are expanded into push + plain instruction, both carrying the
        // annotation of the original (`expand_immediates`). The model's input is that final list.
        let late = late_constants(&last);
        let mut expanded = 0usize;
        let mut lines: Vec<String> = vec![];
        for l in &last {
            if l.starts_with("L ") {
                lines.push("L".to_string());
            } else {
                let w: Vec<&str> = l.splitn(5, ' ').collect();
                let ann = format!("{}:{}:{}", w[1], w[2], w[3]);
                if is_late_imm(w[4], &late) {
                    lines.push(ann.clone());
                    expanded += 1;
                }
                lines.push(ann);
            }
        }
        let tables = format!(
            "files={} lines={} funcs={}",
            render_table(&d.filename_table),
            render_table(&d.lineno_table),
            render_table(&d.function_name_table)
        );
        let n = d.instructions.len();
        let rt = Runtime::new(prog);
        let th = rt.main();
        let mut locs = vec![];
        for pc in 0..n {
            let (f, l, func) = th.verif_error_location(pc as u32 + 1);
            let fi = d.filename_arena.iter().position(|x| *x == f).map(|i| i.to_string()).unwrap_or("?".into());
            let ni = d.function_name_arena.iter().position(|x| *x == func).map(|i| i.to_string()).unwrap_or("?".into());
            locs.push(format!("{fi}:{l}:{ni}"));
        }
        Ok((lines, tables, locs, expanded))
    }));
    match r {
        Ok(Ok((lines, tables, locs, expanded))) => Res { run, lines, tables, locs, crash: None, expanded },
        Ok(Err(e)) => Res { run, lines: vec![], tables: String::new(), locs: vec![], crash: Some(e), expanded: 0 },
        Err(e) => Res { run, lines: vec![], tables: String::new(), locs: vec![], crash: Some(panic_msg(e)), expanded: 0 },
    }
}

fn big_frame_prog(n: usize) -> Prog {
    let mut f = FileSrc { name: "main.abra".into(), lines: vec![] };
    f.push("fn big(x: int) -> int {");
    f.push("  let l0 = x + 1");
    for i in 1..n {
        f.push(format!("  let l{i} = l{} + 1", i - 1));
    }
    f.push(format!("  let z = l{} - l{}", n - 1, n - 1));
    let fail = f.push(format!("  let q = l{} / z", n - 2));
    f.push("  q");
    f.push("}");
    f.push("let x = 0");
    let call = f.push("println(big(x))");
    Prog {
        main: f.text(),
        extra: vec![],
        kind_line: "error: division by zero".into(),
        chain: vec![
            Frame { file: "main.abra".into(), lo: fail, hi: fail, func: "big".into() },
            Frame { file: "main.abra".into(), lo: call, hi: call, func: "<main>".into() },
        ],
        tags: vec!["ctx:big-frame".into()],
    }
}

fn main() {
    let mut ctx = Ctx::from_env("C32");
    let prelude = std::fs::read_to_string(repo_root().join("modules/prelude.abra")).unwrap_or_default();
    let find = |needle: &str| prelude.lines().position(|l| l.contains(needle)).map(|i| i + 1).unwrap_or(0);
    let pl_none = find("panic(\"cannot unwrap option.none\")");
    let pl_err = find("panic(\"cannot unwrap result.err\")");
    let n = if ctx.quick() { 420 } else { 6000 };
    let mut progs = vec![];
    for i in 0..n {
        let kind = KINDS[i % KINDS.len()];
        let mut p = gen_program(&mut ctx.rng, kind, pl_none, pl_err);
        if i % 2 == 1 {
            align_offsets(&mut p, &mut ctx.rng);
        }
        progs.push((kind, p));
    }
    // hard probe: a frame with more than 16384 slots (offsets beyond the 15-bit register range are reached
    // with LoadOffset/StoreOffset only, D90): the failing line and the call site are still the right ones
    progs.insert(0, ("big_frame", big_frame_prog(16500)));
    // hard probes: constant pool beyond 16 bits, so that `expand_immediates` lengthens the instruction list
    // before the failing sites and call sites (the tables must be built from the final list)
    progs.insert(0, ("big_pool", big_pool_prog(0)));
    progs.insert(0, ("big_pool", big_pool_prog(1)));
    // D109: calls that take default argument values declared in another file
    for v in 0..11 {
        for in_fn in [false, true] {
            let pad = 3 + ctx.rng.below(40) as usize;
            progs.push(("defaults", defaults_prog(v, in_fn, pad)));
        }
    }
    let results = par_map(&progs, |(_, p)| exec(p));
    for (idx, ((kind, p), r)) in progs.iter().zip(results).enumerate() {
        ctx.count(&format!("kind:{kind}"));
        ctx.count(&format!("depth:{}", p.chain.len()));
        ctx.count(&format!("files:{}", 1 + p.extra.len()));
        for t in &p.tags {
            ctx.count(t);
        }
        let describe = || {
            let clip = |t: &str| -> String {
                t.lines().map(|l| if l.len() > 300 { format!("{} ...({} characters)", &l[..120], l.len()) } else { l.to_string() }).collect::<Vec<_>>().join("\n") + "\n"
            };
            let mut s = format!("--- main.abra\n{}", clip(&p.main));
            for (n, t) in &p.extra {
                s.push_str(&format!("--- {n}\n{t}"));
            }
            s
        };
        // 1. the error text
        let expected_locs: Vec<(String, usize, String)> =
            p.chain.iter().map(|f| (f.file.clone(), f.lo, f.func.clone())).collect();
        let expected = render_expected(&p.kind_line, &expected_locs);
        match &r.run.outcome {
            Outcome::Error(_) => {
                ctx.count("outcome:error");
                if r.run.err_text != expected {
                    // tolerate nothing: single-line operations have one admissible line
                    let parsed = parse_err_text(&r.run.err_text);
                    let what = match parsed {
                        Some((k, locs)) if k == p.kind_line && locs.len() == expected_locs.len() => {
                            let diffs: Vec<String> = locs
                                .iter()
                                .zip(&expected_locs)
                                .enumerate()
                                .filter(|(_, (a, b))| a != b)
                                .map(|(i, (a, b))| format!("entry {i}: reported {}:{} in `{}`, expected {}:{} in `{}`", a.0, a.1, a.2, b.0, b.1, b.2))
                                .collect();
                            diffs.join("; ")
                        }
                        _ => "kind line or number of trace entries differs".to_string(),
                    };
                    ctx.spec_fail(format!(
                        "program #{idx} ({kind}): error report differs from the failing location/call chain: {what}\nreported:\n{}expected:\n{}{}",
                        r.run.err_text, expected, describe()
                    ));
                }
            }
            o => {
                ctx.count(&format!("outcome:{}", o.tag()));
                ctx.spec_fail(format!("program #{idx} ({kind}) was expected to fail with `{}` but: {:?} {}\n{}", p.kind_line, o, r.run.err_text, describe()));
            }
        }
        let req = format!(
            "srcmap render {} {} #p{idx}",
            hex(p.kind_line.as_bytes()),
            expected_locs.iter().map(|l| format!("{}:{}:{}", hex(l.0.as_bytes()), l.1, hex(l.2.as_bytes()))).collect::<Vec<_>>().join(" ")
        );
        ctx.case(req, hex(r.run.err_text.as_bytes()));
        // 2. tables and lookups
        if let Some(c) = &r.crash {
            ctx.count("dump:failed");
            ctx.notes.push(format!("program #{idx}: dump failed: {c}"));
            continue;
        }
        let joined = r.lines.join(" ");
        ctx.case(format!("srcmap build {joined} #p{idx}"), r.tables.clone());
        ctx.case(format!("srcmap locs {joined} #p{idx}"), r.locs.join(" "));
        *ctx.hist.entry("expanded-immediates".into()).or_insert(0) += r.expanded as u64;
        if *kind == "big_pool" && r.expanded < 5 {
            ctx.spec_fail(format!("program #{idx} (big_pool): only {} immediates carry a constant beyond the 16-bit pool index; the probe no longer reaches expand_immediates", r.expanded));
        }
        let anns: Vec<&String> = r.lines.iter().filter(|l| *l != "L").collect();
        if anns.len() != r.locs.len() {
            ctx.spec_fail(format!("program #{idx}: {} instructions in the optimized assembly, {} in the program", anns.len(), r.locs.len()));
        } else {
            let mut runs = 0;
            for (pc, (a, l)) in anns.iter().zip(&r.locs).enumerate() {
                if pc > 0 && anns[pc - 1] != *a {
                    runs += 1;
                }
                if *a != l {
                    ctx.spec_fail(format!("program #{idx}: pc_to_error_location({}) = {l}, but instruction {pc} is annotated {a}\n{}", pc + 1, describe()));
                    break;
                }
            }
            ctx.count(if runs > 40 { "runs:>40" } else if runs > 20 { "runs:21-40" } else { "runs:<=20" });
        }
    }
    ctx.finish();
}
