//! C31 correspondence: expression trees → `printMinimal` source → the real lexer+parser
//! (`verif_parse_expr`) vs. the tree itself (spec), vs. the Lean Pratt model run on the token kinds
//! the real lexer produced (case), and the value computed by the real compiler+VM vs. a reference
//! evaluator that evaluates the *tree* (grouping by the documented table) (spec).
#[path = "../frontend.rs"]
#[allow(dead_code)]
mod frontend;
use frontend::*;
use vh::*;

// ------------------------------------------------------------------ typed trees (evaluated)
#[derive(Clone, Copy, PartialEq, Debug)]
enum Ty { Int, Float, Bool, Str }

const INT_VARS: [(&str, i64); 4] = [("a", 7), ("b", -3), ("c", 0), ("d", 2)];
const FLOAT_VARS: [(&str, f64); 2] = [("p", 2.5), ("q", -0.5)];
const BOOL_VARS: [(&str, bool); 2] = [("t", true), ("u", false)];
const STR_VARS: [(&str, &str); 2] = [("s", "ab"), ("w", "")];

fn prelude_decls() -> String {
    let mut s = String::new();
    for (n, v) in INT_VARS { s.push_str(&format!("let {n} = {v}\n")); }
    for (n, v) in FLOAT_VARS { s.push_str(&format!("let {n} = {v:?}\n")); }
    for (n, v) in BOOL_VARS { s.push_str(&format!("let {n} = {v}\n")); }
    for (n, v) in STR_VARS { s.push_str(&format!("let {n} = \"{v}\"\n")); }
    s
}

fn gen_atom(rng: &mut Rng, ty: Ty) -> E {
    match ty {
        Ty::Int => match rng.below(10) {
            0..=3 => E::Atom(Atom::Ident(INT_VARS[rng.below(4) as usize].0.into())),
            4..=7 => E::Atom(Atom::Int(rng.below(13))),
            8 => E::Atom(Atom::Int(*rng.pick(&[2147483647u64, 4294967296, 3037000500, 9223372036854775807, 100]))),
            // negative literal: unary minus applied to a literal
            _ => E::Neg(Box::new(E::Atom(Atom::Int(1 + rng.below(9))))),
        },
        Ty::Float => match rng.below(8) {
            0..=2 => E::Atom(Atom::Ident(FLOAT_VARS[rng.below(2) as usize].0.into())),
            3..=6 => E::Atom(Atom::Float((*rng.pick(&["0.5", "1.0", "1.5", "2.0", "3.25", "10.0", "0.0"])).into())),
            _ => E::Neg(Box::new(E::Atom(Atom::Float((*rng.pick(&["0.5", "2.0", "1.5"])).into())))),
        },
        Ty::Bool => match rng.below(4) {
            0 | 1 => E::Atom(Atom::Ident(BOOL_VARS[rng.below(2) as usize].0.into())),
            2 => E::Atom(Atom::Bool(true)),
            _ => E::Atom(Atom::Bool(false)),
        },
        Ty::Str => match rng.below(3) {
            0 => E::Atom(Atom::Ident(STR_VARS[rng.below(2) as usize].0.into())),
            _ => E::Atom(Atom::Str((*rng.pick(&["x", "yz", "", "ab", "b"])).into())),
        },
    }
}

/// `-0` is the literal 0 in the real AST when folded and `(neg 0)` otherwise; generated trees avoid it
fn no_zero(e: E) -> E { if e == E::Atom(Atom::Int(0)) { E::Atom(Atom::Int(1)) } else { e } }

fn any_ty(rng: &mut Rng) -> Ty { *rng.pick(&[Ty::Int, Ty::Int, Ty::Float, Ty::Bool, Ty::Str]) }

fn gen_typed(rng: &mut Rng, ty: Ty, depth: usize) -> E {
    if depth == 0 || rng.chance(1, 7) {
        return gen_atom(rng, ty);
    }
    let d = depth - 1;
    let b = |e: E| Box::new(e);
    match ty {
        Ty::Int => match rng.below(9) {
            0 => E::Neg(b(no_zero(gen_typed(rng, Ty::Int, d)))),
            n => {
                let op = [Op::Add, Op::Sub, Op::Mul, Op::Div, Op::Mod, Op::Pow, Op::Add, Op::Mod][(n - 1) as usize];
                E::Bin(op, b(gen_typed(rng, Ty::Int, d)), b(gen_typed(rng, Ty::Int, d)))
            }
        },
        Ty::Float => match rng.below(6) {
            0 => E::Neg(b(gen_typed(rng, Ty::Float, d))),
            n => {
                let op = [Op::Add, Op::Sub, Op::Mul, Op::Div, Op::Pow][(n - 1) as usize];
                E::Bin(op, b(gen_typed(rng, Ty::Float, d)), b(gen_typed(rng, Ty::Float, d)))
            }
        },
        Ty::Bool => match rng.below(10) {
            0 | 1 => E::Not(b(gen_typed(rng, Ty::Bool, d))),
            2 => E::Bin(Op::And, b(gen_typed(rng, Ty::Bool, d)), b(gen_typed(rng, Ty::Bool, d))),
            3 => E::Bin(Op::Or, b(gen_typed(rng, Ty::Bool, d)), b(gen_typed(rng, Ty::Bool, d))),
            4 | 5 => {
                let t = any_ty(rng);
                let op = *rng.pick(&[Op::Eq, Op::Ne]);
                E::Bin(op, b(gen_typed(rng, t, d)), b(gen_typed(rng, t, d)))
            }
            _ => {
                let t = *rng.pick(&[Ty::Int, Ty::Int, Ty::Float, Ty::Str, Ty::Bool]);
                let op = *rng.pick(&[Op::Lt, Op::Le, Op::Gt, Op::Ge]);
                E::Bin(op, b(gen_typed(rng, t, d)), b(gen_typed(rng, t, d)))
            }
        },
        Ty::Str => {
            let (t1, t2) = (any_ty(rng), any_ty(rng));
            E::Bin(Op::Fmt, b(gen_typed(rng, t1, d)), b(gen_typed(rng, t2, d)))
        }
    }
}

// ------------------------------------------------------------------ reference evaluator (on the tree)
#[derive(Clone, Debug, PartialEq)]
enum V { I(i64), F(f64), B(bool), S(String) }
enum Stop { Err(&'static str), Unknown }

fn render(v: &V) -> String {
    match v {
        V::I(n) => format!("{n}"),
        V::F(x) => format!("{x}"),
        V::B(b) => format!("{b}"),
        V::S(s) => s.clone(),
    }
}

fn eval(e: &E) -> Result<V, Stop> {
    Ok(match e {
        E::Atom(Atom::Int(n)) => V::I(i64::try_from(*n).map_err(|_| Stop::Unknown)?),
        E::Atom(Atom::Float(s)) => V::F(s.parse().unwrap()),
        E::Atom(Atom::Bool(b)) => V::B(*b),
        E::Atom(Atom::Str(s)) => V::S(s.clone()),
        E::Atom(Atom::Ident(n)) => {
            if let Some((_, v)) = INT_VARS.iter().find(|(k, _)| k == n) { V::I(*v) }
            else if let Some((_, v)) = FLOAT_VARS.iter().find(|(k, _)| k == n) { V::F(*v) }
            else if let Some((_, v)) = BOOL_VARS.iter().find(|(k, _)| k == n) { V::B(*v) }
            else if let Some((_, v)) = STR_VARS.iter().find(|(k, _)| k == n) { V::S(v.to_string()) }
            else { return Err(Stop::Unknown) }
        }
        E::Neg(x) => match eval(x)? {
            V::I(n) => V::I(n.checked_neg().ok_or(Stop::Err("overflow"))?),
            V::F(f) => V::F(-f),
            _ => return Err(Stop::Unknown),
        },
        E::Not(x) => match eval(x)? { V::B(b) => V::B(!b), _ => return Err(Stop::Unknown) },
        E::Bin(Op::And, l, r) => match eval(l)? {
            V::B(false) => V::B(false),
            V::B(true) => eval(r)?,
            _ => return Err(Stop::Unknown),
        },
        E::Bin(Op::Or, l, r) => match eval(l)? {
            V::B(true) => V::B(true),
            V::B(false) => eval(r)?,
            _ => return Err(Stop::Unknown),
        },
        E::Bin(op, l, r) => {
            let a = eval(l)?;
            let b = eval(r)?;
            match (op, a, b) {
                (Op::Fmt, a, b) => V::S(render(&a) + &render(&b)),
                (Op::Add, V::I(a), V::I(b)) => V::I(a.checked_add(b).ok_or(Stop::Err("overflow"))?),
                (Op::Sub, V::I(a), V::I(b)) => V::I(a.checked_sub(b).ok_or(Stop::Err("overflow"))?),
                (Op::Mul, V::I(a), V::I(b)) => V::I(a.checked_mul(b).ok_or(Stop::Err("overflow"))?),
                (Op::Div, V::I(_), V::I(0)) | (Op::Mod, V::I(_), V::I(0)) => return Err(Stop::Err("divzero")),
                (Op::Div, V::I(a), V::I(b)) => V::I(a.checked_div(b).ok_or(Stop::Err("overflow"))?),
                (Op::Mod, V::I(a), V::I(b)) => V::I(a.wrapping_rem_euclid(b)),
                (Op::Pow, V::I(a), V::I(b)) => {
                    if b < 0 { return Err(Stop::Unknown); } // left open by the language
                    let mut acc: i64 = 1;
                    if a == 0 || a == 1 { acc = if b == 0 { 1 } else { a }; }
                    else if a == -1 { acc = if b % 2 == 0 { 1 } else { -1 }; }
                    else {
                        if b > 64 { return Err(Stop::Err("overflow")); }
                        for _ in 0..b { acc = acc.checked_mul(a).ok_or(Stop::Err("overflow"))?; }
                    }
                    V::I(acc)
                }
                (Op::Add, V::F(a), V::F(b)) => V::F(a + b),
                (Op::Sub, V::F(a), V::F(b)) => V::F(a - b),
                (Op::Mul, V::F(a), V::F(b)) => V::F(a * b),
                (Op::Div, V::F(a), V::F(b)) => { if b == 0.0 { return Err(Stop::Unknown); } V::F(a / b) }
                (Op::Pow, V::F(a), V::F(b)) => V::F(a.powf(b)),
                (Op::Eq, a, b) => V::B(veq(&a, &b)?),
                (Op::Ne, a, b) => V::B(!veq(&a, &b)?),
                (Op::Lt, a, b) => V::B(vcmp(&a, &b)? == std::cmp::Ordering::Less),
                (Op::Le, a, b) => V::B(vcmp(&a, &b)? != std::cmp::Ordering::Greater),
                (Op::Gt, a, b) => V::B(vcmp(&a, &b)? == std::cmp::Ordering::Greater),
                (Op::Ge, a, b) => V::B(vcmp(&a, &b)? != std::cmp::Ordering::Less),
                _ => return Err(Stop::Unknown),
            }
        }
        _ => return Err(Stop::Unknown),
    })
    .and_then(|v| match v { V::F(f) if !f.is_finite() => Err(Stop::Unknown), v => Ok(v) })
}
fn veq(a: &V, b: &V) -> Result<bool, Stop> {
    Ok(match (a, b) {
        (V::I(a), V::I(b)) => a == b,
        (V::F(a), V::F(b)) => a == b,
        (V::B(a), V::B(b)) => a == b,
        (V::S(a), V::S(b)) => a == b,
        _ => return Err(Stop::Unknown),
    })
}
fn vcmp(a: &V, b: &V) -> Result<std::cmp::Ordering, Stop> {
    Ok(match (a, b) {
        (V::I(a), V::I(b)) => a.cmp(b),
        (V::F(a), V::F(b)) => a.partial_cmp(b).ok_or(Stop::Unknown)?,
        (V::B(a), V::B(b)) => a.cmp(b),
        (V::S(a), V::S(b)) => a.as_bytes().cmp(b.as_bytes()),
        _ => return Err(Stop::Unknown),
    })
}

// ------------------------------------------------------------------ untyped trees (structure only)
fn gen_ident(rng: &mut Rng) -> String { (*rng.pick(&["a", "b", "x", "foo", "y1", "v_2"])).to_string() }

fn gen_untyped_atom(rng: &mut Rng) -> E {
    E::Atom(match rng.below(9) {
        0..=2 => Atom::Ident(gen_ident(rng)),
        3 | 4 => Atom::Int(rng.below(100)),
        5 => Atom::Float(format!("{}.{}", rng.below(50), rng.below(100))),
        6 => Atom::Str((*rng.pick(&["", "s", "two words", "é"])).into()),
        7 => Atom::Bool(rng.chance(1, 2)),
        _ => Atom::Nil,
    })
}

fn gen_untyped(rng: &mut Rng, depth: usize) -> E {
    if depth == 0 || rng.chance(1, 6) {
        return gen_untyped_atom(rng);
    }
    let d = depth - 1;
    let b = |e: E| Box::new(e);
    match rng.below(20) {
        0..=9 => {
            let op = *rng.pick(&ALL_OPS);
            E::Bin(op, b(gen_untyped(rng, d)), b(gen_untyped(rng, d)))
        }
        10 | 11 => E::Neg(b(no_zero(gen_untyped(rng, d)))),
        12 => E::Not(b(gen_untyped(rng, d))),
        13 => E::Member(b(gen_untyped(rng, d)), gen_ident(rng)),
        14 => E::Index(b(gen_untyped(rng, d)), b(gen_untyped(rng, d))),
        15 => E::Unwrap(b(gen_untyped(rng, d))),
        16 => E::Try(b(gen_untyped(rng, d))),
        17 => {
            let n = rng.below(4) as usize;
            E::Call(b(gen_untyped(rng, d)), (0..n).map(|_| gen_untyped(rng, d)).collect())
        }
        18 => {
            let n = 2 + rng.below(2) as usize;
            E::Tuple((0..n).map(|_| gen_untyped(rng, d)).collect())
        }
        _ => {
            let n = rng.below(4) as usize;
            E::Array((0..n).map(|_| gen_untyped(rng, d)).collect())
        }
    }
}

// ------------------------------------------------------------------ token soup (error branches of the model)
fn gen_soup(rng: &mut Rng) -> String {
    let n = 1 + rng.below(9);
    let mut v: Vec<String> = vec![];
    for _ in 0..n {
        let w = match rng.below(30) {
            0..=5 => gen_ident(rng),
            6 | 7 => format!("{}", rng.below(20)),
            8 => "1.5".into(),
            9 => "true".into(),
            10..=14 => ALL_OPS[rng.below(15) as usize].text().into(),
            15 | 16 => "-".into(),
            17 => "not".into(),
            18 | 19 => "(".into(),
            20 | 21 => ")".into(),
            22 => "[".into(),
            23 => "]".into(),
            // `.` only after a token that ends an expression, so it is the postfix member access
            // (the leading-dot term `.variant` is not modelled)
            24 => {
                let ends = v.last().map(|p: &String| {
                    p.chars().all(|c| c.is_ascii_alphanumeric() || c == '_' || c == '.') && !["not", "and", "or"].contains(&p.as_str())
                        || [")", "]", "!", "?"].contains(&p.as_str())
                }).unwrap_or(false);
                if ends { ".".into() } else { gen_ident(rng) }
            }
            25 => (*rng.pick(&["!", "?"])).into(),
            26 | 27 => ",".into(),
            28 => "\n".into(),
            _ => (*rng.pick(&[";", ":", "}", "|", "9223372036854775808", "\"s\"", "nil", "T"])).into(),
        };
        v.push(w);
    }
    v.join(" ")
}

fn impl_answer(src: &str) -> String {
    let r = std::panic::catch_unwind(|| abra_core::verif_parse_expr(src));
    match r {
        Ok(s) => if s.starts_with("err") { "err".into() } else { s },
        Err(_) => "crash".into(),
    }
}

struct FamJob { lit: String, var: String, lit_sexpr: String, eval: Option<String> }

struct Job { src: String, tree: Option<E>, kind: &'static str, eval: bool, minimal: bool }

fn main() {
    let mut ctx = Ctx::from_env("C31");
    let quick = ctx.quick();
    let (n_typed, n_untyped, n_soup, max_depth) = if quick { (1500, 1200, 1500, 5) } else { (20000, 15000, 15000, 7) };
    let mut jobs: Vec<Job> = vec![];

    // regression corpus first: the recorded D11 shapes and a few hand-picked groupings
    for src in ["-2 % 3", "-x % 3", "-2 ^ 2", "-x ^ 2", "- 2 * 3 + 1", "a - b - c", "a ^ b ^ c", "not a == b",
                "a .. b == c .. d", "a < b == c < d", "a + b * c % d ^ e", "- a . f ( 1 ) [ 2 ] ! ?", "( a , b ) . x"] {
        jobs.push(Job { src: src.into(), tree: None, kind: "corpus", eval: false, minimal: false });
    }
    jobs.push(Job { src: "- 2 % 3".into(), tree: Some(E::Neg(Box::new(E::Bin(Op::Mod, Box::new(E::Atom(Atom::Int(2))), Box::new(E::Atom(Atom::Int(3))))))), kind: "typed", eval: true, minimal: true });
    jobs.push(Job { src: "- 2 ^ 2".into(), tree: Some(E::Neg(Box::new(E::Bin(Op::Pow, Box::new(E::Atom(Atom::Int(2))), Box::new(E::Atom(Atom::Int(2))))))), kind: "typed", eval: true, minimal: true });

    for i in 0..n_typed {
        let depth = 1 + (i % max_depth);
        let ty = any_ty(&mut ctx.rng);
        let t = gen_typed(&mut ctx.rng, ty, depth);
        let (src, _) = print_minimal(&t);
        jobs.push(Job { src, tree: Some(t), kind: "typed", eval: true, minimal: true });
    }
    // continuation-line layouts of typed trees: same tree, same value as the one-line spelling
    for i in 0..(n_typed / 2) {
        let depth = 1 + (i % max_depth);
        let ty = any_ty(&mut ctx.rng);
        let t = gen_typed(&mut ctx.rng, ty, depth);
        let src = with_continuations(&mut ctx.rng, &print_minimal_tokens(&t));
        jobs.push(Job { src, tree: Some(t), kind: "typed-continuation", eval: true, minimal: false });
    }
    for i in 0..n_untyped {
        let depth = 1 + (i % max_depth);
        let t = gen_untyped(&mut ctx.rng, depth);
        let src = if i % 3 == 2 { print_redundant(&t, &mut ctx.rng) }
                  else if i % 3 == 1 && i % 2 == 0 { with_continuations(&mut ctx.rng, &print_minimal_tokens(&t)) }
                  else { print_minimal(&t).0 };
        jobs.push(Job { src, tree: Some(t), kind: if i % 3 == 2 { "redundant" } else { "untyped" }, eval: false, minimal: i % 3 == 0 || (i % 3 == 1 && i % 2 == 1) });
    }
    for _ in 0..n_soup {
        jobs.push(Job { src: gen_soup(&mut ctx.rng), tree: None, kind: "soup", eval: false, minimal: false });
    }

    // ---- exhaustive family: a negative literal as the RIGHT operand of op1, followed by op2
    //      (`a op1 -L op2 c`), every ordered pair of binary operators, vs. the same with a variable
    let lits: [(&str, &str); 4] = [("2", "2"), ("2.5", "f:2.5"), ("0", "0"), ("9223372036854775808", "9223372036854775808")];
    let mut fam: Vec<FamJob> = vec![];
    let mut rot = 0usize;
    for (i1, op1) in ALL_OPS.iter().enumerate() {
        for (i2, op2) in ALL_OPS.iter().enumerate() {
            for (lt, ls) in lits {
                let shapes: Vec<(String, String)> = vec![
                    (format!("a {} - {lt} {} c", op1.text(), op2.text()), format!("a {} - zq {} c", op1.text(), op2.text())),
                    (format!("( a {} - {lt} {} c )", op1.text(), op2.text()), format!("( a {} - zq {} c )", op1.text(), op2.text())),
                    (format!("(\n a {} - {lt} {} c \n) {} d", op1.text(), op2.text(), op1.text()), format!("(\n a {} - zq {} c \n) {} d", op1.text(), op2.text(), op1.text())),
                    (format!("f ( a {} - {lt} {} c , - {lt} {} c )", op1.text(), op2.text(), op2.text()), format!("f ( a {} - zq {} c , - zq {} c )", op1.text(), op2.text(), op2.text())),
                ];
                let mut shapes = shapes;
                // continuation lines: the operand `-L …` starts on the next line (also behind a comment)
                shapes.push((format!("a {}\n - {lt} {} c", op1.text(), op2.text()), format!("a {}\n - zq {} c", op1.text(), op2.text())));
                shapes.push((format!("a {} // c\n\n  - {lt} {}\n c", op1.text(), op2.text()), format!("a {} // c\n\n  - zq {}\n c", op1.text(), op2.text())));
                for (l, v) in shapes { fam.push(FamJob { lit: l, var: v, lit_sexpr: ls.to_string(), eval: None }); }
            }
            // three-operator chains on a rotating third operator
            for _ in 0..2 {
                let op3 = ALL_OPS[rot % 15]; rot += 7;
                let (lt, ls) = lits[(i1 + i2 + rot) % 2];
                fam.push(FamJob { lit: format!("a {} - {lt} {} c {} d", op1.text(), op2.text(), op3.text()),
                                  var: format!("a {} - zq {} c {} d", op1.text(), op2.text(), op3.text()), lit_sexpr: ls.to_string(), eval: None });
            }
        }
    }
    for op1 in ALL_OPS.iter() {
        for (l, v) in [(format!("a {}\n not b", op1.text()), format!("a {} not b", op1.text())),
                       (format!("a {}\n ( b )", op1.text()), format!("a {} ( b )", op1.text())),
                       (format!("a {}\n\n - x", op1.text()), format!("a {} - x", op1.text())),
                       (format!("not\n a {}\n - ( b )", op1.text()), format!("not a {} - ( b )", op1.text())),
                       (format!("f (\n - 2 {} c ,\n not b , [\n - x ] )", op1.text()), format!("f ( - 2 {} c , not b , [ - x ] )", op1.text()))] {
            // `var` here is the one-line spelling: same tree required
            fam.push(FamJob { lit: l, var: v, lit_sexpr: "zq".into(), eval: None });
        }
    }
    // evaluated instances (operands chosen so that the two possible groupings give different values)
    let int_ops = [Op::Add, Op::Sub, Op::Mul, Op::Div, Op::Mod, Op::Pow];
    let flt_ops = [Op::Add, Op::Sub, Op::Mul, Op::Div, Op::Pow];
    for op1 in int_ops { for op2 in int_ops { for (a, c) in [(9, 4), (17, 3), (100, 5), (7, 2)] { for l in [2, 5, 3] {
        let src = format!("{a} {} - {l} {} {c}", op1.text(), op2.text());
        fam.push(FamJob { lit: src.clone(), var: format!("{a} {} - zq {} {c}", op1.text(), op2.text()), lit_sexpr: format!("{l}"), eval: Some(src) });
    } } } }
    for op1 in flt_ops { for op2 in flt_ops { for (a, c) in [("9.0", "4.0"), ("1.5", "3.0")] {
        let src = format!("{a} {} - 2.5 {} {c}", op1.text(), op2.text());
        fam.push(FamJob { lit: src.clone(), var: format!("{a} {} - zq {} {c}", op1.text(), op2.text()), lit_sexpr: "f:2.5".into(), eval: Some(src) });
    } } }
    let fam_out = par_map(&fam, |j| {
        let (lw, le) = lex_words(&j.lit);
        let run = j.eval.as_ref().map(|s| run_program(&format!("println({s})\n")));
        (impl_answer(&j.lit), impl_answer(&j.var), lw, le, run)
    });
    for (j, (al, av, words, lex_errs, run)) in fam.iter().zip(fam_out) {
        ctx.count("stream:neg-literal-right-operand");
        let canon = |s: &str| s.replace("(neg 0)", "0");
        // (i) literal ↔ variable: the same tree under the substitution
        let subst = canon(&av.replace("zq", &j.lit_sexpr));
        let reference = reference_parse(&words);
        let min_unwritable = j.lit_sexpr == "9223372036854775808" && reference == "err";
        if !min_unwritable && canon(&al) != subst {
            ctx.spec_fail(format!("`{}` parses as {al} but `{}` (a variable in place of the literal) parses as {av}: a negative literal must group like a negated variable", j.lit, j.var));
        }
        // (ii) the reference parser (documented table; every `-` restarts at its own level)
        if canon(&al) != canon(&reference) {
            ctx.spec_fail(format!("`{}`: the documented table gives {reference}, the parser answered {al}", j.lit));
        }
        ctx.count(if reference.starts_with("ok") { "family:ok" } else { "family:err" });
        // (iii) the Lean model on the real token kinds
        if lex_errs == 0 { ctx.case(format!("pratt {} #neg-literal-family", words.join(" ")), al.clone()); }
        if let (Some(r), true) = (run, reference.starts_with("ok ")) {
            let mut p = RefParser::new(&words);
            if let Ok(t) = p.bp(0) {
                let got = match &r.outcome {
                    Outcome::Done => format!("ok {}", r.out.trim_end_matches('\n')),
                    Outcome::Error(k) => format!("err {k}"),
                    o => format!("other {}", o.tag()),
                };
                let want = match eval(&t) { Ok(v) => Some(format!("ok {}", render(&v))), Err(Stop::Err(k)) => Some(format!("err {k}")), Err(Stop::Unknown) => None };
                if let Some(w) = want {
                    ctx.count("family:evaluated");
                    if got != w { ctx.spec_fail(format!("`{}` evaluates to `{got}`; by the documented table ({}) it is `{w}`", j.lit, t.sexpr())); }
                }
            }
        }
    }

    // ---- operand forms outside the token-level model (named arguments, leading-dot variants, lambdas):
    //      Rust-side oracle only (fixed expected trees); they also exercise the hook's printer arms
    for (src, want) in [("f ( x = 1 , y = - 2 ^ 2 )", "ok (call f (named x 1) (named y (neg (pow 2 2))))"),
                        ("a + . some ( 3 ) * 2", "ok (add a (mul (call (dot some) 3) 2))"), (". none == b", "ok (eq (dot none) b)"),
                        ("x -> x + 1", "ok (other:lambda)"), ("g ( ( p , q ) -> p * q , 1 )", "ok (call g (other:lambda) 1)"),
                        ("- . v", "ok (neg (dot v))"), ("f ( k =\n - 3 )", "ok (call f (named k (neg 3)))")] {
        let got = impl_answer(src);
        ctx.count("probe:unmodelled-operand-forms");
        if got != want { ctx.spec_fail(format!("operand form {src:?}: parser answered {got}, expected {want}")); }
    }
    // ---- D111: a missing closing token is a diagnostic (the model has always answered `err` here)
    for src in ["foo ( 1 , 2", "[ 1 , 2", "( 1 + 2", "a [ 1"] {
        ctx.count("probe:D111");
        let got = impl_answer(src);
        if got != "err" { ctx.spec_fail(format!("D111 probe {src:?}: the closing token is missing, parser answered {got}")); }
        let (w, _) = lex_words(src);
        ctx.case(format!("pratt {} #D111", w.join(" ")), got);
    }
    // ---- hard regression probes for D85 (7fe8312) and the statement boundary
    for (src, want) in [("3 +\n -2 ^ 2", "ok (add 3 (neg (pow 2 2)))"), ("3 +\n -x", "ok (add 3 (neg x))"),
                        ("true and\n not b", "ok (and true (not b))"), ("1\n- x", "partial 1 1"), ("a\n( b )", "partial 1 a")] {
        let got = impl_answer(src);
        ctx.count("probe:D85");
        if got != want { ctx.spec_fail(format!("D85 probe {src:?}: parser answered {got}, expected {want}")); }
    }
    for (prog, want) in [("println(3 +\n -2 ^ 2)\n", "-1\n"), ("let x = 5\nlet p = 1\n-x\nprintln(p)\n", "1\n"),
                         ("let b = false\nprintln(true and\n not b)\n", "true\n"), ("let x = 4\nlet r =\n -x * 2\nprintln(r)\n", "-8\n")] {
        let r = run_program(prog);
        ctx.count("probe:D85");
        if r.outcome != Outcome::Done || r.out != want {
            ctx.spec_fail(format!("D85 probe {prog:?}: outcome {:?} output {:?}, expected {want:?}", r.outcome, r.out));
        }
    }

    let decls = prelude_decls();
    let results = par_map(&jobs, |j| {
        let ans = impl_answer(&j.src);
        let (words, lex_errs) = lex_words(&j.src);
        let run = if j.eval {
            Some(run_program(&match (j.kind, j.src.len() % 3) {
                ("typed-continuation", 0) => format!("{decls}let r9 =\n{}\nprintln(r9)\n", j.src),
                ("typed-continuation", 1) => format!("{decls}let r9 = match 0 {{ _ ->\n {} }}\nprintln(r9)\n", j.src),
                _ => format!("{decls}println({})\n", j.src),
            }))
        } else { None };
        (ans, words, lex_errs, run)
    });

    for (j, (ans, words, lex_errs, run)) in jobs.iter().zip(results) {
        ctx.count(&format!("stream:{}", j.kind));
        let class = ans.split(' ').next().unwrap_or("").to_string();
        ctx.count(&format!("parse:{class}"));
        if lex_errs == 0 {
            // the reference parser (documented table) on the same tokens
            let reference = reference_parse(&words).replace("(neg 0)", "0");
            if reference != ans.replace("(neg 0)", "0") {
                ctx.spec_fail(format!("`{}`: the documented table gives {reference}, the parser answered {ans}", j.src));
            }
            ctx.case(format!("pratt {} #{}", words.join(" "), j.kind), ans.clone());
        } else {
            ctx.count("skipped:lexer-diagnostic");
        }
        if let Some(t) = &j.tree {
            if j.minimal && lex_errs == 0 {
                // the harness's printer is the `printMinimal` the theorems are about
                let mut pw = vec![];
                t.prefix_words(&mut pw);
                ctx.case(format!("prattprint {} #printer", pw.join(" ")), words.join(" "));
            }
            ctx.count(&format!("depth:{}", t.depth()));
            match t { E::Bin(o, _, _) => ctx.count(&format!("top:{}", o.name())), E::Neg(_) => ctx.count("top:neg"),
                      E::Not(_) => ctx.count("top:not"), E::Atom(_) => ctx.count("top:atom"), _ => ctx.count("top:postfix/primary") }
            if j.src.contains('(') { ctx.count("has-parens"); }
            let want = format!("ok {}", t.sexpr());
            if ans != want {
                ctx.spec_fail(format!("`{}`: documented table groups it as {} but the parser answered {}", j.src, t.sexpr(), ans));
            }
            if let Some(r) = run {
                let got = match &r.outcome {
                    Outcome::Done => format!("ok {}", r.out.trim_end_matches('\n')),
                    Outcome::Error(k) => format!("err {k}"),
                    o => format!("other {}", o.tag()),
                };
                match eval(t) {
                    Ok(v) => {
                        ctx.count("eval:value");
                        let want = format!("ok {}", render(&v));
                        if got != want {
                            ctx.spec_fail(format!("`{}` evaluates to `{got}`; by the documented table ({}) it is `{want}`", j.src, t.sexpr()));
                        }
                    }
                    Err(Stop::Err(k)) => {
                        ctx.count(&format!("eval:err-{k}"));
                        let want = format!("err {k}");
                        if got != want {
                            ctx.spec_fail(format!("`{}` gives `{got}`; by the documented table ({}) it is `{want}`", j.src, t.sexpr()));
                        }
                    }
                    Err(Stop::Unknown) => ctx.count("eval:unspecified-skipped"),
                }
            }
        }
    }
    ctx.finish();
}
