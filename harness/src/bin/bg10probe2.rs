//! ad-hoc probe (bG10 scratch): dump the Debug AST of a file
use abra_core::{MockFileProvider, check_lsp};
fn main() {
    let path = std::env::args().nth(1).unwrap();
    let src = std::fs::read_to_string(path).unwrap();
    let a = check_lsp("main.abra", MockFileProvider::single_file(&src));
    println!("{}", a.verif_ast_debug(0).unwrap());
}
