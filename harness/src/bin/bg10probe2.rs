//! ad-hoc probe (bG10 scratch): errors + definition_at per offset for main.abra + lib1.abra in a directory
use abra_core::check_lsp;
fn main() {
    let dir = std::env::args().nth(1).unwrap();
    let main = std::fs::read_to_string(format!("{dir}/main.abra")).unwrap();
    let lib = std::fs::read_to_string(format!("{dir}/lib1.abra")).unwrap_or_default();
    let a = check_lsp("main.abra", vh::provider(&main, &[("lib1.abra".to_string(), lib)]));
    for e in a.errors() { println!("error: {} {:?}", e.message, e.range); }
    if std::env::args().nth(2).is_some() { println!("{}", a.verif_ast_debug(0).unwrap()); }
    for off in 0..main.len() {
        if let Some(d) = a.definition_at(0, off) { println!("{off} {:?} -> f{} {:?}", &main[off..off+1], d.file_id, d.range); }
    }
}
