//! C03 correspondence: every generated program (all tiers, plus a "nesting" stream that combines functions,
//! lambdas, tasks, loops and all assignment forms to depth 4) is given to the real checker; if `abra_core::check`
//! accepts it, `compile_bytecode` must return — a panic is a failing input of the property (`spec_fail`, shrunk).
//! For the compiled programs the analysis tables are tied to the model: per lambda/task (number of captures, number
//! of locals) read off the real unoptimised assembly against `Abra.Analysis` on the generator's resolved AST,
//! together with the model's verdict on the loop contexts and on the completeness of every offset table.
//! Also run: must-reject, parameter-assignment and loop-head programs (`loopctx …` requests), ten fixed programs, and the
//! template families of harness/src/bg9cov.rs that name C03 (Rust oracles: user-Index compound assignment, builtin /
//! namespace-qualified function values, size limits, capture-position family, regression programs).
#[path = "../bg9cov.rs"]
mod bg9cov;
#[path = "../progen.rs"]
mod progen;
use progen::run::*;
use progen::*;
use std::panic::{AssertUnwindSafe, catch_unwind};
use vh::*;

#[derive(Clone, Debug, PartialEq)]
enum Verdict {
    Rejected,
    Compiled,
    CheckPanic(String),
    CompilePanic(String),
    /// `check` accepted but `compile_bytecode` reported diagnostics
    Inconsistent(String),
}

fn verdict(src: &str) -> Verdict {
    let chk = catch_unwind(AssertUnwindSafe(|| abra_core::check("main.abra", provider(src, &[]))));
    match chk {
        Err(p) => return Verdict::CheckPanic(one_line(&panic_msg(p))),
        Ok(Err(_)) => return Verdict::Rejected,
        Ok(Ok(())) => {}
    }
    match catch_unwind(AssertUnwindSafe(|| abra_core::compile_bytecode("main.abra", provider(src, &[])))) {
        Err(p) => Verdict::CompilePanic(one_line(&panic_msg(p))),
        Ok(Err(e)) => Verdict::Inconsistent(one_line(&e.to_string())),
        Ok(Ok(_)) => Verdict::Compiled,
    }
}

fn shrink_crash(p: &Program, mut limit: usize) -> Program {
    let mut cur = p.clone();
    'outer: loop {
        for c in shrink_candidates(&cur) {
            if limit == 0 {
                break 'outer;
            }
            limit -= 1;
            if matches!(verdict(&program_src(&c)), Verdict::CompilePanic(_) | Verdict::CheckPanic(_) | Verdict::Inconsistent(_)) {
                cur = c;
                continue 'outer;
            }
        }
        break;
    }
    cur
}

/// hand-written nesting programs: the shapes named in the property statement
fn fixed_programs() -> Vec<(&'static str, String)> {
    vec![
        ("task-in-fn", "fn f(a: int) -> int {\n  task {\n    println(a)\n  }\n  a\n}\nprintln(f(1))\n".into()),
        ("lambda-in-lambda", "let k = 10\nlet f = (a: int) -> {\n  let g = (b: int) -> a + b + k\n  g(1)\n}\nprintln(f(5))\n".into()),
        ("task-in-lambda-in-fn", "fn f(a: int) -> int {\n  let g = (b: int) -> {\n    task {\n      println(a + b)\n    }\n    b\n  }\n  g(a)\n}\nprintln(f(2))\n".into()),
        ("lambda-in-task", "let k = 3\ntask {\n  let g = (b: int) -> b + k\n  println(g(1))\n}\nprintln(k)\n".into()),
        ("loop-in-lambda-in-loop", "var s = 0\nfor i in 3 {\n  let f = (a: int) -> {\n    var t = 0\n    for j in a {\n      if j == 1 { continue }\n      t = t + j\n    }\n    t\n  }\n  s = s + f(i + 2)\n}\nprintln(s)\n".into()),
        ("compound-forms", "type Bx = {\n  v: int\n}\nlet b = Bx(1)\nlet arr = [1, 2, 3]\nvar x = 5\nfn f() -> int {\n  0\n}\nx += 1\nx -= 1\nx *= 2\nx /= 2\nx %= 4\nb.v += 2\nb.v *= 3\narr[f()] += 4\narr[1] -= 1\narr[2] %= 2\nprintln(x)\nprintln(b.v)\nprintln(arr)\n".into()),
        ("let-in-scrutinee", "let r = match { let t = 1\n t } {\n  1 -> 10\n  _ -> 20\n}\nprintln(r)\n".into()),
        ("let-in-target", "let arr = [1, 2]\narr[{ let i = 1\n i }] = 5\nprintln(arr)\n".into()),
        ("capture-only-in-scrutinee", "let k = 1\nlet f = (a: int) -> match k {\n  1 -> a\n  _ -> 0\n}\nprintln(f(5))\n".into()),
        ("captured-target", "let arr = [1]\nlet f = (a: int) -> {\n  arr[0] = a\n  0\n}\nf(5)\nprintln(arr)\n".into()),
    ]
}

/// assignment to a captured variable: must be rejected with a diagnostic (D20, fixed by fdfd074)
fn must_reject() -> Vec<(String, String)> {
    let mut v = vec![];
    for op in ["=", "+=", "-=", "*=", "/=", "%="] {
        v.push((format!("lambda-captured-var {op}"), format!("var x = 10\nlet fc = (a: int) -> {{\n  x {op} 3\n  a\n}}\nfc(1)\nprintln(x)\n")));
        v.push((format!("task-captured-var {op}"), format!("var x = 10\ntask {{\n  x {op} 3\n}}\nprintln(x)\n")));
        v.push((format!("inner-lambda-outer-param {op}"), format!("let f = (p: int) -> {{\n  var q = p\n  let g = (b: int) -> {{\n    q {op} b\n    b\n  }}\n  g(1) + q\n}}\nprintln(f(2))\n")));
        v.push((format!("fn-param-in-lambda {op}"), format!("fn h(p: int) -> int {{\n  var r = p\n  let g = (b: int) -> {{\n    r {op} b\n    b\n  }}\n  g(1) + r\n}}\nprintln(h(2))\n")));
    }
    v
}

/// `break` / `continue` in every expression position that is inside a loop statement but not in its body (the
/// condition of a `while` as block / `if` / `match`, the iterable of a `for`), at top level and inside a function, a
/// lambda and a task, for the outermost loop of the body and for a nested one.  Built from the generator AST so that
/// the same program goes to the checker model (`loopctx`).
fn loop_head_programs() -> Vec<(String, Program)> {
    let b = |x: Expr| Box::new(x);
    let var = |x: &str| Expr::Var(x.to_string());
    let lt2 = || Expr::Bin(BinOp::Lt, Box::new(Expr::Var("k".into())), Box::new(Expr::Int(2)));
    let mut out = vec![];
    for (jn, jump) in [("break", Stmt::Break), ("continue", Stmt::Continue)] {
        for pos in ["while-cond-block", "while-cond-if", "while-cond-match", "for-iterable-block", "while-body", "for-body"] {
            for nested in [false, true] {
                for ctxname in ["main", "fn", "lambda", "task"] {
                    let bump = Stmt::Assign("k".into(), AsgOp::Add, Expr::Int(1));
                    let guard = |j: &Stmt| Stmt::Expr(Expr::If(b(var("cnd")), b(Expr::Block(vec![j.clone()])), b(Expr::Block(vec![]))));
                    let the_loop = match pos {
                        "while-cond-block" => Stmt::While(Expr::Block(vec![guard(&jump), Stmt::Expr(lt2())]), vec![bump.clone()]),
                        "while-cond-if" => Stmt::While(
                            Expr::If(b(var("cnd")), b(Expr::Block(vec![jump.clone(), Stmt::Expr(Expr::Bool(true))])), b(Expr::Block(vec![Stmt::Expr(lt2())]))),
                            vec![bump.clone()],
                        ),
                        "while-cond-match" => Stmt::While(
                            Expr::Match(
                                b(Expr::Int(1)),
                                vec![(Pat::Int(0), Expr::Block(vec![jump.clone(), Stmt::Expr(Expr::Bool(false))])), (Pat::Wild, lt2())],
                            ),
                            vec![bump.clone()],
                        ),
                        "for-iterable-block" => Stmt::For(Pat::Bind("it".into()), Expr::Block(vec![guard(&jump), Stmt::Expr(Expr::Int(2))]), vec![bump.clone()]),
                        "while-body" => Stmt::While(lt2(), vec![bump.clone(), guard(&jump)]),
                        _ => Stmt::For(Pat::Bind("it".into()), Expr::Int(2), vec![bump.clone(), guard(&jump)]),
                    };
                    let looped = if nested {
                        vec![Stmt::For(Pat::Bind("outer".into()), Expr::Int(2), vec![Stmt::Assign("k".into(), AsgOp::Set, Expr::Int(0)), the_loop])]
                    } else {
                        vec![the_loop]
                    };
                    let mut body = vec![
                        Stmt::Let(false, Pat::Bind("cnd".into()), None, Expr::Bool(false)),
                        Stmt::Let(true, Pat::Bind("k".into()), None, Expr::Int(0)),
                    ];
                    body.extend(looped);
                    let mut prog = Program { structs: vec![], enums: vec![], fns: vec![], main: vec![], final_ty: None };
                    match ctxname {
                        "main" => prog.main = body,
                        "fn" => {
                            body.push(Stmt::Expr(var("k")));
                            prog.fns.push(FnDef { name: "fnl".into(), params: vec![("n".into(), Ty::Int)], ret: Ty::Int, body: Expr::Block(body) });
                            prog.main = vec![Stmt::Expr(Expr::Print(b(Expr::Call("fnl".into(), vec![Expr::Int(1)]))))];
                        }
                        "lambda" => {
                            body.push(Stmt::Expr(var("k")));
                            prog.main = vec![
                                Stmt::Let(false, Pat::Bind("lm".into()), None, Expr::Lam(vec![("a".into(), Ty::Int)], b(Expr::Block(body)))),
                                Stmt::Expr(Expr::Print(b(Expr::CallV(b(var("lm")), vec![Expr::Int(1)])))),
                            ];
                        }
                        _ => prog.main = vec![Stmt::Expr(Expr::Task(b(Expr::Block(body))))],
                    }
                    out.push((format!("{jn}/{pos}/{}/{ctxname}", if nested { "nested" } else { "outermost" }), prog));
                }
            }
        }
    }
    out
}

/// assignment (plain and compound) to a PARAMETER: of the enclosing function / lambda from inside a nested lambda or
/// task (must be rejected with the captured-variable diagnostic; `read` = the parameter is also read there), and to the
/// function's / lambda's own parameter (control: accepted, compiles, prints the expected value).  Built from the
/// generator AST so that the checker model (`loopctx`) sees the same program.
fn param_assign_programs() -> Vec<(String, Program, Option<String>)> {
    let b = |x: Expr| Box::new(x);
    let var = |x: &str| Expr::Var(x.to_string());
    let mut out = vec![];
    for (opn, op) in [("set", AsgOp::Set), ("add", AsgOp::Add), ("sub", AsgOp::Sub), ("mul", AsgOp::Mul), ("div", AsgOp::Div), ("mod", AsgOp::Mod)] {
        for read in [false, true] {
            let rhs = if read { Expr::Bin(BinOp::Add, b(var("p")), b(var("bb"))) } else { var("bb") };
            let inner_body = |tail: Expr| Expr::Block(vec![Stmt::Assign("p".into(), op, rhs.clone()), Stmt::Expr(tail)]);
            let inner_lam = Expr::Lam(vec![("bb".into(), Ty::Int)], b(inner_body(var("bb"))));
            let outer_body = vec![
                Stmt::Let(false, Pat::Bind("g".into()), None, inner_lam.clone()),
                Stmt::Expr(Expr::Bin(BinOp::Add, b(Expr::CallV(b(var("g")), vec![Expr::Int(1)])), b(var("p")))),
            ];
            let mk = |fns: Vec<FnDef>, main: Vec<Stmt>| Program { structs: vec![], enums: vec![], fns, main, final_ty: None };
            // enclosing function's parameter, from a lambda
            out.push((
                format!("fn-param-from-lambda/{opn}/{}", if read { "read" } else { "write-only" }),
                mk(
                    vec![FnDef { name: "fnh".into(), params: vec![("p".into(), Ty::Int)], ret: Ty::Int, body: Expr::Block(outer_body.clone()) }],
                    vec![Stmt::Expr(Expr::Print(b(Expr::Call("fnh".into(), vec![Expr::Int(2)]))))],
                ),
                None,
            ));
            // enclosing lambda's parameter, from an inner lambda
            out.push((
                format!("lambda-param-from-lambda/{opn}/{}", if read { "read" } else { "write-only" }),
                mk(
                    vec![],
                    vec![
                        Stmt::Let(false, Pat::Bind("f".into()), None, Expr::Lam(vec![("p".into(), Ty::Int)], b(Expr::Block(outer_body.clone())))),
                        Stmt::Expr(Expr::Print(b(Expr::CallV(b(var("f")), vec![Expr::Int(2)])))),
                    ],
                ),
                None,
            ));
            // enclosing function's parameter, from a task
            let task_rhs = if read { Expr::Bin(BinOp::Add, b(var("p")), b(Expr::Int(3))) } else { Expr::Int(3) };
            out.push((
                format!("fn-param-from-task/{opn}/{}", if read { "read" } else { "write-only" }),
                mk(
                    vec![FnDef {
                        name: "fnh".into(),
                        params: vec![("p".into(), Ty::Int)],
                        ret: Ty::Int,
                        body: Expr::Block(vec![
                            Stmt::Expr(Expr::Task(b(Expr::Block(vec![Stmt::Assign("p".into(), op, task_rhs)])))),
                            Stmt::Expr(var("p")),
                        ]),
                    }],
                    vec![Stmt::Expr(Expr::Print(b(Expr::Call("fnh".into(), vec![Expr::Int(2)]))))],
                ),
                None,
            ));
        }
        // controls: a function / lambda assigns its OWN parameter: p0 = 7, rhs = 2
        let expect = match op {
            AsgOp::Set => 2,
            AsgOp::Add => 9,
            AsgOp::Sub => 5,
            AsgOp::Mul => 14,
            AsgOp::Div => 3,
            AsgOp::Mod => 1,
        };
        let own_body = Expr::Block(vec![Stmt::Assign("p".into(), op, Expr::Int(2)), Stmt::Expr(var("p"))]);
        out.push((
            format!("own-fn-param/{opn}"),
            Program {
                structs: vec![],
                enums: vec![],
                fns: vec![FnDef { name: "fnh".into(), params: vec![("p".into(), Ty::Int)], ret: Ty::Int, body: own_body.clone() }],
                main: vec![Stmt::Expr(Expr::Print(b(Expr::Call("fnh".into(), vec![Expr::Int(7)]))))],
                final_ty: None,
            },
            Some(format!("{expect}\n")),
        ));
        out.push((
            format!("own-lambda-param/{opn}"),
            Program {
                structs: vec![],
                enums: vec![],
                fns: vec![],
                main: vec![
                    Stmt::Let(false, Pat::Bind("f".into()), None, Expr::Lam(vec![("p".into(), Ty::Int)], b(own_body))),
                    Stmt::Expr(Expr::Print(b(Expr::CallV(b(var("f")), vec![Expr::Int(7)])))),
                ],
                final_ty: None,
            },
            Some(format!("{expect}\n")),
        ));
    }
    out
}

fn main() {
    let mut ctx = Ctx::from_env("C03");
    if std::env::var("VERIF_DEBUG").is_ok() {
        std::panic::set_hook(Box::new(|i| eprintln!("PANIC: {i}")));
    }
    let base = probe_shapes(&mut ctx);
    // coverage-guided template families with their own oracles (harness/src/bg9cov.rs)
    bg9cov::run_templates(&mut ctx, "C03");

    // assignment to parameters: captured => diagnostic; own => accepted, compiles and computes the right value
    let pa = param_assign_programs();
    let pv = par_map(&pa, |(_, p, expect)| {
        let src = program_src(p);
        let v = verdict(&src);
        let out = if expect.is_some() && v == Verdict::Compiled { Some(run_program(&src)) } else { None };
        (v, out)
    });
    for ((name, p, expect), (v, out)) in pa.iter().zip(pv) {
        let kind = name.split('/').next().unwrap_or("");
        let src = program_src(p);
        match (expect, &v) {
            (None, Verdict::Rejected) => {
                ctx.count(&format!("param-assign:{kind}:rejected"));
                ctx.case(format!("{} #{name}", loopctx_request(p)), "reject");
            }
            (None, _) => {
                ctx.count(&format!("param-assign:{kind}:NOT-REJECTED"));
                ctx.spec_fail(format!("{name}: assignment to a captured parameter must be rejected with a diagnostic, got {v:?}\n{src}"));
            }
            (Some(e), Verdict::Compiled) => {
                let r = out.unwrap();
                if r.outcome == Outcome::Done && &r.out == e {
                    ctx.count(&format!("param-assign:{kind}:accepted-works"));
                    ctx.case(format!("{} #{name}", loopctx_request(p)), "accept");
                } else {
                    ctx.count(&format!("param-assign:{kind}:WRONG"));
                    ctx.spec_fail(format!("{name}: assignment to the function's own parameter: outcome {} output {:?}, expected {:?}\n{src}", r.outcome.tag(), r.out, e));
                }
            }
            (Some(_), _) => {
                ctx.count(&format!("param-assign:{kind}:NOT-ACCEPTED"));
                ctx.spec_fail(format!("{name}: assignment to the function's own parameter must be accepted and compile, got {v:?}\n{src}"));
            }
        }
    }

    // loop heads: whatever the checker accepts must compile, what it rejects must be a diagnostic; the verdict
    // itself is compared with the checker model
    let lh = loop_head_programs();
    let lv = par_map(&lh, |(_, p)| verdict(&program_src(p)));
    for ((name, p), v) in lh.iter().zip(lv) {
        let pos = name.split('/').nth(1).unwrap_or("");
        match &v {
            Verdict::Compiled => {
                ctx.count(&format!("loop-head:{pos}:accepted-compiled"));
                ctx.case(format!("{} #{name}", loopctx_request(p)), "accept");
            }
            Verdict::Rejected => {
                ctx.count(&format!("loop-head:{pos}:rejected"));
                ctx.case(format!("{} #{name}", loopctx_request(p)), "reject");
            }
            _ => {
                ctx.count(&format!("loop-head:{pos}:PANIC"));
                ctx.spec_fail(format!("{name}: accepted by the checker but the compiler does not return (or the checker panics): {v:?}\n{}", program_src(p)));
            }
        }
    }

    for (name, src) in must_reject() {
        let v = verdict(&src);
        ctx.count(&format!("must-reject:{}", match &v { Verdict::Rejected => "rejected", Verdict::Compiled => "COMPILED", _ => "PANIC" }));
        if v != Verdict::Rejected {
            ctx.spec_fail(format!("{name}: assignment to a captured variable must be rejected with a diagnostic, got {v:?}\n{src}"));
        }
    }

    for (name, src) in fixed_programs() {
        let v = verdict(&src);
        ctx.count(&format!("fixed:{name}:{}", match &v { Verdict::Compiled => "compiled", Verdict::Rejected => "rejected", _ => "PANIC" }));
        if !matches!(v, Verdict::Compiled | Verdict::Rejected) {
            ctx.spec_fail(format!("{name}: accepted by the checker but the compiler does not return: {v:?}\n{src}"));
        }
    }

    let per = if ctx.quick() { 90 } else { 2500 };
    struct Job {
        tier: u8,
        nesting: bool,
        prog: Program,
        src: String,
    }
    let mut jobs = vec![];
    for (tier, nesting) in [(0u8, false), (1, false), (2, false), (3, false), (3, true), (2, true)] {
        for k in 0..per {
            let mut r = Rng::new(ctx.rng.next());
            let o = GenOpts {
                tier,
                stmts: 4 + (k % 9),
                budget: 50 + (k as i32 % 6) * 15,
                nesting,
                lambda_boost: nesting && tier >= 3,
                no_unit_vars: nesting,
                // compile-only: DepthSafe does not matter here
                depth_safe: k % 3 != 0,
                ..base.clone()
            };
            let (prog, hist) = generate(&mut r, o);
            if nesting {
                for (f, c) in hist {
                    if ["task", "lambda", "lambda_nested", "while", "jump_in_while_cond", "jump_in_for_iterable", "for_int", "for_array", "break", "continue", "assign_compound", "field_compound", "index_compound", "return"].contains(&f) {
                        *ctx.hist.entry(format!("gen:{f}")).or_insert(0) += c;
                    }
                }
            }
            let src = program_src(&prog);
            jobs.push(Job { tier, nesting, prog, src });
        }
    }
    let verdicts = par_map(&jobs, |j| (verdict(&j.src), if j.nesting { real_assembly(&j.src).ok() } else { None }));
    let mut crashes = vec![];
    for (i, (j, (v, asm))) in jobs.iter().zip(verdicts.iter()).enumerate() {
        let key = format!("F{}{}", j.tier, if j.nesting { "n" } else { "" });
        match v {
            Verdict::Compiled => {
                ctx.count(&format!("{key}:accepted-compiled"));
                if let Some(lines) = asm {
                    ctx.case(format!("{} #{key}.{i}", analysis_request(&j.prog)), format!("{} loops=ok table=ok", closures_of_assembly(lines)));
                }
            }
            Verdict::Rejected => ctx.count(&format!("{key}:generator-rejected")),
            _ => {
                ctx.count(&format!("{key}:ACCEPTED-BUT-PANICS"));
                crashes.push(i);
            }
        }
    }
    let shrunk: Vec<(usize, Program)> = par_map(&crashes.iter().take(6).cloned().collect::<Vec<_>>(), |&i| (i, shrink_crash(&jobs[i].prog, 300)));
    for (i, p) in shrunk {
        let src = program_src(&p);
        ctx.spec_fail(format!("accepted by the checker but the compiler does not return: {:?} (originally {:?}); shrunk program:\n{}", verdict(&src), verdicts[i].0, src));
    }
    for &i in crashes.iter().skip(6) {
        ctx.spec_fail(format!("accepted by the checker but the compiler does not return: {:?}\n{}", verdicts[i].0, jobs[i].src));
    }
    ctx.finish();
}
