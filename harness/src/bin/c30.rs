//! C30 correspondence: literals spelled by the generator (ints with `_`, floats, strings in the three
//! quote styles with escapes and indentation) → the real lexer (`verif_lex` payload and spans) vs. the
//! Lean lexer model, the generator's `escape` vs. the Lean `escape`, the parser's sign folding /
//! range check vs. `intLiteral`, and the value printed by a running program vs. the intended value.
#[path = "../frontend.rs"]
#[allow(dead_code)]
mod frontend;
use frontend::*;
use vh::*;

fn with_underscores(rng: &mut Rng, digits: &str) -> String {
    // `_` may follow any digit (also doubled, also trailing); the first character stays a digit
    let mut s = String::new();
    for c in digits.chars() {
        s.push(c);
        match rng.below(8) {
            0 => s.push('_'),
            1 if rng.chance(1, 4) => s.push_str("__"),
            _ => {}
        }
    }
    s
}

const ALPHABET: [&str; 30] = ["a", "b", "z", "Q", "0", "7", " ", " ", "  ", "\"", "\"", "'", "'", "\\", "\\", "\n", "\n", "\t", "\r",
    "\u{1}", "\u{7f}", "\u{1b}", "é", "漢", "😀", "\u{a0}", "\u{2028}", "x41", "n", "{"];

fn gen_string(rng: &mut Rng, max: u64) -> String {
    let n = rng.below(max + 1);
    let mut s = String::new();
    for _ in 0..n {
        s.push_str(ALPHABET[rng.below(ALPHABET.len() as u64) as usize]);
    }
    s
}

fn is_blank(line: &str) -> bool { line.chars().all(|c| c.is_whitespace()) }

/// Spell `s` as a triple-quoted literal with a random layout; `None` when the chosen layout cannot
/// express `s` (leading blank lines etc.) — the caller falls back to another spelling.
/// Rules the layouts rely on (pinned tests `multiline_string_*`): a whitespace-only first line and a
/// whitespace-only closing line are dropped, line 0 after the opener is kept verbatim, the other lines
/// lose the common indentation of the non-blank ones, lines are joined by `\n`.
fn spell_triple(rng: &mut Rng, s: &str) -> Option<(String, String)> {
    let lines: Vec<&str> = s.split('\n').collect();
    let esc: Vec<String> = lines.iter().map(|l| escape('t', l)).collect();
    let blank: Vec<bool> = esc.iter().map(|l| is_blank(l)).collect();
    let ind_n = rng.below(7) as usize;
    let tabs = rng.chance(1, 4);
    let ind: String = if tabs { ["\t", "\t\t", " \t", "\t "][ind_n % 4].to_string() } else { " ".repeat(ind_n) };
    let tag = |name: &str| format!("{name}{}", if tabs { "-tabs" } else { "" });
    let layout = rng.below(4);
    // the common indentation of the indented non-blank lines must be exactly `ind`: one of them must
    // start with a character that is neither space nor tab
    let leading_ws = |l: &str| l.starts_with(' ') || l.starts_with('\t');
    let anchors = |from: usize| esc[from..].iter().zip(&blank[from..]).any(|(l, b)| !*b && !leading_ws(l));
    let all_blank = |from: usize| blank[from..].iter().all(|b| *b);
    match layout {
        0 => {
            // block: opener, every line indented, closer on its own line
            if blank[0] || !anchors(0) { return None; }
            let mut t = String::from("\"\"\"\n");
            for l in &esc { t.push_str(&ind); t.push_str(l); t.push('\n'); }
            t.push_str(&" ".repeat(rng.below(5) as usize));
            t.push_str("\"\"\"");
            Some((t, tag("triple-block")))
        }
        1 => {
            // opener residue + indented rest, closer inline after the last line
            let last = esc.len() - 1;
            if lines.len() < 2 || blank[0] || blank[last] || esc[last].ends_with('"') || !anchors(1) { return None; }
            let mut t = format!("\"\"\"{}\n", esc[0]);
            for (i, l) in esc.iter().enumerate().skip(1) {
                t.push_str(&ind); t.push_str(l);
                if i < last { t.push('\n'); }
            }
            t.push_str("\"\"\"");
            Some((t, tag("triple-residue-inline")))
        }
        2 => {
            // opener residue + indented rest, closer on its own line
            if lines.len() < 2 || blank[0] { return None; }
            let mut t = format!("\"\"\"{}\n", esc[0]);
            if all_blank(1) {
                // only blank lines follow: nothing determines an indentation, they are kept verbatim
                for l in esc.iter().skip(1) { t.push_str(l); t.push('\n'); }
                t.push_str(&ind);
                t.push_str("\"\"\"");
                return Some((t, tag("triple-residue-blank-tail")));
            }
            if !anchors(1) { return None; }
            for l in esc.iter().skip(1) { t.push_str(&ind); t.push_str(l); t.push('\n'); }
            t.push_str(&ind);
            t.push_str("\"\"\"");
            Some((t, tag("triple-residue-block")))
        }
        _ => {
            // single-line form (newlines spelled `\\n`)
            let e = escape('t', s);
            if is_blank(&e) || e.ends_with('"') { return None; }
            Some((format!("\"\"\"{e}\"\"\""), "triple-inline".to_string()))
        }
    }
}

/// The indentation rule of triple-quoted literals, stated directly (independent of the Lean model):
/// measure = 1 per space, 4 per tab over the leading blanks; the common measure M is the minimum over
/// the non-blank lines; every line loses leading blanks until M columns are gone (a tab counts 4 and is
/// removed whole); lines are joined by `\n`.
fn measure(line: &str) -> usize {
    line.chars().take_while(|c| *c == ' ' || *c == '\t').map(|c| if c == ' ' { 1 } else { 4 }).sum()
}
fn strip_cols(line: &str, m: usize) -> &str {
    let mut gone = 0;
    let mut idx = 0;
    for (i, c) in line.char_indices() {
        if gone >= m { idx = i; break; }
        match c { ' ' => gone += 1, '\t' => gone += 4, _ => { idx = i; break; } }
        idx = i + c.len_utf8();
    }
    &line[idx..]
}
fn dedent_value(lines: &[String]) -> String {
    let m = lines.iter().filter(|l| !is_blank(l)).map(|l| measure(l)).min().unwrap_or(0);
    lines.iter().map(|l| strip_cols(l, m).to_string()).collect::<Vec<_>>().join("\n")
}
fn all_ws(n: usize) -> Vec<String> {
    // every string over {space, tab} of length <= n
    let mut v = vec![String::new()];
    let mut last = vec![String::new()];
    for _ in 0..n {
        let mut next = vec![];
        for w in &last { next.push(format!("{w} ")); next.push(format!("{w}\t")); }
        v.extend(next.iter().cloned());
        last = next;
    }
    v
}

/// inverse of `escape('t', ·)` on texts the generator produced (only the printer's own escapes occur)
fn decode_escapes(raw: &str) -> String {
    let cs: Vec<char> = raw.chars().collect();
    let mut o = String::new();
    let mut i = 0;
    while i < cs.len() {
        if cs[i] == '\\' && i + 1 < cs.len() {
            match cs[i + 1] {
                'n' => { o.push('\n'); i += 2; }
                't' => { o.push('\t'); i += 2; }
                'r' => { o.push('\r'); i += 2; }
                '"' => { o.push('"'); i += 2; }
                '\'' => { o.push('\''); i += 2; }
                '\\' => { o.push('\\'); i += 2; }
                'x' if i + 3 < cs.len() => {
                    let v = u8::from_str_radix(&format!("{}{}", cs[i + 2], cs[i + 3]), 16).unwrap_or(b'?');
                    o.push(v as char); i += 4;
                }
                c => { o.push(c); i += 2; }
            }
        } else { o.push(cs[i]); i += 1; }
    }
    o
}

fn run_print(lit: &str) -> String {
    let r = run_program(&format!("print({lit})\n"));
    match &r.outcome {
        Outcome::Done => format!("ok {}", r.out),
        Outcome::Rejected(_) => "rejected".into(),
        o => format!("other {}", o.tag()),
    }
}

enum Job {
    Int { neg: bool, digits: String, lit: String },
    Float { lit: String, clean: String },
    Str { s: String, lit: String, style: String, q: char },
    Raw { lit: String },
    /// a literal in PATTERN position: `match <value> { <pattern> -> "hit"  _ -> "miss" }`
    Pat { kind: &'static str, value: String, pattern: String, want: String, model_req: Option<String> },
    /// triple-quoted literal with per-line indentation; `raw` = expected text before escape decoding
    Dedent { lit: String, raw: String },
    /// a program behind a `#!` line
    Shebang { src: String, want: String },
}

fn main() {
    let mut ctx = Ctx::from_env("C30");
    let quick = ctx.quick();
    let (n_int, n_float, n_str, n_raw) = if quick { (500, 300, 900, 600) } else { (10000, 2000, 12000, 6000) };
    let mut jobs: Vec<Job> = vec![];

    // ---- integers: boundaries first (magnitude, sign), then random
    let mut mags: Vec<u128> = vec![0, 1, 7, 9, 10, 99, 100, 255, 256, 65535, 65536, 2147483647, 2147483648, 4294967295, 4294967296,
        9007199254740992, 9007199254740993, 999999999999999999, 1000000000000000000, 9223372036854775806, 9223372036854775807,
        9223372036854775808, 9223372036854775809, 18446744073709551615, 18446744073709551616, 99999999999999999999,
        340282366920938463463374607431768211455];
    for _ in 0..n_int {
        let m = match ctx.rng.below(5) {
            0 => ctx.rng.below(1000) as u128,
            1 => (ctx.rng.next() >> ctx.rng.below(64)) as u128,
            2 => ctx.rng.next() as u128 + (1u128 << 62),          // around the boundary, both sides
            3 => (1u128 << 63) - 50 + ctx.rng.below(100) as u128,
            _ => (ctx.rng.next() as u128) * (1 + ctx.rng.below(5) as u128),
        };
        mags.push(m);
    }
    for (i, m) in mags.iter().enumerate() {
        for neg in [false, true] {
            if i >= 27 && ctx.rng.chance(1, 2) != neg { continue; } // random part: one sign each
            let mut digits = format!("{m}");
            if ctx.rng.chance(1, 6) { digits = format!("{}{digits}", "0".repeat(1 + ctx.rng.below(3) as usize)); }
            let spelled = with_underscores(&mut ctx.rng, &digits);
            let lit = if neg { format!("-{spelled}") } else { spelled };
            jobs.push(Job::Int { neg, digits, lit });
        }
    }
    // ---- floats
    for _ in 0..n_float {
        let wide = ctx.rng.chance(1, 5);
        let nd = 1 + ctx.rng.below(if wide { 25 } else { 8 });
        let wide = ctx.rng.chance(1, 5);
        let nf = ctx.rng.below(if wide { 25 } else { 9 });
        let ip: String = (0..nd).map(|_| char::from(b'0' + ctx.rng.below(10) as u8)).collect();
        let fp: String = (0..nf).map(|_| char::from(b'0' + ctx.rng.below(10) as u8)).collect();
        let clean = format!("{ip}.{fp}");
        let fps = if fp.is_empty() { String::new() } else { with_underscores(&mut ctx.rng, &fp) };
        let lit = format!("{}.{}", with_underscores(&mut ctx.rng, &ip), fps);
        let neg = ctx.rng.chance(1, 4);
        jobs.push(Job::Float { lit: if neg { format!("-{lit}") } else { lit }, clean: if neg { format!("-{clean}") } else { clean } });
    }
    for (lit, clean) in [("0.1", "0.1"), ("1.", "1."), ("0.30000000000000004", "0.30000000000000004"),
        ("9007199254740993.0", "9007199254740993.0"), ("4.35", "4.35"), ("2.675", "2.675")] {
        jobs.push(Job::Float { lit: lit.into(), clean: clean.into() });
    }
    for x in [f64::MAX, f64::MIN_POSITIVE, 5e-324, 2.2250738585072011e-308, 1e23, 8.41e21, 0.1 + 0.2] {
        let lit = format!("{x:.340}");
        let lit = lit.trim_end_matches('0').to_string();
        let lit = if lit.ends_with('.') { format!("{lit}0") } else { lit };
        jobs.push(Job::Float { clean: lit.clone(), lit });
    }
    // ---- strings in the three styles
    for i in 0..n_str {
        let s = gen_string(&mut ctx.rng, if i % 5 == 0 { 40 } else { 12 });
        match i % 3 {
            0 => jobs.push(Job::Str { lit: format!("'{}'", escape('s', &s)), s, style: "single".into(), q: 's' }),
            1 => jobs.push(Job::Str { lit: format!("\"{}\"", escape('d', &s)), s, style: "double".into(), q: 'd' }),
            _ => {
                // try a few layouts; a text no triple-quoted layout can express is spelled with `"`
                let mut done = false;
                for _ in 0..4 {
                    if let Some((lit, style)) = spell_triple(&mut ctx.rng, &s) {
                        jobs.push(Job::Str { lit, s: s.clone(), style, q: 't' });
                        done = true;
                        break;
                    }
                }
                if !done {
                    jobs.push(Job::Str { lit: format!("\"{}\"", escape('d', &s)), s, style: "double(fallback)".into(), q: 'd' });
                }
            }
        }
    }
    // ---- raw literal texts: bad escapes, unterminated literals, stray quotes (lexer error branches)
    const RAW: [&str; 24] = ["\\", "\\", "\\x", "\\x4", "\\x41", "\\xZ1", "\\x+5", "\\q", "\\n", "\\\"", "\\'", "\"", "'", "\"\"\"", "a", "é", " ", "\n",
        "\t", "  ", "\n  ", "\\\\", "0", "x"];
    for i in 0..n_raw {
        let n = ctx.rng.below(10);
        let mut body = String::new();
        for _ in 0..n { body.push_str(RAW[ctx.rng.below(RAW.len() as u64) as usize]); }
        let lit = match i % 4 {
            0 => format!("\"{body}\""),
            1 => format!("'{body}'"),
            2 => format!("\"\"\"{body}\"\"\""),
            _ => format!("\"{body}"),
        };
        jobs.push(Job::Raw { lit });
    }
    // ---- the shapes of D40 (only blank lines after line 0) and D42 (tab indentation), fixed spellings
    jobs.push(Job::Str { s: "abc\n".into(), lit: "\"\"\"abc\n\n\"\"\"".into(), style: "triple-residue-blank-tail".into(), q: 't' });
    jobs.push(Job::Str { s: "hello\nworld".into(), lit: "\"\"\"\n\thello\n\tworld\n\t\"\"\"".into(), style: "triple-block-tabs".into(), q: 't' });
    jobs.push(Job::Str { s: "hello\n  world".into(), lit: "\"\"\"\n\thello\n\t  world\n\"\"\"".into(), style: "triple-block-tabs".into(), q: 't' });

    // ---- triple-quoted literals whose lines are indented INDEPENDENTLY by arbitrary mixes of spaces and
    //      tabs (space before tab, tab before space, ...), incl. whitespace-only lines and the closing line
    {
        let small = all_ws(3);           // 15 strings
        let medium = all_ws(4);          // 31 strings
        let mut lits: Vec<(Vec<String>, String)> = vec![];
        // exhaustive pairs of short indentations
        for w1 in &small { for w2 in &small { lits.push((vec![format!("{w1}x"), format!("{w2}y")], "    ".into())); } }
        // a least-indented line of every shape against lines indented at least as far
        for w1 in &medium {
            let m = measure(w1);
            for w2 in [w1.clone(), " ".repeat(m), " ".repeat(m + 2), format!("{w1} "), "\t\t".to_string(), format!("{w1}\t")] {
                lits.push((vec![format!("{w1} x"), format!("{w2}y"), format!("{w1}")], w1.clone()));
                lits.push((vec![format!("{w1}x é"), String::new(), format!("{w2} y")], String::new()));
            }
        }
        let n_rand = if quick { 300 } else { 6000 };
        for _ in 0..n_rand {
            let n = 1 + ctx.rng.below(4) as usize;
            let mut ls = vec![];
            for k in 0..n {
                let wl = ctx.rng.below(7) as usize;
                let w: String = (0..wl).map(|_| if ctx.rng.chance(1, 2) { ' ' } else { '\t' }).collect();
                let body = if k > 0 && ctx.rng.chance(1, 5) { String::new() } else { escape('t', &gen_string(&mut ctx.rng, 4).replace('\n', "n")) };
                ls.push(format!("{w}{body}"));
            }
            let cw: String = (0..ctx.rng.below(5)).map(|_| if ctx.rng.chance(1, 2) { ' ' } else { '\t' }).collect();
            lits.push((ls, cw));
        }
        for (ls, close_ws) in lits {
            // block layout; the first content line must not be blank (leading blank lines are dropped),
            // no line may end in `"` directly before a closer (not the case here: closer on its own line)
            if ls.is_empty() || is_blank(&ls[0]) { continue; }
            let lit = format!("\"\"\"\n{}\n{close_ws}\"\"\"", ls.join("\n"));
            // expected value by the rule above, then escape-decoded the same way the generator encoded
            let raw = dedent_value(&ls);
            jobs.push(Job::Dedent { lit, raw });
        }
    }
    // ---- literals in pattern position (parse_match_pattern has its own IntLit/FloatLit/StringLit arms)
    let n_pat = if quick { 120 } else { 2000 };
    let pat_mags: Vec<u128> = vec![0, 7, 1000, 4294967296, 9223372036854775806, 9223372036854775807, 9223372036854775808, 18446744073709551616, 99999999999999999999];
    for k in 0..n_pat {
        let m = if k < pat_mags.len() { pat_mags[k] } else { match ctx.rng.below(3) { 0 => ctx.rng.below(100000) as u128, 1 => (ctx.rng.next() >> 1) as u128, _ => (1u128 << 63) - 3 + ctx.rng.below(6) as u128 } };
        let digits = format!("{m}");
        let pattern = with_underscores(&mut ctx.rng, &digits);
        let in_range = m <= i64::MAX as u128;
        let value = if in_range { digits.clone() } else { "5".into() };
        jobs.push(Job::Pat { kind: "int", value: value.clone(), pattern, want: if in_range { "ok hit".into() } else { "rejected".into() },
                             model_req: Some(format!("intlit 0 {digits}")) });
        if in_range && m > 0 {
            let miss = with_underscores(&mut ctx.rng, &format!("{}", m - 1));
            jobs.push(Job::Pat { kind: "int-miss", value, pattern: miss, want: "ok miss".into(), model_req: None });
        }
    }
    for _ in 0..(n_pat / 3) {
        let ip: String = (0..1 + ctx.rng.below(6)).map(|_| char::from(b'0' + ctx.rng.below(10) as u8)).collect();
        let fp: String = (0..1 + ctx.rng.below(6)).map(|_| char::from(b'0' + ctx.rng.below(10) as u8)).collect();
        let pattern = format!("{}.{}", with_underscores(&mut ctx.rng, &ip), with_underscores(&mut ctx.rng, &fp));
        jobs.push(Job::Pat { kind: "float", value: format!("{ip}.{fp}"), pattern, want: "ok hit".into(), model_req: None });
    }
    for i in 0..(n_pat / 2) {
        let s = gen_string(&mut ctx.rng, 10);
        let (qv, qp) = if i % 2 == 0 { ('s', 'd') } else { ('d', 's') };
        let spell = |q: char, t: &str| if q == 's' { format!("'{}'", escape('s', t)) } else { format!("\"{}\"", escape('d', t)) };
        jobs.push(Job::Pat { kind: "string", value: spell(qv, &s), pattern: spell(qp, &s), want: "ok hit".into(), model_req: None });
        jobs.push(Job::Pat { kind: "string-miss", value: spell(qv, &s), pattern: spell(qp, &format!("{s}\u{e9}")), want: "ok miss".into(), model_req: None });
    }
    // ---- shebang first line (lexer: skipped up to the line break), also with non-ASCII text in it
    for (i, line) in ["#!/usr/bin/env abra", "#!", "#! é 漢 \"quoted\" /* x", "#!/bin/abra -x // c"].iter().enumerate() {
        let s = gen_string(&mut ctx.rng, 8);
        let src = format!("{line}\nprint(\"{}\")\n", escape('d', &s));
        jobs.push(Job::Shebang { src, want: format!("ok {s}") });
        if i == 0 { jobs.push(Job::Shebang { src: "#!only a shebang line".into(), want: "ok ".into() }); }
    }

    struct Out { lex: String, run: Option<String> }
    let outs = par_map(&jobs, |j| match j {
        Job::Int { lit, .. } | Job::Float { lit, .. } | Job::Str { lit, .. } =>
            Out { lex: impl_lex(lit, true), run: Some(run_print(lit)) },
        Job::Raw { lit } => Out { lex: impl_lex(lit, true), run: None },
        Job::Pat { value, pattern, .. } => {
            let src = format!("let v = {value}\nprint(match v {{\n  {pattern} -> \"hit\"\n  _ -> \"miss\"\n}})\n");
            let r = run_program(&src);
            let got = match &r.outcome { Outcome::Done => format!("ok {}", r.out), Outcome::Rejected(_) => "rejected".into(), o => format!("other {}", o.tag()) };
            Out { lex: impl_lex(pattern, true), run: Some(got) }
        }
        Job::Dedent { lit, .. } => Out { lex: impl_lex(lit, true), run: Some(run_print(lit)) },
        Job::Shebang { src, .. } => {
            let r = run_program(src);
            let got = match &r.outcome { Outcome::Done => format!("ok {}", r.out), Outcome::Rejected(_) => "rejected".into(), o => format!("other {}", o.tag()) };
            Out { lex: impl_lex(src, true), run: Some(got) }
        }
    });

    for (j, o) in jobs.iter().zip(outs) {
        match j {
            Job::Int { neg, digits, lit } => {
                ctx.count("int");
                ctx.case(format!("lex {} #int", hex_str(lit)), o.lex.clone());
                let m: u128 = digits.parse().unwrap();
                let limit = if *neg { 1u128 << 63 } else { (1u128 << 63) - 1 };
                let want = if m <= limit { format!("ok {}{}", if *neg && m != 0 { "-" } else { "" }, m) } else { "range".to_string() };
                let got = match o.run.as_deref() { Some("rejected") => "range".to_string(), Some(x) => x.to_string(), None => "none".into() };
                ctx.count(if m <= limit { "int:in-range" } else { "int:out-of-range" });
                if lit.contains('_') { ctx.count("int:with-underscore"); }
                if m == 1u128 << 63 && *neg { ctx.count("int:MIN"); }
                if got != want {
                    ctx.spec_fail(format!("integer literal `{lit}`: program gives `{got}`, the spelled value is `{want}`"));
                }
                let model_got = if got == "ok 0" && *neg { "ok 0".to_string() } else { got.clone() };
                ctx.case(format!("intlit {} {} #{}", if *neg { 1 } else { 0 }, digits, lit), model_got);
            }
            Job::Float { lit, clean } => {
                ctx.count("float");
                ctx.case(format!("lex {} #float", hex_str(lit)), o.lex.clone());
                let want: f64 = clean.parse().unwrap();
                match o.run.as_deref().and_then(|r| r.strip_prefix("ok ")).and_then(|t| t.parse::<f64>().ok()) {
                    Some(v) if v.to_bits() == want.to_bits() => {}
                    other => ctx.spec_fail(format!("float literal `{lit}`: program printed {:?} (parsed {:?}), nearest binary64 of the spelling is {want:?}", o.run, other)),
                }
            }
            Job::Str { s, lit, style, q } => {
                ctx.count(&format!("str:{style}"));
                if !s.is_ascii() { ctx.count("str:non-ascii"); }
                if s.contains('\\') { ctx.count("str:backslash"); }
                if s.chars().any(|c| (c as u32) < 0x20) { ctx.count("str:control"); }
                ctx.case(format!("lex {} #{style}", hex_str(lit)), o.lex.clone());
                // the generator's printer is the Lean `escape`
                ctx.case(format!("escape {q} {} #printer", hex_str(s)), hex_str(&escape(*q, s)));
                // payload seen by the lexer = intended text
                // spans are byte offsets into the source (after the fix of D12)
                let n = lit.len();
                let want_lex = format!("StringLit:{}/0/{} Eof/{}/{} |", hex_str(s), n, n, n);
                if o.lex != want_lex {
                    ctx.spec_fail(format!("string literal {lit:?} ({style}): lexer gives `{}`, intended text {s:?} i.e. `{want_lex}`", o.lex));
                }
                let want_run = format!("ok {s}");
                if o.run.as_deref() != Some(want_run.as_str()) {
                    ctx.spec_fail(format!("string literal {lit:?} ({style}): program printed {:?}, intended text {s:?}", o.run));
                }
            }
            Job::Pat { kind, value, pattern, want, model_req } => {
                ctx.count(&format!("pattern:{kind}"));
                ctx.case(format!("lex {} #pattern-{kind}", hex_str(pattern)), o.lex.clone());
                let got = o.run.clone().unwrap_or_default();
                if got != *want {
                    ctx.spec_fail(format!("literal pattern `{pattern}` against the value `{value}`: program gives `{got}`, expected `{want}`"));
                }
                if let Some(req) = model_req {
                    let as_model = if got == "ok hit" { format!("ok {}", value) } else if got == "rejected" { "range".to_string() } else { got.clone() };
                    ctx.case(format!("{req} #pattern"), as_model);
                }
            }
            Job::Dedent { lit, raw } => {
                ctx.count("triple:per-line-indentation");
                if lit.contains(" \t") { ctx.count("triple:space-before-tab"); }
                ctx.case(format!("lex {} #dedent", hex_str(lit)), o.lex.clone());
                // decode the escapes of the expected raw text with the lexer on a plain double-quoted spelling
                // is not possible in general (raw may hold `"`), so compare through the model-independent
                // decoder below
                let want = decode_escapes(raw);
                let n = lit.len();
                let want_lex = format!("StringLit:{}/0/{} Eof/{}/{} |", hex_str(&want), n, n, n);
                if o.lex != want_lex {
                    ctx.spec_fail(format!("triple-quoted literal {lit:?}: lexer gives `{}`, each line minus the common measured indentation is {want:?} i.e. `{want_lex}`", o.lex));
                }
                let want_run = format!("ok {want}");
                if o.run.as_deref() != Some(want_run.as_str()) {
                    ctx.spec_fail(format!("triple-quoted literal {lit:?}: program printed {:?}, expected {want:?}", o.run));
                }
            }
            Job::Shebang { src, want } => {
                ctx.count("shebang");
                ctx.case(format!("lex {} #shebang", hex_str(src)), o.lex.clone());
                if o.run.as_deref() != Some(want.as_str()) {
                    ctx.spec_fail(format!("program behind a `#!` line {src:?}: got {:?}, expected `{want}`", o.run));
                }
            }
            Job::Raw { lit } => {
                ctx.count("raw");
                if o.lex.contains(" E/") { ctx.count("raw:bad-escape"); }
                ctx.case(format!("lex {} #raw", hex_str(lit)), o.lex.clone());
            }
        }
    }
    ctx.finish();
}
