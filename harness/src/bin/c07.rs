//! C07 correspondence and oracles.
//!  A. The same per-transition validation as C06 (collector increments = model `gcStep`, VM steps inside the
//!     mutator contract), under schedules that complete many collection cycles, plus the executable form of
//!     theorem C07_cycle_complete on every completed cycle: heap at cycle end ⊆ reachable at cycle start ∪
//!     allocated during the cycle.
//!  B. Bounded heap under the real pacing: loop programs whose live data is bounded are run for N and 10·N
//!     iterations; the peak heap (bytes and objects, read through the hook after every step) must not grow with N.
//!  C. Drop frees everything: a counting global allocator measures live bytes around repeated
//!     compile / Runtime::new / run / drop rounds; after warm-up the figure must not grow.
use abra_core::compile_bytecode;
use abra_core::vm::{Runtime, RuntimeStatusKind, verif_gc};
use std::alloc::{GlobalAlloc, Layout, System};
use std::sync::atomic::{AtomicIsize, Ordering};
use vh::gcdrive::*;
use vh::*;

struct Counting;
static LIVE: AtomicIsize = AtomicIsize::new(0);
unsafe impl GlobalAlloc for Counting {
    unsafe fn alloc(&self, l: Layout) -> *mut u8 {
        LIVE.fetch_add(l.size() as isize, Ordering::Relaxed);
        unsafe { System.alloc(l) }
    }
    unsafe fn dealloc(&self, p: *mut u8, l: Layout) {
        LIVE.fetch_sub(l.size() as isize, Ordering::Relaxed);
        unsafe { System.dealloc(p, l) }
    }
    unsafe fn realloc(&self, p: *mut u8, l: Layout, n: usize) -> *mut u8 {
        LIVE.fetch_add(n as isize - l.size() as isize, Ordering::Relaxed);
        unsafe { System.realloc(p, l, n) }
    }
}
#[global_allocator]
static A: Counting = Counting;

fn live() -> isize {
    LIVE.load(Ordering::Relaxed)
}

/// compile, create a runtime, run it to completion (servicing prints), drop everything
fn round(src: &str) -> &'static str {
    let program = match compile_bytecode("main.abra", provider(src, &[])) {
        Ok(p) => p,
        Err(_) => return "rejected",
    };
    let mut rt = Runtime::new(program);
    let mut out = String::new();
    let (o, _, _) = drive(&mut rt, &RunOpts { budgets: vec![1000], max_steps: 2_000_000, files: vec![] }, &mut out);
    drop(rt);
    // no allocation may escape this function: the caller measures live bytes around it
    match o {
        Outcome::Done => "done",
        Outcome::Error(_) => "error",
        Outcome::Timeout => "timeout",
        _ => "other",
    }
}

fn compile_only(src: &str) {
    let _ = compile_bytecode("main.abra", provider(src, &[]));
}

const DROP_PROGS: &[(&str, &str)] = &[
    ("three-literals", "let a = \"alpha\"\nlet b = \"beta\"\nprintln(a .. b .. \"gamma\")\n"),
    ("arrays", "let xs = [\"p\", \"q\", \"r\"]\nxs.push(\"s\" .. 1)\nprintln(xs)\n"),
    ("struct-enum", "type Pt = { name: string, n: int }\ntype Sh = | Circle(int) | Named(string)\nlet p = Pt(\"origin\", 0)\nlet s = Sh.Named(\"sq\")\nmatch s { .Circle(r) -> println(r), .Named(n) -> println(n .. p.name) }\n"),
    ("closure", "let pre = \"hello \"\nlet f = (x: string) -> pre .. x\nprintln(f(\"world\"))\n"),
    ("task-channel", "let c: channel<int> = channel()\ntask { c.write(41 + 1) }\nprintln(c.read())\n"),
    ("task-unfinished", "let c: channel<int> = channel()\nlet d: channel<int> = channel()\ntask { let v = d.read()\n c.write(v) }\nprintln(\"main done\")\n"),
    ("runtime-error", "let xs = [1, 2]\nlet s = \"kept \" .. 1\nprintln(s)\nprintln(xs[7])\n"),
    ("no-strings", "var i = 0\nwhile i < 10 { i = i + 1 }\ni\n"),
];

fn loop_progs(n: u64) -> Vec<(String, String)> {
    vec![
        ("strings".into(), format!("var keep = \"\"\nvar i = 0\nwhile i < {n} {{\n  let s = \"item-\" .. i\n  let t = s .. \"-x\"\n  keep = t\n  i = i + 1\n}}\nprintln(keep)\n")),
        ("arrays".into(), format!("var keep: array<string> = []\nvar i = 0\nwhile i < {n} {{\n  let arr = [\"a\" .. i, \"b\" .. i, \"c\" .. i]\n  let outer = [arr, arr]\n  keep = outer[1]\n  i = i + 1\n}}\nprintln(keep)\n")),
        ("structs".into(), format!("type Nd = {{ name: string, items: array<string> }}\nvar keep = Nd(\"\", [])\nvar i = 0\nwhile i < {n} {{\n  let nd = Nd(\"n\" .. i, [\"x\" .. i])\n  nd.items.push(nd.name)\n  keep = nd\n  i = i + 1\n}}\nprintln(keep.name)\n")),
        ("closures".into(), format!("var keep = () -> \"\"\nvar i = 0\nwhile i < {n} {{\n  let s = \"c\" .. i\n  let f = () -> s .. \"!\"\n  keep = f\n  i = i + 1\n}}\nprintln(keep())\n")),
        ("window".into(), format!("let win: array<string> = []\nvar i = 0\nwhile i < {n} {{\n  win.push(\"w\" .. i)\n  if win.len() > 8 {{\n    let d = win.remove(0)\n  }}\n  i = i + 1\n}}\nprintln(win.len())\n")),
        ("worklist".into(), format!("let buf: array<int> = []\nvar r = 0\nwhile r < {n} / 20 + 1 {{\n  var i = 0\n  while i < 40 {{\n    buf.push(i)\n    i = i + 1\n  }}\n  let dead = [\"d\" .. r, \"e\" .. r]\n  buf.clear()\n  r = r + 1\n}}\nprintln(buf.len())\n")),
        ("drain".into(), format!("let q: array<string> = []\nvar r = 0\nwhile r < {n} / 10 + 1 {{\n  var i = 0\n  while i < 20 {{\n    q.push(\"q\" .. i)\n    i = i + 1\n  }}\n  while q.len() > 0 {{\n    let x = q.pop()\n  }}\n  r = r + 1\n}}\nprintln(q.len())\n")),
        ("enums".into(), format!("type Tr = | Leaf(string) | Pair(string, string)\nvar keep = Tr.Leaf(\"\")\nvar i = 0\nwhile i < {n} {{\n  keep = Tr.Pair(\"l\" .. i, \"r\" .. i)\n  i = i + 1\n}}\nmatch keep {{ .Leaf(x) -> println(x), .Pair(a, b) -> println(a .. b) }}\n")),
    ]
}

/// run under the real pacing, one step at a time, recording the peak heap of the main thread:
/// (max of the VM's own heap_size, max objects, max of real live bytes above the level at runtime creation)
fn peak_heap(src: &str) -> Option<(usize, usize, String)> {
    let program = compile_bytecode("main.abra", provider(src, &[])).ok()?;
    let mut rt = Runtime::new(program);
    let base = live();
    let mut out = String::new();
    let (mut pb, mut po) = (0usize, 0usize);
    let mut steps = 0u64;
    loop {
        let st = rt.run_n_steps(1);
        steps += 1;
        match st.kind {
            RuntimeStatusKind::Done => break,
            RuntimeStatusKind::MainThreadError(_) => return None,
            RuntimeStatusKind::PendingHostFunc => service_host(&mut rt, &mut out),
            RuntimeStatusKind::OutOfSteps => {}
        }
        if let Some(t) = rt.iter_threads_mut().next() {
            let (b, o) = verif_gc::heap_bytes(t);
            let real = (live() - base).max(0) as usize;
            pb = pb.max(b).max(real);
            po = po.max(o);
        }
        if steps > 50_000_000 {
            return None;
        }
    }
    Some((pb, po, out))
}

fn main() {
    let mut ctx = Ctx::from_env("C07");
    let quick = ctx.quick();

    // ---- C: drop frees everything (first, single-threaded, so that nothing else allocates)
    for (name, src) in DROP_PROGS {
        for _ in 0..3 {
            round(src); // warm-up (lazy statics, thread-locals)
        }
        let c0 = live();
        for _ in 0..4 {
            compile_only(src);
        }
        let compile_growth = live() - c0;
        let l0 = live();
        let rounds = if quick { 6 } else { 40 };
        let mut tag = "";
        for _ in 0..rounds {
            tag = round(src);
        }
        let growth = live() - l0;
        ctx.count(&format!("drop:{tag}"));
        ctx.notes.push(format!("drop {name}: {rounds} create/run/drop rounds, live-byte growth {growth} (compile-only growth over 4 rounds {compile_growth})"));
        if growth - compile_growth * (rounds as isize) / 4 > 0 {
            ctx.spec_fail(format!("program {name}: live heap bytes grow by {growth} over {rounds} create/run/drop rounds of a runtime ({} per round; compile alone grows {compile_growth} over 4 rounds); source: {:?}", growth / rounds as isize, src));
        }
    }

    // ---- B: bounded heap under the real pacing
    let (n1, n2) = if quick { (200u64, 2000u64) } else { (500, 10_000) };
    let small = loop_progs(n1);
    let big = loop_progs(n2);
    let all: Vec<(String, String)> = small.iter().chain(big.iter()).cloned().collect();
    // sequential: the counting allocator is process-wide
    let peaks: Vec<_> = all.iter().map(|(_, src)| peak_heap(src)).collect();
    for i in 0..small.len() {
        let name = &small[i].0;
        match (&peaks[i], &peaks[i + small.len()]) {
            (Some((b1, o1, _)), Some((b2, o2, _))) => {
                ctx.count("bounded-heap-pair");
                ctx.notes.push(format!("loop {name}: peak heap {b1} B / {o1} objects at N={n1}, {b2} B / {o2} objects at N={n2}"));
                if *b2 > 2 * *b1 + 4096 || *o2 > 2 * *o1 + 64 {
                    ctx.spec_fail(format!("loop program {name}: live data is bounded but the peak heap grows with the iteration count: {b1} B/{o1} objects at N={n1}, {b2} B/{o2} objects at N={n2}; source: {:?}", small[i].1));
                }
            }
            _ => ctx.spec_fail(format!("loop program {name} did not run to completion")),
        }
    }

    // ---- A: per-transition validation + cycle completeness on many completed cycles
    let n_progs = if quick { 24 } else { 120 };
    let mut jobs: Vec<(String, String, Sched)> = vec![];
    for i in 0..n_progs {
        let seed = ctx.rng.next();
        let n = 8 + ctx.rng.below(if quick { 14 } else { 30 }) as usize;
        let src = gen_program(seed, n);
        // continuous collection: cycle after cycle, different increments per VM step
        let k = 1 + ctx.rng.below(4) as u32;
        jobs.push((format!("g{i}"), src.clone(), Sched::From { start: ctx.rng.below(40), k }));
        if !quick {
            jobs.push((format!("g{i}"), src, Sched::Random { num: 6, max: 5, seed: ctx.rng.next() }));
        }
    }
    let results = par_map(&jobs, |(_, src, sched)| {
        std::panic::catch_unwind(std::panic::AssertUnwindSafe(|| run_scheduled(src, sched, true, 200_000))).ok()
    });
    let mut cycles = 0;
    for ((name, src, sched), r) in jobs.iter().zip(results) {
        let Some(r) = r else {
            ctx.spec_fail(format!("program {name} under schedule {sched:?} crashed the host; source: {src:?}"));
            continue;
        };
        ctx.count("validated-run");
        cycles += r.cycles_checked;
        for s in r.cycle_spec.iter().take(3) {
            ctx.spec_fail(format!("program {name} schedule {sched:?}: {s}; source: {src:?}"));
        }
        for s in r.spec.iter().take(3) {
            ctx.spec_fail(format!("program {name} schedule {sched:?}: {s}; source: {src:?}"));
        }
        for (req, imp) in r.cases {
            let kind = req.split(' ').nth(1).unwrap_or("?").to_string();
            let ph = req.split(' ').nth(2).unwrap_or("?").to_string();
            ctx.count(&format!("{kind}:{ph}"));
            ctx.case(req, imp);
        }
    }
    ctx.notes.push(format!("completed collection cycles checked against cycle completeness: {cycles}"));
    ctx.finish();
}
