//! C07 correspondence and oracles.
//!  A. The same per-transition validation as C06 (collector increments = model `gcStep`, VM steps inside the
//!     mutator contract), under schedules that complete many collection cycles, plus the executable form of
//!     theorem C07_cycle_complete on every completed cycle: heap at cycle end ⊆ reachable at cycle start ∪
//!     allocated during the cycle.
//!  B. Bounded heap under the real pacing: loop programs whose live data is bounded are run for N and 10·N
//!     iterations; the peak heap (bytes and objects, read through the hook after every step) must not grow with N.
//!  D. The pacing model (M5p) against the REAL pacing (manual mode off): before every VM instruction the harness calls the
//!     real `maybe_gc` itself and reads the abstract snapshot, the object sizes and the counters before and after
//!     (hook `verif_gc::pacing`); the model's `maybeGc` must map the one to the other (`gcp gc`, or `gcp idle` when
//!     an idle call changes nothing); the instruction (and the host call it triggers) must satisfy the pacing
//!     contract (`gcp mut`).  Oracles (executable conclusions of the theorems, reported as failures of the
//!     implementation, separately from model mismatches): debt >= heap_size = recount; a marking increment drains the
//!     gray stack (what is left are roots found by the rescan); a sweeping increment ends the cycle with
//!     last_gc_heap_size = heap_size; a cycle spans at most reachCount + 3 calls; at every step heap_size <=
//!     boundB(R, A, M) with R, A, M as observed on the run so far (theorem C07_bounded_heap_hits) — the run stops at the
//!     first step that exceeds it, which gives the concrete program when the pacing no longer bounds the heap.
//!  C. Drop frees everything: a counting global allocator measures live bytes around repeated
//!     compile / Runtime::new / run / drop rounds; after warm-up the figure must not grow.
use abra_core::compile_bytecode;
use abra_core::vm::{Runtime, RuntimeStatusKind, verif_gc};
use std::alloc::{GlobalAlloc, Layout, System};
use std::sync::atomic::{AtomicIsize, Ordering};
use vh::gcdrive::*;
use vh::*;

struct Counting;
static LIVE: AtomicIsize = AtomicIsize::new(0);
unsafe impl GlobalAlloc for Counting {
    unsafe fn alloc(&self, l: Layout) -> *mut u8 {
        LIVE.fetch_add(l.size() as isize, Ordering::Relaxed);
        unsafe { System.alloc(l) }
    }
    unsafe fn dealloc(&self, p: *mut u8, l: Layout) {
        LIVE.fetch_sub(l.size() as isize, Ordering::Relaxed);
        unsafe { System.dealloc(p, l) }
    }
    unsafe fn realloc(&self, p: *mut u8, l: Layout, n: usize) -> *mut u8 {
        LIVE.fetch_add(n as isize - l.size() as isize, Ordering::Relaxed);
        unsafe { System.realloc(p, l, n) }
    }
}
#[global_allocator]
static A: Counting = Counting;

fn live() -> isize {
    LIVE.load(Ordering::Relaxed)
}

/// compile, create a runtime, run it to completion (servicing prints), drop everything
fn round(src: &str) -> &'static str {
    let program = match compile_bytecode("main.abra", provider(src, &[])) {
        Ok(p) => p,
        Err(_) => return "rejected",
    };
    let mut rt = Runtime::new(program);
    let mut out = String::new();
    let (o, _, _) = drive(&mut rt, &RunOpts { budgets: vec![1000], max_steps: 2_000_000, files: vec![] }, &mut out);
    drop(rt);
    // no allocation may escape this function: the caller measures live bytes around it
    match o {
        Outcome::Done => "done",
        Outcome::Error(_) => "error",
        Outcome::Timeout => "timeout",
        _ => "other",
    }
}

fn compile_only(src: &str) {
    let _ = compile_bytecode("main.abra", provider(src, &[]));
}

const DROP_PROGS: &[(&str, &str)] = &[
    ("three-literals", "let a = \"alpha\"\nlet b = \"beta\"\nprintln(a .. b .. \"gamma\")\n"),
    ("arrays", "let xs = [\"p\", \"q\", \"r\"]\nxs.push(\"s\" .. 1)\nprintln(xs)\n"),
    ("struct-enum", "type Pt = { name: string, n: int }\ntype Sh = | Circle(int) | Named(string)\nlet p = Pt(\"origin\", 0)\nlet s = Sh.Named(\"sq\")\nmatch s { .Circle(r) -> println(r), .Named(n) -> println(n .. p.name) }\n"),
    ("closure", "let pre = \"hello \"\nlet f = (x: string) -> pre .. x\nprintln(f(\"world\"))\n"),
    ("task-channel", "let c: channel<int> = channel()\ntask { c.write(41 + 1) }\nprintln(c.read())\n"),
    ("task-unfinished", "let c: channel<int> = channel()\nlet d: channel<int> = channel()\ntask { let v = d.read()\n c.write(v) }\nprintln(\"main done\")\n"),
    ("runtime-error", "let xs = [1, 2]\nlet s = \"kept \" .. 1\nprintln(s)\nprintln(xs[7])\n"),
    ("no-strings", "var i = 0\nwhile i < 10 { i = i + 1 }\ni\n"),
];

fn loop_progs(n: u64) -> Vec<(String, String)> {
    vec![
        ("strings".into(), format!("var keep = \"\"\nvar i = 0\nwhile i < {n} {{\n  let s = \"item-\" .. i\n  let t = s .. \"-x\"\n  keep = t\n  i = i + 1\n}}\nprintln(keep)\n")),
        ("arrays".into(), format!("var keep: array<string> = []\nvar i = 0\nwhile i < {n} {{\n  let arr = [\"a\" .. i, \"b\" .. i, \"c\" .. i]\n  let outer = [arr, arr]\n  keep = outer[1]\n  i = i + 1\n}}\nprintln(keep)\n")),
        ("structs".into(), format!("type Nd = {{ name: string, items: array<string> }}\nvar keep = Nd(\"\", [])\nvar i = 0\nwhile i < {n} {{\n  let nd = Nd(\"n\" .. i, [\"x\" .. i])\n  nd.items.push(nd.name)\n  keep = nd\n  i = i + 1\n}}\nprintln(keep.name)\n")),
        ("closures".into(), format!("var keep = () -> \"\"\nvar i = 0\nwhile i < {n} {{\n  let s = \"c\" .. i\n  let f = () -> s .. \"!\"\n  keep = f\n  i = i + 1\n}}\nprintln(keep())\n")),
        ("window".into(), format!("let win: array<string> = []\nvar i = 0\nwhile i < {n} {{\n  win.push(\"w\" .. i)\n  if win.len() > 8 {{\n    let d = win.remove(0)\n  }}\n  i = i + 1\n}}\nprintln(win.len())\n")),
        ("worklist".into(), format!("let buf: array<int> = []\nvar r = 0\nwhile r < {n} / 20 + 1 {{\n  var i = 0\n  while i < 40 {{\n    buf.push(i)\n    i = i + 1\n  }}\n  let dead = [\"d\" .. r, \"e\" .. r]\n  buf.clear()\n  r = r + 1\n}}\nprintln(buf.len())\n")),
        ("drain".into(), format!("let q: array<string> = []\nvar r = 0\nwhile r < {n} / 10 + 1 {{\n  var i = 0\n  while i < 20 {{\n    q.push(\"q\" .. i)\n    i = i + 1\n  }}\n  while q.len() > 0 {{\n    let x = q.pop()\n  }}\n  r = r + 1\n}}\nprintln(q.len())\n")),
        ("enums".into(), format!("type Tr = | Leaf(string) | Pair(string, string)\nvar keep = Tr.Leaf(\"\")\nvar i = 0\nwhile i < {n} {{\n  keep = Tr.Pair(\"l\" .. i, \"r\" .. i)\n  i = i + 1\n}}\nmatch keep {{ .Leaf(x) -> println(x), .Pair(a, b) -> println(a .. b) }}\n")),
    ]
}

/// programs whose reachable data is bounded while MANY short-lived tasks are created and finish: a finished task's
/// heap, stack and thread record must be released (only section B runs these: whole-process live bytes are compared)
fn task_loop_progs(n: u64) -> Vec<(String, String)> {
    vec![
        ("tasks-sequential".into(), format!("let c: channel<int> = channel()\nvar i = 0\nvar total = 0\nwhile i < {n} {{\n  let k = i\n  task {{\n    let s = \"t\" .. k\n    let arr = [s, s .. \"x\", s .. \"y\"]\n    c.write(arr.len() + k)\n  }}\n  total = total + c.read()\n  i = i + 1\n}}\nprintln(total)\n")),
        ("tasks-pairs".into(), format!("type Msg = {{ tag: string, vals: array<int> }}\nlet c: channel<Msg> = channel()\nvar i = 0\nvar total = 0\nwhile i < {n} / 2 + 1 {{\n  let k = i\n  task {{\n    c.write(Msg(\"a\" .. k, [k, k + 1]))\n  }}\n  task {{\n    let junk = [\"j\" .. k, \"k\" .. k]\n    c.write(Msg(\"b\" .. k, [junk.len()]))\n  }}\n  let m1 = c.read()\n  let m2 = c.read()\n  total = total + m1.vals.len() + m2.vals.len()\n  i = i + 1\n}}\nprintln(total)\n")),
        ("tasks-failing".into(), format!("let c: channel<int> = channel()\nvar i = 0\nvar total = 0\nwhile i < {n} / 4 + 1 {{\n  let k = i\n  task {{\n    let xs = [k]\n    c.write(k)\n    let boom = xs[5]\n  }}\n  total = total + c.read()\n  i = i + 1\n}}\nprintln(total)\n")),
    ]
}

/// run under the real pacing, one step at a time, recording the peak heap of the main thread:
/// (max of the VM's own heap_size, max objects, max of real live bytes above the level at runtime creation)
fn peak_heap(src: &str) -> Option<(usize, usize, String)> {
    let program = compile_bytecode("main.abra", provider(src, &[])).ok()?;
    let mut rt = Runtime::new(program);
    let base = live();
    let mut out = String::new();
    let (mut pb, mut po) = (0usize, 0usize);
    let mut steps = 0u64;
    loop {
        let st = rt.run_n_steps(1);
        steps += 1;
        match st.kind {
            RuntimeStatusKind::Done => break,
            RuntimeStatusKind::MainThreadError(_) => return None,
            RuntimeStatusKind::PendingHostFunc => service_host(&mut rt, &mut out),
            RuntimeStatusKind::OutOfSteps => {}
        }
        if let Some(t) = rt.iter_threads_mut().next() {
            let (b, o) = verif_gc::heap_bytes(t);
            let real = (live() - base).max(0) as usize;
            pb = pb.max(b).max(real);
            po = po.max(o);
        }
        if steps > 50_000_000 {
            return None;
        }
    }
    Some((pb, po, out))
}


// ---------------------------------------------------------------- D: the pacing model against the real pacing
struct PaceOut {
    cases: Vec<(String, String)>,
    /// the implementation contradicts an executable conclusion of the pacing theorems
    spec: Vec<String>,
    hist: Vec<String>,
    steps: u64,
    peak: usize,
    r_obs: usize,
    n_obs: usize,
    a_obs: usize,
    /// most marking increments of one cycle that ended with the rescan finding an unmarked root
    m_obs: usize,
    cycles: u64,
    max_cycle_calls: u64,
    leak_not_ok: bool,
    outcome: String,
}

/// pacing snapshot of one thread: the raw abstract snapshot, the counters (heap_size, last_gc_heap_size, gc_debt,
/// foreign gray bytes), the object sizes, and (unless `light`) the seven-word request form with renamed addresses
struct PSnap {
    raw: String,
    ctr: (usize, usize, usize, usize),
    sizes: Vec<usize>,
    canon: String,
}

fn psnap(t: &abra_core::vm::VmGreenThread, rn: &mut Renamer, light: bool) -> PSnap {
    let raw = verif_gc::snapshot(t);
    let (hs, last, debt, foreign, sizes) = verif_gc::pacing(t);
    let mut canon = String::new();
    if !light {
        let p = parse_snap(&raw);
        let mut sz = String::from("sz=");
        for (i, (h, n)) in p.heap.iter().zip(sizes.iter()).enumerate() {
            if i > 0 {
                sz.push(';');
            }
            sz.push_str(&format!("{}:{}", h.0, n));
        }
        // the counters are appended after renaming (a large debt must not be taken for an address)
        canon = format!("{} ctr={},{},{}", rn.canon(&format!("{raw} {sz}")), hs, last, debt);
    }
    PSnap { raw, ctr: (hs, last, debt, foreign), sizes, canon }
}

fn phase_of(raw: &str) -> char {
    raw.as_bytes()[6] as char
}

fn reach_stats(raw: &str, sizes: &[usize]) -> (usize, usize) {
    let p = parse_snap(raw);
    let r = reachable(&p);
    let mut bytes = 0;
    let mut n = 0;
    for (h, s) in p.heap.iter().zip(sizes.iter()) {
        if r.contains(&h.0) {
            bytes += s;
            n += 1;
        }
    }
    (bytes, n)
}

fn bound_b(r: usize, a: usize, n: usize) -> usize {
    2 * r + (3 * n + 9) * a
}

/// Runs `src` with the collector of the MAIN green thread driven from here: the real `maybe_gc` is called once before
/// every instruction of that thread (other green threads run under their own real pacing, unobserved).
/// `skip` = 0: the real pacing.  `skip` = k > 0: while marking, the call is made only before every (k+1)-th
/// instruction, so that marking phases are long enough for barrier pushes (every call is still the real function;
/// such a run is a run of the model with more allocation between calls).
/// `light`: no model cases (for programs with very large heaps); the oracles are the same.
/// at most two reports per kind of failure (a broken pacing fails at every call)
fn fail(spec: &mut Vec<String>, kinds: &mut std::collections::HashMap<&'static str, u32>, kind: &'static str, msg: String) {
    let n = kinds.entry(kind).or_insert(0);
    *n += 1;
    if *n <= 2 {
        spec.push(msg);
    }
}

fn pace_run(src: &str, max_steps: u64, skip: u64, light: bool) -> PaceOut {
    let mut po = PaceOut { cases: vec![], spec: vec![], hist: vec![], steps: 0, peak: 0, r_obs: 0, n_obs: 0, a_obs: 0, m_obs: 0, cycles: 0, max_cycle_calls: 0, leak_not_ok: false, outcome: String::new() };
    let program = match compile_bytecode("main.abra", provider(src, &[])) {
        Ok(p) => p,
        Err(e) => {
            po.outcome = format!("rejected {}", e.to_string().lines().next().unwrap_or(""));
            return po;
        }
    };
    verif_gc::set_manual(true);
    let mut rt = Runtime::new(program);
    let mut rn = Renamer { map: std::collections::HashMap::new() };
    let mut out = String::new();
    let Some(main_id) = rt.iter_threads_mut().next().map(|t| t.id()) else { return po };
    // the running cycle: (calls of maybe_gc so far including the starting one, reachable objects at its start, rescan hits)
    let mut cycle: Option<(u64, usize, usize)> = None;
    // heap_size right after the last call of maybe_gc
    let mut base = 0usize;
    let mut total_steps = 0u64;
    let mut kinds: std::collections::HashMap<&'static str, u32> = std::collections::HashMap::new();
    loop {
        total_steps += 1;
        if total_steps > max_steps {
            po.outcome = "timeout".into();
            break;
        }
        let finish = |status: &abra_core::vm::RuntimeStatus| match &status.kind {
            RuntimeStatusKind::Done => Some("done".to_string()),
            RuntimeStatusKind::MainThreadError(e) => Some(format!("error:{}", error_kind(&e.to_string()))),
            _ => None,
        };
        let front = rt.iter_threads_mut().next().map(|t| t.id());
        if front.is_some() && front != Some(main_id) {
            // another green thread's turn: it runs under its own real pacing
            verif_gc::set_manual(false);
            let status = rt.run_n_steps(1);
            verif_gc::set_manual(true);
            if let Some(d) = finish(&status) {
                po.outcome = d;
                break;
            }
            if matches!(status.kind, RuntimeStatusKind::PendingHostFunc) {
                service_host(&mut rt, &mut out);
            }
            continue;
        }
        let Some(t) = rt.iter_threads_mut().next() else { break };
        let s0 = psnap(t, &mut rn, light);
        let (h0, l0, d0, f0) = s0.ctr;
        let ph0 = phase_of(&s0.raw);
        let call = !(skip > 0 && ph0 == 'm' && po.steps % (skip + 1) != 0);
        let starts = ph0 == 'i' && h0 > 2 * l0;
        let mut rc = 0;
        if call && starts {
            // the hypotheses of the bound are about the states in which a cycle starts
            let (rb, n) = reach_stats(&s0.raw, &s0.sizes);
            rc = n;
            po.r_obs = po.r_obs.max(rb);
            po.n_obs = po.n_obs.max(n);
        }
        if call {
            verif_gc::set_manual(false);
            t.maybe_gc();
            verif_gc::set_manual(true);
        }
        let s1 = if call { psnap(t, &mut rn, light) } else { PSnap { raw: s0.raw.clone(), ctr: s0.ctr, sizes: vec![], canon: s0.canon.clone() } };
        let (h1, l1, d1, f1) = s1.ctr;
        let ph1 = phase_of(&s1.raw);
        if call {
            let recount = verif_gc::heap_recount(t);
            let leak = f0.saturating_sub(f1);
            po.hist.push(format!("pace-gc:{ph0}{ph1}"));
            base = h1;
            if leak > 0 {
                po.hist.push("pace-gc:foreign-charge".into());
            }
            if light {
            } else if ph0 == 'i' && s0.canon == s1.canon {
                po.cases.push((format!("gcp idle {h0} {l0} {d0}"), "stay".into()));
            } else {
                po.cases.push((format!("gcp gc {leak} {} {}", s0.canon, s1.canon), "ok".into()));
            }
            // ---- executable conclusions of the theorems on this call (implementation vs theorem)
            if h1 > d1 || h1 != recount {
                fail(&mut po.spec, &mut kinds, "acct", format!("after maybe_gc at VM step {}: heap_size {h1}, gc_debt {d1}, bytes in the heap list {recount} (theorem C07_debt_covers_heap: heap_size = sum of sizes <= gc_debt)", po.steps));
            }
            let leak_ok = leak == 0 || leak + h0 < 2 * d0;
            if ph0 != 'i' && !leak_ok {
                po.leak_not_ok = true;
                po.hist.push("pace-gc:foreign-charge-exceeds-slack".into());
            }
            let mut hit = false;
            if ph0 == 'm' && leak_ok {
                let p0 = parse_snap(&s0.raw);
                let p1 = parse_snap(&s1.raw);
                let gray1: Vec<usize> = s1.raw.split(' ').find_map(|w| w.strip_prefix("gray=")).unwrap_or("").split(',').filter(|x| !x.is_empty()).map(|x| x.parse().unwrap()).collect();
                let unmarked0: std::collections::HashSet<usize> = p0.heap.iter().filter(|h| !h.1).map(|h| h.0).collect();
                let drained = gray1.iter().all(|g| p1.roots.contains(g) && unmarked0.contains(g));
                if !(ph1 == 's' && gray1.is_empty()) && !(ph1 == 'm' && !gray1.is_empty() && drained) {
                    fail(&mut po.spec, &mut kinds, "drain", format!("marking increment at VM step {} (heap_size {h0}, gc_debt {d0}: the slice 2*debt covers the heap) did not drain the gray stack: phase {ph1}, {} gray entries left (theorem C07_increment_covers_heap)", po.steps, gray1.len()));
                } else if ph1 == 'm' {
                    hit = true;
                    po.hist.push("pace-gc:rescan-hit".into());
                }
                if h1 != h0 {
                    fail(&mut po.spec, &mut kinds, "mark-frees", format!("marking increment at VM step {} changed heap_size from {h0} to {h1}", po.steps));
                }
            }
            if ph0 == 's' && !(ph1 == 'i' && l1 == h1 && h1 <= h0) {
                fail(&mut po.spec, &mut kinds, "sweep", format!("sweeping increment at VM step {} (heap_size {h0}, gc_debt {d0}: the slice 2*debt covers the heap) did not finish the cycle: phase {ph1}, heap_size {h1}, last_gc_heap_size {l1} (theorem C07_increment_covers_heap)", po.steps));
            }
            if ph0 == 'i' && ph1 == 'm' {
                cycle = Some((1, rc, 0));
                if !starts {
                    fail(&mut po.spec, &mut kinds, "early-start", format!("a cycle started at VM step {} with heap_size {h0} <= 2 * last_gc_heap_size {l0}", po.steps));
                }
            } else if starts {
                fail(&mut po.spec, &mut kinds, "no-start", format!("no cycle started at VM step {} although heap_size {h0} > 2 * last_gc_heap_size {l0}", po.steps));
            } else if ph0 != 'i' {
                if let Some((calls, rc0, hits)) = cycle.as_mut() {
                    *calls += 1;
                    if hit {
                        *hits += 1;
                        po.m_obs = po.m_obs.max(*hits);
                    }
                    if !po.leak_not_ok && *calls > *rc0 as u64 + 3 {
                        fail(&mut po.spec, &mut kinds, "cycle-len", format!("a collection cycle is still running after {} calls of maybe_gc although only {} objects were reachable when it started (theorem C07_cycle_spans_k_steps: at most reachCount + 3)", *calls, *rc0));
                    }
                    if ph1 == 'i' {
                        po.cycles += 1;
                        po.max_cycle_calls = po.max_cycle_calls.max(*calls);
                        po.hist.push(format!("pace-cycle-calls:{}", (*calls).min(6)));
                        cycle = None;
                    }
                }
            }
            po.peak = po.peak.max(h1);
        }
        // ---- one VM instruction of the main thread (maybe_gc is switched off inside run_n_steps)
        let status = rt.run_n_steps(1);
        po.steps += status.steps_consumed as u64;
        if let Some(d) = finish(&status) {
            po.outcome = d;
            break;
        }
        let Some(t) = rt.iter_threads_mut().find(|t| t.id() == main_id) else { break };
        let s2 = psnap(t, &mut rn, light);
        if !light && s2.canon != s1.canon {
            po.hist.push(format!("pace-mut:{ph1}"));
            po.cases.push((format!("gcp mut {} {}", s1.canon, s2.canon), "ok".into()));
        }
        let (mut h_end, _, mut d_end, _) = s2.ctr;
        if matches!(status.kind, RuntimeStatusKind::PendingHostFunc) {
            service_host(&mut rt, &mut out);
            let Some(t) = rt.iter_threads_mut().find(|t| t.id() == main_id) else { break };
            let s3 = psnap(t, &mut rn, light);
            if !light && s3.canon != s2.canon {
                po.hist.push(format!("pace-mut-host:{ph1}"));
                po.cases.push((format!("gcp mut {} {} #host", s2.canon, s3.canon), "ok".into()));
            }
            h_end = s3.ctr.0;
            d_end = s3.ctr.2;
        }
        if h_end < h1 || d_end - d1 != h_end - h1 {
            fail(&mut po.spec, &mut kinds, "mut-bytes", format!("VM step {}: heap_size went from {h1} to {h_end} and gc_debt from {d1} to {d_end} (an instruction never frees, and the debt grows with the heap)", po.steps));
        }
        po.a_obs = po.a_obs.max(h_end.saturating_sub(base));
        po.peak = po.peak.max(h_end);
        // the conclusion of C07_bounded_heap_hits on the run so far (a prefix of a run is a run)
        if !po.leak_not_ok && po.peak > bound_b(po.r_obs, po.a_obs, po.m_obs) {
            po.outcome = "stopped: heap bound exceeded".into();
            break;
        }
    }
    verif_gc::set_manual(false);
    po
}

/// programs that pop nested arrays in consecutive instructions (`x.pop().pop()`): when a cycle starts just
/// before, the popped white object is on the stack and no longer in its (gray) parent: the rescan finds it
fn nested_pop_program(pad: usize, depth: usize, rounds: usize) -> String {
    let mut s = String::new();
    s.push_str("var keep = \"\"\nvar r = 0\n");
    s.push_str(&format!("while r < {rounds} {{\n"));
    let mut lit = String::from("\"leaf\" .. r");
    for _ in 0..depth {
        lit = format!("[{lit}]");
    }
    // padding garbage of varying size shifts the allocation that crosses the threshold
    for j in 0..pad {
        s.push_str(&format!("  let g{j} = \"pad{j}-\" .. r\n"));
    }
    s.push_str("  if r % 3 == 0 {\n    let h = \"more-\" .. r\n  }\n");
    // the array literals are allocated by the instructions directly before the pops
    s.push_str(&format!("  keep = {lit}{}\n", ".pop()".repeat(depth)));
    s.push_str("  r = r + 1\n}\nprintln(keep)\n");
    s
}

/// a barriered store of a string constant right after an allocation: when that allocation starts a cycle the
/// array is already marked, so the write barrier pushes the static string (outside the collected heap) on the
/// gray stack and the next marking increment is charged for it (`leak` of the model)
fn static_store_program(lits: usize, rounds: usize) -> String {
    let mut s = String::new();
    for j in 0..lits {
        s.push_str(&format!("let s{j} = \"a-string-constant-number-{j}-{}\"\n", "x".repeat(j * 7)));
    }
    s.push_str("let arr: array<string> = []\nvar r = 0\n");
    s.push_str(&format!("while r < {rounds} {{\n"));
    for j in 0..lits {
        s.push_str(&format!("  let g{j} = \"pad{j}-\" .. r\n  arr.push(s{j})\n"));
    }
    s.push_str("  while arr.len() > 3 {\n    let d = arr.pop()\n  }\n");
    s.push_str("  r = r + 1\n}\nprintln(arr.len())\n");
    s
}

/// the main thread keeps receiving large messages made of many small objects (ChannelRead rebuilds the whole
/// message on the reader's heap in ONE instruction, so A = the size of a message); only one message is alive
fn consumer_program(n: usize, rounds: usize) -> String {
    format!("let data: channel<array<(int, int)>> = channel()\nlet ack: channel<int> = channel()\ntask {{\n  let batch: array<(int, int)> = []\n  var k = 0\n  while k < {n} {{\n    batch.push((k, k + 1))\n    k = k + 1\n  }}\n  var r = 0\n  while r < {rounds} {{\n    data.write(batch)\n    let a = ack.read()\n    r = r + 1\n  }}\n}}\nvar round = 0\nvar sum = 0\nwhile round < {rounds} {{\n  let m = data.read()\n  let (first, second) = m[0]\n  sum = sum + first + m.len()\n  ack.write(round)\n  round = round + 1\n}}\nprintln(sum)\n")
}

fn main() {
    let mut ctx = Ctx::from_env("C07");
    let quick = ctx.quick();

    // ---- C: drop frees everything (first, single-threaded, so that nothing else allocates)
    for (name, src) in DROP_PROGS {
        for _ in 0..3 {
            round(src); // warm-up (lazy statics, thread-locals)
        }
        let c0 = live();
        for _ in 0..4 {
            compile_only(src);
        }
        let compile_growth = live() - c0;
        let l0 = live();
        let rounds = if quick { 6 } else { 40 };
        let mut tag = "";
        for _ in 0..rounds {
            tag = round(src);
        }
        let growth = live() - l0;
        ctx.count(&format!("drop:{tag}"));
        ctx.notes.push(format!("drop {name}: {rounds} create/run/drop rounds, live-byte growth {growth} (compile-only growth over 4 rounds {compile_growth})"));
        if growth - compile_growth * (rounds as isize) / 4 > 0 {
            ctx.spec_fail(format!("program {name}: live heap bytes grow by {growth} over {rounds} create/run/drop rounds of a runtime ({} per round; compile alone grows {compile_growth} over 4 rounds); source: {:?}", growth / rounds as isize, src));
        }
    }

    // ---- B: bounded heap under the real pacing
    let (n1, n2) = if quick { (200u64, 2000u64) } else { (500, 10_000) };
    let mut small = loop_progs(n1);
    let mut big = loop_progs(n2);
    small.extend(task_loop_progs(n1));
    big.extend(task_loop_progs(n2));
    let all: Vec<(String, String)> = small.iter().chain(big.iter()).cloned().collect();
    // sequential: the counting allocator is process-wide
    let peaks: Vec<_> = all.iter().map(|(_, src)| peak_heap(src)).collect();
    for i in 0..small.len() {
        let name = &small[i].0;
        match (&peaks[i], &peaks[i + small.len()]) {
            (Some((b1, o1, _)), Some((b2, o2, _))) => {
                ctx.count("bounded-heap-pair");
                ctx.notes.push(format!("loop {name}: peak heap {b1} B / {o1} objects at N={n1}, {b2} B / {o2} objects at N={n2}"));
                if *b2 > 2 * *b1 + 4096 || *o2 > 2 * *o1 + 64 {
                    ctx.spec_fail(format!("loop program {name}: live data is bounded but the peak heap grows with the iteration count: {b1} B/{o1} objects at N={n1}, {b2} B/{o2} objects at N={n2}; source: {:?}", small[i].1));
                }
            }
            _ => ctx.spec_fail(format!("loop program {name} did not run to completion")),
        }
    }


    // ---- D: the pacing model against the real pacing
    let pn = if quick { 25u64 } else { 120 };
    // (name, source, skip, light)
    let mut pjobs: Vec<(String, String, u64, bool)> = loop_progs(pn).into_iter().map(|(n, s)| (format!("loop-{n}"), s, 0, false)).collect();
    for (i, (pad, depth)) in [(0usize, 2usize), (1, 3), (2, 2), (3, 4), (5, 3)].iter().enumerate() {
        if quick && i >= 3 {
            break;
        }
        pjobs.push((format!("nested-pop-{pad}-{depth}"), nested_pop_program(*pad, *depth, if quick { 12 } else { 40 }), 0, false));
    }
    pjobs.push(("static-store-6".into(), static_store_program(6, if quick { 10 } else { 40 }), 0, false));
    pjobs.push(("static-store-6-skip".into(), static_store_program(6, if quick { 10 } else { 40 }), 7, false));
    if !quick {
        pjobs.push(("static-store-11-skip".into(), static_store_program(11, 30), 12, false));
    }
    // large messages of many small objects: one instruction allocates a whole message; oracles only
    pjobs.push(("consumer-4000".into(), consumer_program(4000, if quick { 24 } else { 48 }), 0, true));
    // a small one with every step validated against the model
    pjobs.push(("consumer-40".into(), consumer_program(40, if quick { 8 } else { 30 }), 0, false));
    for i in 0..(if quick { 6 } else { 30 }) {
        let seed = ctx.rng.next();
        let n = 8 + ctx.rng.below(if quick { 10 } else { 24 }) as usize;
        let sk = if i % 2 == 0 { 0 } else { 1 + ctx.rng.below(9) };
        pjobs.push((format!("pg{i}"), gen_program(seed, n), sk, false));
    }
    for k in 0..(if quick { 4 } else { 12 }) {
        let k = if quick { k * 3 + 1 } else { k };
        pjobs.push((format!("mover{k}"), mover_program(k, 6), (k % 3) as u64 * 4, false));
    }
    let presults = par_map(&pjobs, |(_, src, skip, light)| {
        std::panic::catch_unwind(std::panic::AssertUnwindSafe(|| pace_run(src, 2_000_000, *skip, *light))).ok()
    });
    let (mut pcycles, mut pmax, mut psteps, mut lsteps) = (0u64, 0u64, 0u64, 0u64);
    for ((name, src, skip, light), r) in pjobs.iter().zip(presults) {
        let name = &if *skip > 0 { format!("{name} (maybe_gc called every {} instructions while marking)", skip + 1) } else { name.clone() };
        let Some(r) = r else {
            ctx.spec_fail(format!("program {name} under the real pacing crashed the host; source: {src:?}"));
            continue;
        };
        ctx.count(if *skip > 0 { "pace-run-sparse-marking" } else { "pace-run" });
        if *light {
            lsteps += r.steps;
        } else if *skip == 0 {
            psteps += r.steps;
        }
        pcycles += r.cycles;
        pmax = pmax.max(r.max_cycle_calls);
        for h in &r.hist {
            ctx.count(h);
        }
        if r.outcome != "done" {
            ctx.notes.push(format!("pace {name}: outcome {}", r.outcome));
        }
        // the conclusions of C07_bounded_heap_hits (sharp: M rescan hits per cycle) and C07_bounded_heap (N reachable
        // objects) on this run, with the hypotheses as observed
        let b = bound_b(r.r_obs, r.a_obs, r.m_obs);
        let bn = bound_b(r.r_obs, r.a_obs, r.n_obs);
        ctx.case(format!("gcp bound {} {} {}", r.r_obs, r.a_obs, r.m_obs), b.to_string());
        ctx.case(format!("gcp bound {} {} {}", r.r_obs, r.a_obs, r.n_obs), bn.to_string());
        if r.leak_not_ok {
            ctx.count("pace-bound-oracle-skipped");
        } else if r.peak > b || r.peak > bn {
            ctx.spec_fail(format!("program {name} under the real pacing: reachable data stays bounded but heap_size reached {} after {} VM steps of the main thread, above the bound 2R + (3M + 9)A = {b} with R = {} reachable bytes whenever a cycle started, A = {} bytes allocated at most between two calls of maybe_gc, M = {} marking increments per cycle at most that found an unmarked root (theorem C07_bounded_heap_hits; with N = {} reachable objects the bound of C07_bounded_heap is {bn}); source: {src:?}", r.peak, r.steps, r.r_obs, r.a_obs, r.m_obs, r.n_obs));
        } else {
            ctx.count("pace-bound-oracle-ok");
        }
        for s in r.spec.iter().take(4) {
            ctx.spec_fail(format!("program {name} under the real pacing: {s}; source: {src:?}"));
        }
        if name.starts_with("loop-") || name.starts_with("nested") || name.starts_with("static") || name.starts_with("consumer") {
            ctx.notes.push(format!("pace {name}: {} steps, {} cycles (at most {} calls of maybe_gc each), peak {} B, R {} B, N {}, M {}, A {} B, bound {b} B", r.steps, r.cycles, r.max_cycle_calls, r.peak, r.r_obs, r.n_obs, r.m_obs, r.a_obs));
        }
        for (req, imp) in r.cases {
            ctx.case(req, imp);
        }
    }
    ctx.notes.push(format!("real pacing: {psteps} VM steps validated against the pacing model (+ {lsteps} steps with the oracles only), {pcycles} complete cycles, longest cycle {pmax} calls of maybe_gc"));

    // ---- A: per-transition validation + cycle completeness on many completed cycles
    let n_progs = if quick { 24 } else { 120 };
    let mut jobs: Vec<(String, String, Sched)> = vec![];
    for i in 0..n_progs {
        let seed = ctx.rng.next();
        let n = 8 + ctx.rng.below(if quick { 14 } else { 30 }) as usize;
        let src = gen_program(seed, n);
        // continuous collection: cycle after cycle, different increments per VM step
        let k = 1 + ctx.rng.below(4) as u32;
        jobs.push((format!("g{i}"), src.clone(), Sched::From { start: ctx.rng.below(40), k }));
        if !quick {
            jobs.push((format!("g{i}"), src, Sched::Random { num: 6, max: 5, seed: ctx.rng.next() }));
        }
    }
    let results = par_map(&jobs, |(_, src, sched)| {
        std::panic::catch_unwind(std::panic::AssertUnwindSafe(|| run_scheduled(src, sched, true, 200_000))).ok()
    });
    let mut cycles = 0;
    for ((name, src, sched), r) in jobs.iter().zip(results) {
        let Some(r) = r else {
            ctx.spec_fail(format!("program {name} under schedule {sched:?} crashed the host; source: {src:?}"));
            continue;
        };
        ctx.count("validated-run");
        cycles += r.cycles_checked;
        for s in r.cycle_spec.iter().take(3) {
            ctx.spec_fail(format!("program {name} schedule {sched:?}: {s}; source: {src:?}"));
        }
        for s in r.spec.iter().take(3) {
            ctx.spec_fail(format!("program {name} schedule {sched:?}: {s}; source: {src:?}"));
        }
        for (req, imp) in r.cases {
            let kind = req.split(' ').nth(1).unwrap_or("?").to_string();
            let ph = req.split(' ').nth(2).unwrap_or("?").to_string();
            ctx.count(&format!("{kind}:{ph}"));
            ctx.case(req, imp);
        }
    }
    ctx.notes.push(format!("completed collection cycles checked against cycle completeness: {cycles}"));
    ctx.finish();
}
