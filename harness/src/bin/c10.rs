//! C10 correspondence: (1) trace validation of the scheduler model `Abra.Sched` — the real runtime
//! is driven under explicit `run_n_steps` schedules with the `verif_sched` event log on; the per-thread
//! sequences of abstract step results are handed to the Lean model, which must reproduce the same
//! interleaving, blocked reads, popped values, statuses, `steps_consumed` and run-queue order per call;
//! (2) the property itself on the implementation (`spec_fail`): every generated program is run under
//! one large budget and under constant, random, prefix-exhaustive and host-delaying schedules — output,
//! final value, error kind and error text must be identical.
#[path = "../sched_common.rs"]
mod sched_common;
#[path = "../sched_gen.rs"]
mod sched_gen;
use sched_common::*;
use sched_gen::*;
use vh::*;

const BIG: u32 = 1_000_000;
/// a blocked read is a busy wait that consumes steps: with tasks a huge slice spins for the whole budget
/// every time main waits for the host, so the "one big slice" of multi-thread programs is smaller
const BIG_PC: u32 = 4_000;
const MAX_STEPS: u64 = 3_000_000;

#[derive(Clone, Debug, PartialEq)]
struct Obs {
    outcome: String,
    out: String,
    value: String,
    err_text: String,
}
fn obs(t: &Traced) -> Obs {
    Obs { outcome: t.outcome.tag(), out: t.out.clone(), value: t.value.clone(), err_text: t.err_text.clone() }
}

fn run(mk: &MkRuntime, s: &Schedule) -> Traced {
    let mut h = prelude_host(&PRELUDE_HOSTS);
    run_traced_rt(mk, s, MAX_STEPS, &mut h)
}

/// all budget sequences over {1,2,3} of length k, each followed by `tail` forever
fn prefix_exhaustive(k: usize, tail: &[u32]) -> Vec<Schedule> {
    let mut v = vec![];
    let n = 3usize.pow(k as u32);
    for mut x in 0..n {
        let mut p = vec![];
        for _ in 0..k {
            p.push(Call { budget: (x % 3) as u32 + 1, service: true });
            x /= 3;
        }
        v.push(Schedule { prefix: p, cycle: tail.iter().map(|&b| Call { budget: b, service: true }).collect() });
    }
    v
}

fn random_schedule(rng: &mut Rng, delays: bool) -> Schedule {
    let n = rng.range(1, 6) as usize;
    let mut cycle = vec![];
    for _ in 0..n {
        let budget = match rng.below(5) {
            0 => 1,
            1 => rng.range(1, 3) as u32,
            2 => rng.range(1, 9) as u32,
            3 => rng.range(1, 40) as u32,
            _ => rng.range(1, 400) as u32,
        };
        cycle.push(Call { budget, service: true });
        if delays && rng.chance(1, 2) {
            // the host is slow: further calls before the pending request is serviced
            for _ in 0..rng.range(1, 3) {
                let last = cycle.len() - 1;
                cycle[last].service = false;
                cycle.push(Call { budget: rng.range(1, 10) as u32, service: true });
            }
        }
    }
    // a cycle in which no call services would never make progress on a pending call
    let last = cycle.len() - 1;
    cycle[last].service = true;
    Schedule { prefix: vec![], cycle }
}

struct Job {
    src: String,
    class: String,
    scheds: Vec<Schedule>,
    /// indices into `scheds` (after the reference run) whose trace is validated against the model
    trace_for: Vec<usize>,
    kinds: Vec<&'static str>,
    big: u32,
}

struct JobResult {
    reference: Traced,
    /// (schedule description, observation, optional trace case)
    runs: Vec<(String, Obs, Option<(String, String)>, u64)>,
}

fn do_job(j: &Job) -> JobResult {
    let mk = match compile_program(&j.src) {
        Ok(mk) => mk,
        Err(o) => {
            let mut t = run_traced("", &Schedule::constant(1), 0, &mut |_, _, _| None);
            t.outcome = o;
            return JobResult { reference: t, runs: vec![] };
        }
    };
    let reference = run(&mk, &Schedule::constant(j.big));
    let mut runs = vec![];
    for (i, s) in j.scheds.iter().enumerate() {
        let t = run(&mk, s);
        let tc = if j.trace_for.contains(&i) && t.total_steps <= 2500 && !matches!(t.outcome, Outcome::Crash(_)) {
            Some(trace_case(&t))
        } else {
            None
        };
        runs.push((s.describe(), obs(&t), tc, t.total_steps));
    }
    // the API's own loops as further slicings: Runtime::run(), run_with_granularity(n), VmGreenThread::run()
    let modes: Vec<ApiMode> = if j.class == "single" {
        vec![ApiMode::Run, ApiMode::Granularity(1), ApiMode::Granularity(7), ApiMode::ThreadRun]
    } else {
        // with tasks a blocked read is a busy wait: a huge granularity spins for the whole slice
        vec![ApiMode::Granularity(37), ApiMode::Granularity(1000)]
    };
    for (k, m) in modes.iter().enumerate() {
        let mut h = prelude_host(&PRELUDE_HOSTS);
        let t = run_api(&mk, *m, &mut h, 200_000);
        let tc = if k == modes.len() / 2 && t.api_gran && t.total_steps <= 2500 && t.calls.len() <= 600 && !matches!(t.outcome, Outcome::Crash(_)) {
            Some(trace_case(&t))
        } else {
            None
        };
        let mut o = obs(&t);
        if !t.accessor_issues.is_empty() {
            o.outcome = format!("{} [accessors: {}]", o.outcome, t.accessor_issues.join("; "));
        }
        if t.call_bound_hit {
            o.outcome = format!("{} [never returned a final status]", o.outcome);
        }
        runs.push((format!("api:{:?}", m), o, tc, t.total_steps));
    }
    JobResult { reference, runs }
}

fn main() {
    if let Ok(f) = std::env::var("VERIF_PROBE") {
        let src = std::fs::read_to_string(&f).unwrap();
        for b in [BIG, 1, 3] {
            let mut h = prelude_host(&PRELUDE_HOSTS);
            let t = run_traced(&src, &Schedule::constant(b), MAX_STEPS, &mut h);
            println!("budget {b}: {:?} steps={} value={} out={:?} err={:?}", t.outcome, t.total_steps, t.value, t.out, t.err_text);
            if b == 3 && t.total_steps < 400 {
                let (req, ans) = trace_case(&t);
                println!("{req}\n{ans}");
            }
        }
        return;
    }
    let mut ctx = Ctx::from_env("C10");
    let quick = ctx.quick();
    let n_single = if quick { 160 } else { 1500 };
    let n_pc = if quick { 160 } else { 1500 };
    let k_prefix = if quick { 3 } else { 5 };
    let mut jobs: Vec<Job> = vec![];
    for i in 0..(n_single + n_pc) {
        let single = i < n_single;
        let (src, class, kinds) = if single {
            let mut g = Gen::new(&mut ctx.rng);
            let s = g.single();
            let k = g.kinds.clone();
            (s, "single".to_string(), k)
        } else {
            let (s, info) = gen_pc(&mut ctx.rng);
            (s, format!("pc:{}:{:?}", info.shape, info.payload), vec![])
        };
        let big = if single { BIG } else { BIG_PC };
        let mut scheds: Vec<Schedule> = vec![];
        for b in [1u32, 2, 3, 7, 100] {
            scheds.push(Schedule::constant(b));
        }
        for _ in 0..3 {
            scheds.push(random_schedule(&mut ctx.rng, false));
        }
        for _ in 0..3 {
            scheds.push(random_schedule(&mut ctx.rng, true));
        }
        // exhaustive over {1,2,3}^k for the first calls of every 4th program, then budget 1 / BIG
        if i % 4 == 0 {
            let bigt = [big];
            let tail: &[u32] = if i % 8 == 0 { &[1] } else { &bigt };
            scheds.extend(prefix_exhaustive(k_prefix, tail));
        }
        // traces validated against the model: budget 1, budget 3, one random, one with delays
        let trace_for = vec![0, 2, 5, 8];
        jobs.push(Job { src, class, scheds, trace_for, kinds, big });
    }
    let results = par_map(&jobs, do_job);
    let mut n_traces = 0u64;
    for (j, r) in jobs.iter().zip(results) {
        let cls = j.class.split(':').take(2).collect::<Vec<_>>().join(":");
        ctx.count(&format!("class:{cls}"));
        if j.class.starts_with("pc:") {
            ctx.count(&format!("payload:{}", j.class.rsplit(':').next().unwrap()));
        }
        for k in &j.kinds {
            ctx.count(&format!("stmt:{k}"));
        }
        let ro = obs(&r.reference);
        ctx.count(&format!("outcome:{}", ro.outcome));
        match &r.reference.outcome {
            Outcome::Rejected(e) => {
                ctx.count("rejected");
                if ctx.notes.len() < 5 { ctx.notes.push(format!("generator produced a rejected program: {} :: {}", e.lines().find(|l| !l.trim().is_empty()).unwrap_or(""), j.src.replace('\n', "\\n"))); }
                continue;
            }
            Outcome::Crash(m) => {
                ctx.spec_fail(format!("host panic under one big budget: {m} :: program: {}", j.src.replace('\n', "\\n")));
                continue;
            }
            Outcome::Timeout => {
                ctx.count("timeout");
                continue;
            }
            _ => {}
        }
        for (desc, o, tc, steps) in &r.runs {
            ctx.count(if desc.starts_with("api:") { "sched:api-loop" } else if desc.contains('!') { "sched:delay" } else if desc.starts_with("[]") { "sched:cyclic" } else { "sched:prefix-exhaustive" });
            if *o != ro {
                ctx.spec_fail(format!(
                    "slicing changes the result: schedule {desc}: {:?} vs one big budget: {:?} :: program: {}",
                    o, ro, j.src.replace('\n', "\\n")
                ));
            }
            if let Some((req, ans)) = tc {
                n_traces += 1;
                ctx.count(&format!("trace:{}", if *steps < 100 { "<100" } else if *steps < 1000 { "<1000" } else { ">=1000" }));
                for m in ["|pending|", ".b", ".s", ".x", ".e:", ".h", ".n", ".w"] {
                    if ans.contains(m) {
                        ctx.count(&format!("ev:{}", m.trim_matches(|c| c == '|' || c == '.')));
                    }
                }
                ctx.case(format!("{req} #{desc}"), ans.clone());
            }
        }
    }
    ctx.notes.push(format!("traces validated: {n_traces}"));
    // known findings: the two shapes in which the result does depend on the slicing
    for (id, file) in [
        ("C10-task-print-race", "/verif/corpus/C10-task-print-race.abra"),
        ("C10-channel-merge-race", "/verif/corpus/C10-channel-merge-race.abra"),
    ] {
        let src = std::fs::read_to_string(file).expect("corpus file");
        match compile_program(&src) {
            Ok(mk) => {
                let a = obs(&run(&mk, &Schedule::constant(1)));
                let b = obs(&run(&mk, &Schedule::constant(BIG_PC)));
                if a != b {
                    ctx.known_findings.push(id.to_string());
                    ctx.notes.push(format!("{id}: budget 1 -> {:?} / budget {BIG_PC} -> {:?}", a, b));
                } else {
                    ctx.notes.push(format!("{id}: no longer reproduces ({:?})", a));
                }
            }
            Err(o) => ctx.notes.push(format!("{id}: replay program no longer compiles: {}", o.tag())),
        }
    }
    ctx.finish();
}
