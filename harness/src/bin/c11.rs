//! C11 correspondence.
//! Against the model: (a) trace validation as in C10 (statuses, steps_consumed, run queue per call),
//! on programs aimed at the status logic — main finishing while tasks run / are blocked on reads / wait
//! for the host / have failed, main failing, tasks failing, host calls from main and from tasks;
//! (b) the host-call protocol: `hostcall <n> <args…>` — what the binding sees and what the program
//! resumes with, against `Abra.MiniVM`.
//! Against the property itself (`spec_fail`): steps_consumed ≤ budget and = instructions executed (hook)
//! for every call; Done reported by exactly the call in which main executes Stop (its last event), never
//! otherwise; a main error reported with the expected kind and never as Done; every host call exposes
//! exactly the arguments written in the program, in order, and the program continues with exactly the
//! value the host returned; the final value is the value of the last expression.
#[path = "../sched_common.rs"]
mod sched_common;
#[path = "../sched_gen.rs"]
mod sched_gen;
use abra_core::VmType;
use abra_core::vm::VmGreenThread;
use abra_core::vm::verif_sched::{Event, StepKind};
use sched_common::*;
use sched_gen::*;
use vh::*;

const HOST_DECLS: &str = r#"#host
fn h0() -> int
#host
fn h1(a: int) -> int
#host
fn h2(a: int, b: string) -> string
#host
fn h3(a: float, b: bool, c: int) -> float
#host
fn h4(a: string, b: int, c: bool, d: float) -> bool
#host
fn hv(a: int) -> void
"#;

fn host_names() -> Vec<&'static str> {
    let mut v = vec!["h0", "h1", "h2", "h3", "h4", "hv", "eprint_string", "get_args", "print_string", "readline"];
    v.sort();
    v
}

// the host's functions (what the embedder computes), also used to predict the program's output
fn f_h0() -> i64 {
    4242
}
fn f_h1(a: i64) -> i64 {
    a.wrapping_mul(2).wrapping_add(1)
}
fn f_h2(a: i64, b: &str) -> String {
    format!("<{a}|{b}>")
}
fn f_h3(a: f64, b: bool, c: i64) -> f64 {
    a + (c as f64) + if b { 0.5 } else { 0.25 }
}
fn f_h4(a: &str, b: i64, c: bool, d: f64) -> bool {
    ((a.len() as i64 + b) % 2 == 0) ^ c ^ (d > 1.0)
}

/// services h0..h4, hv and the prelude functions; logs "name(args)" in parameter order
fn host_fn() -> impl FnMut(u16, &mut VmGreenThread, &mut String) -> Option<String> {
    let names = host_names();
    move |n, t, out| {
        let name = *names.get(n as usize)?;
        Some(match name {
            "h0" => {
                f_h0().to_vm(t);
                "h0()".to_string()
            }
            "h1" => {
                let a = i64::from_vm(t);
                f_h1(a).to_vm(t);
                format!("h1({a})")
            }
            "h2" => {
                let b = String::from_vm(t);
                let a = i64::from_vm(t);
                f_h2(a, &b).to_vm(t);
                format!("h2({a},{})", hex(b.as_bytes()))
            }
            "h3" => {
                let c = i64::from_vm(t);
                let b = bool::from_vm(t);
                let a = f64::from_vm(t);
                f_h3(a, b, c).to_vm(t);
                format!("h3({:016x},{b},{c})", a.to_bits())
            }
            "h4" => {
                let d = f64::from_vm(t);
                let c = bool::from_vm(t);
                let b = i64::from_vm(t);
                let a = String::from_vm(t);
                f_h4(&a, b, c, d).to_vm(t);
                format!("h4({},{b},{c},{:016x})", hex(a.as_bytes()), d.to_bits())
            }
            "hv" => {
                let a = i64::from_vm(t);
                format!("hv({a})")
            }
            "print_string" => {
                let s = String::from_vm(t);
                out.push_str(&s);
                format!("print:{}", hex(s.as_bytes()))
            }
            "eprint_string" => {
                let s = String::from_vm(t);
                format!("eprint:{}", hex(s.as_bytes()))
            }
            "get_args" => {
                Vec::<String>::new().to_vm(t);
                "get_args".into()
            }
            "readline" => {
                String::new().to_vm(t);
                "readline".into()
            }
            _ => return None,
        })
    }
}

#[derive(Clone)]
struct Expect {
    /// exact output, when predictable from the program text
    out: Option<String>,
    /// exact final value rendering
    value: Option<String>,
    /// error kind when main must fail
    error: Option<&'static str>,
    /// host calls (other than prints) in the order main makes them
    host_calls: Option<Vec<String>>,
}

struct Job {
    /// host functions declared in a second root file given to `compile_bytecode_with_host_funcs`
    host_file: bool,
    src: String,
    class: &'static str,
    sched: Schedule,
    expect: Expect,
    /// a `hostcall` request for the model: (function, args as ints, result as int)
    model_host: Option<(usize, Vec<i64>, i64)>,
}

fn str_lit(rng: &mut Rng) -> &'static str {
    *rng.pick(&["", "a", "xyz", "héllo", "two words", "0"])
}

/// programs whose host calls, output and final value are all predictable
fn gen_host_program(rng: &mut Rng) -> (String, Expect, &'static str, Option<(usize, Vec<i64>, i64)>) {
    let mut s = String::from(HOST_DECLS);
    let mut out = String::new();
    let mut calls: Vec<String> = vec![];
    let mut model = None;
    let names = host_names();
    let idx = |n: &str| names.iter().position(|x| *x == n).unwrap();
    let style = rng.below(4);
    let class = match style {
        0 => "host:direct",
        1 => "host:nested",
        2 => "host:first-class",
        _ => "host:in-function",
    };
    let n = rng.range(1, 5);
    let mut last_val = String::new();
    for k in 0..n {
        match rng.below(6) {
            0 => {
                let call = match style {
                    // a zero-parameter host function used as a first-class value (repaired defect D44)
                    2 => {
                        s.push_str(&format!("let g{k} = h0\nlet r{k} = g{k}()\n"));
                        "h0()"
                    }
                    _ => {
                        s.push_str(&format!("let r{k} = h0()\n"));
                        "h0()"
                    }
                };
                calls.push(call.into());
                s.push_str(&format!("println(r{k})\n"));
                out.push_str(&format!("{}\n", f_h0()));
                last_val = format!("int:{}", f_h0());
                if k == 0 {
                    model = Some((idx("h0"), vec![], f_h0()));
                }
            }
            1 => {
                let a = rng.range(-1000, 1000);
                if style == 1 {
                    s.push_str(&format!("let r{k} = h1(h1({a}))\n"));
                    calls.push(format!("h1({a})"));
                    calls.push(format!("h1({})", f_h1(a)));
                    out.push_str(&format!("{}\n", f_h1(f_h1(a))));
                    last_val = format!("int:{}", f_h1(f_h1(a)));
                } else if style == 2 {
                    s.push_str(&format!("let g{k} = h1\nlet r{k} = g{k}({a})\n"));
                    calls.push(format!("h1({a})"));
                    out.push_str(&format!("{}\n", f_h1(a)));
                    last_val = format!("int:{}", f_h1(a));
                } else if style == 3 {
                    s.push_str(&format!("fn w{k}(x: int) -> int {{\n  h1(x + 1) + 1\n}}\nlet r{k} = w{k}({a})\n"));
                    calls.push(format!("h1({})", a + 1));
                    out.push_str(&format!("{}\n", f_h1(a + 1) + 1));
                    last_val = format!("int:{}", f_h1(a + 1) + 1);
                } else {
                    s.push_str(&format!("let r{k} = h1({a})\n"));
                    calls.push(format!("h1({a})"));
                    out.push_str(&format!("{}\n", f_h1(a)));
                    last_val = format!("int:{}", f_h1(a));
                    if k == 0 {
                        model = Some((idx("h1"), vec![a], f_h1(a)));
                    }
                }
                s.push_str(&format!("println(r{k})\n"));
            }
            2 => {
                let a = rng.range(-50, 50);
                let b = str_lit(rng);
                s.push_str(&format!("let r{k} = h2({a}, \"{b}\")\nprintln(r{k})\n"));
                calls.push(format!("h2({a},{})", hex(b.as_bytes())));
                out.push_str(&format!("{}\n", f_h2(a, b)));
                last_val = format!("str:{}", hex(f_h2(a, b).as_bytes()));
            }
            3 => {
                let a = rng.range(-8, 8) as f64 * 0.5;
                let b = rng.chance(1, 2);
                let c = rng.range(-9, 9);
                s.push_str(&format!("let r{k} = h3({a:?}, {b}, {c})\nprintln(r{k} == {:?})\n", f_h3(a, b, c)));
                calls.push(format!("h3({:016x},{b},{c})", a.to_bits()));
                out.push_str("true\n");
                last_val = format!("float:{:016x}", f_h3(a, b, c).to_bits());
            }
            4 => {
                let a = str_lit(rng);
                let b = rng.range(0, 9);
                let c = rng.chance(1, 2);
                let d = rng.range(0, 4) as f64 * 0.75;
                s.push_str(&format!("let r{k} = h4(\"{a}\", {b}, {c}, {d:?})\nprintln(r{k})\n"));
                calls.push(format!("h4({},{b},{c},{:016x})", hex(a.as_bytes()), d.to_bits()));
                out.push_str(&format!("{}\n", f_h4(a, b, c, d)));
                last_val = format!("bool:{}", f_h4(a, b, c, d));
            }
            _ => {
                let a = rng.range(0, 99);
                s.push_str(&format!("hv({a})\nlet r{k} = {a}\n"));
                calls.push(format!("hv({a})"));
                last_val = format!("int:{a}");
            }
        }
    }
    s.push_str(&format!("r{}\n", n - 1));
    (
        s,
        Expect { out: Some(out), value: Some(last_val), error: None, host_calls: Some(calls) },
        class,
        model,
    )
}

/// main finishes (or fails) while tasks are running, blocked on reads, waiting for the host or failed
fn gen_status_program(rng: &mut Rng) -> (String, Expect, &'static str) {
    let mut s = String::from(PC_PRELUDE);
    s.push_str("let never: channel<int> = channel()\nlet c: channel<int> = channel()\n");
    let mut class = "status:mix";
    let ntasks = rng.range(1, 3);
    for _ in 0..ntasks {
        match rng.below(5) {
            0 => s.push_str("task {\n  let x = never.read()\n  c.write(x)\n}\n"), // blocked for ever
            1 => s.push_str("task {\n  var i = 0\n  while true {\n    i = i + 1\n  }\n}\n"), // runs for ever
            2 => s.push_str("task {\n  let a = [1, 2]\n  let y = a[5]\n}\n"),     // fails
            3 => s.push_str("task {\n  spin(5)\n}\n"),                             // finishes early
            _ => s.push_str("task {\n  c.write(7)\n  let x = never.read()\n}\n"),
        }
    }
    let work = rng.range(0, 40);
    s.push_str(&format!("spin({work})\n"));
    let v = rng.range(-5, 50);
    let mut exp = Expect { out: Some(String::new()), value: None, error: None, host_calls: None };
    match rng.below(6) {
        0 => {
            class = "status:main-divzero";
            s.push_str(&format!("let z = {v} - {v}\nlet q = 10 / z\nq\n"));
            exp.error = Some("divzero");
        }
        1 => {
            class = "status:main-oob";
            s.push_str("let arr = [1, 2, 3]\nlet q = arr[3]\nq\n");
            exp.error = Some("oob");
        }
        2 => {
            class = "status:main-panic";
            s.push_str("panic(\"stop here\")\n0\n");
            exp.error = Some("panic");
        }
        3 => {
            class = "status:main-overflow";
            s.push_str(&format!("let big = 9223372036854775807\nlet q = big + {}\nq\n", v.abs() + 1));
            exp.error = Some("overflow");
        }
        _ => {
            s.push_str(&format!("{v} * 2 + 1\n"));
            exp.value = Some(format!("int:{}", v * 2 + 1));
        }
    }
    (s, exp, class)
}

/// host calls from a task while main computes: the status shows PendingHostFunc although main is merely
/// out of steps; the values travel back through a channel
fn gen_task_host_program(rng: &mut Rng) -> (String, Expect, &'static str) {
    let mut s = String::from(HOST_DECLS);
    s.push_str(PC_PRELUDE);
    let n = rng.range(1, 4);
    let a = rng.range(0, 100);
    s.push_str(&format!(
        "let c: channel<int> = channel()\ntask {{\n  for i in {n} {{\n    c.write(h1({a} + i))\n  }}\n}}\nvar total = 0\nfor i in {n} {{\n  spin({})\n  total = total + c.read()\n}}\ntotal\n",
        rng.range(0, 10)
    ));
    let total: i64 = (0..n).map(|i| f_h1(a + i)).sum();
    let calls = (0..n).map(|i| format!("h1({})", a + i)).collect();
    (s, Expect { out: Some(String::new()), value: Some(format!("int:{total}")), error: None, host_calls: Some(calls) }, "host:from-task")
}

/// main fails (each kind) or completes while ANOTHER task — one that prints in a loop for ever — has a host call
/// pending at the end of the call: the main thread's error / completion must win over the task's pending call,
/// in that call and in every later one
fn gen_pending_task_program(rng: &mut Rng) -> (String, Expect, &'static str) {
    let mut s = String::from(PC_PRELUDE);
    let per_tick = rng.range(0, 6);
    s.push_str(&format!("task {{\n  var i = 0\n  while true {{\n    println(\"tick \" .. i)\n    spin({per_tick})\n    i = i + 1\n  }}\n}}\n"));
    if rng.chance(1, 3) {
        s.push_str("task {\n  var j = 0\n  while true {\n    print(\"t\")\n    j = j + 1\n  }\n}\n");
    }
    let work = rng.range(0, 60);
    s.push_str(&format!("spin({work})\n"));
    let v = rng.range(-5, 50);
    let mut exp = Expect { out: None, value: None, error: None, host_calls: None };
    let class;
    match rng.below(5) {
        0 => {
            class = "pending-task:main-divzero";
            s.push_str(&format!("let z = {v} - {v}\nlet q = 10 / z\nq\n"));
            exp.error = Some("divzero");
        }
        1 => {
            class = "pending-task:main-oob";
            s.push_str("let arr = [1, 2, 3]\nlet q = arr[3]\nq\n");
            exp.error = Some("oob");
        }
        2 => {
            class = "pending-task:main-panic";
            s.push_str("panic(\"stop here\")\n0\n");
            exp.error = Some("panic");
        }
        3 => {
            class = "pending-task:main-overflow";
            s.push_str(&format!("let big = 9223372036854775807\nlet q = big + {}\nq\n", v.abs() + 1));
            exp.error = Some("overflow");
        }
        _ => {
            class = "pending-task:main-completes";
            s.push_str(&format!("{v} * 2 + 1\n"));
            exp.value = Some(format!("int:{}", v * 2 + 1));
        }
    }
    (s, exp, class)
}

/// the final expression statement is FOLLOWED by declaration items (fn / struct / enum / #host fn, all used
/// earlier in the file): the value of that statement is still the program's result
fn gen_trailing_decl_program(rng: &mut Rng) -> (String, Expect, &'static str) {
    let a = rng.range(-40, 40);
    let b = rng.range(1, 9);
    let mut s = String::new();
    let mut out = String::new();
    let mut calls: Vec<String> = vec![];
    // body: uses helper / Pt / Sh / h1 / h2, which are declared after the last statement
    s.push_str(&format!("let base = helper({a})\nlet p = Pt(base, {b})\nlet sh = Sh.sq({b})\n"));
    let base = a * 2 + 1;
    if rng.chance(1, 2) {
        s.push_str("println(p.x + p.y)\n");
        out.push_str(&format!("{}\n", base + b));
    }
    let area = b * b;
    let (last, value, class): (String, String, &'static str) = match rng.below(6) {
        0 => ("base + p.y".to_string(), format!("int:{}", base + b), "trailing-decl:plain-int"),
        1 => ("area(sh) * 2 - base".to_string(), format!("int:{}", area * 2 - base), "trailing-decl:fn-call"),
        2 => {
            calls.push(format!("h1({base})"));
            ("h1(base)".to_string(), format!("int:{}", f_h1(base)), "trailing-decl:host-call")
        }
        3 => {
            calls.push(format!("h2({b},{})", hex("zz".as_bytes())));
            (format!("h2({b}, \"zz\")"), format!("str:{}", hex(f_h2(b, "zz").as_bytes())), "trailing-decl:host-call-string")
        }
        4 => ("p.x < p.y".to_string(), format!("bool:{}", base < b), "trailing-decl:bool"),
        _ => ("\"r=\" .. base".to_string(), format!("str:{}", hex(format!("r={base}").as_bytes())), "trailing-decl:string"),
    };
    s.push_str(&last);
    s.push('\n');
    // one or more declaration items after the final expression statement, in random order
    let mut decls = vec![
        "fn helper(n: int) -> int {\n  n * 2 + 1\n}\n".to_string(),
        "type Pt = {\n  x: int\n  y: int\n}\n".to_string(),
        "type Sh = sq(int) | dot\n".to_string(),
        "fn area(s: Sh) -> int {\n  match s {\n    .sq(n) -> n * n\n    .dot -> 0\n  }\n}\n".to_string(),
        HOST_DECLS.to_string(),
    ];
    // keep at least one after the statement; the others go in front
    let n_after = rng.range(1, decls.len() as i64) as usize;
    for i in (1..decls.len()).rev() {
        let j = rng.below(i as u64 + 1) as usize;
        decls.swap(i, j);
    }
    let (after, before) = decls.split_at(n_after);
    let src = format!("{}{}{}", before.concat(), s, after.concat());
    (src, Expect { out: Some(out), value: Some(value), error: None, host_calls: Some(calls) }, class)
}

/// regression of D113 (fix 39422dd): a task that ends with a runtime error is released — many failing tasks
/// spawned one after the other never pile up in the run queue
fn gen_failing_tasks_program(rng: &mut Rng) -> (String, Expect, &'static str) {
    let n = rng.range(20, 60);
    let mut s = String::from(PC_PRELUDE);
    let fail = match rng.below(3) {
        0 => "let a = [1, 2]\n  let y = a[k]",
        1 => "let z = k - k\n  let y = 10 / z",
        _ => "panic(\"task fails\")",
    };
    s.push_str(&format!("fn boom(k: int) -> void {{\n  {fail}\n}}\nvar i = 0\nwhile i < {n} {{\n  task {{\n    boom(5)\n  }}\n  spin(12)\n  i = i + 1\n}}\nspin(30)\ni\n"));
    (s, Expect { out: Some(String::new()), value: Some(format!("int:{n}")), error: None, host_calls: None }, "d113:many-failing-tasks")
}

fn random_schedule(rng: &mut Rng) -> Schedule {
    match rng.below(6) {
        0 => Schedule::constant(1),
        1 => Schedule::constant(2),
        2 => Schedule::constant(3),
        3 => Schedule::constant(rng.range(4, 60) as u32),
        4 => Schedule::constant(5000),
        _ => {
            let n = rng.range(2, 5);
            let mut cycle = vec![];
            for _ in 0..n {
                cycle.push(Call { budget: rng.range(0, 12) as u32, service: rng.chance(3, 4) });
            }
            let last = cycle.len() - 1;
            cycle[last] = Call { budget: rng.range(1, 12) as u32, service: true };
            Schedule { prefix: vec![], cycle }
        }
    }
}

fn main() {
    if let Ok(f) = std::env::var("VERIF_PROBE") {
        let src = std::fs::read_to_string(&f).unwrap();
        for b in [100000u32, 1, 3] {
            let mut h = host_fn();
            let t = run_traced(&src, &Schedule::constant(b), 2_000_000, &mut h);
            println!("budget {b}: {:?} steps={} value={} out={:?} err={:?} host={:?}", t.outcome, t.total_steps, t.value, t.out, t.err_text, t.host_calls);
        }
        return;
    }
    let mut ctx = Ctx::from_env("C11");
    let quick = ctx.quick();
    let n = if quick { 150 } else { 1500 };
    // regression of the repaired defect D44 (fix acfc8f4): a zero-parameter host function used as a first-class
    // value must deliver the host's value — a hard check, and the shape is always part of the main stream
    {
        let src = std::fs::read_to_string("/verif/corpus/C11-host-arity0-first-class.abra").expect("corpus file");
        for b in [1u32, 3, 5000] {
            let mut h = prelude_host(&PRELUDE_HOSTS);
            let t = run_traced(&src, &Schedule::constant(b), 100_000, &mut h);
            if matches!(t.outcome, Outcome::Done) && t.out == "[]\n" {
                ctx.count("regression:D44-ok");
            } else {
                ctx.spec_fail(format!(
                    "budget {b}: a zero-parameter host function used as a first-class value must deliver the host's value (expected output \"[]\\n\"): {} out={:?} {} :: {}",
                    t.outcome.tag(), t.out, match &t.outcome { Outcome::Crash(m) => m.replace('\n', " | "), _ => t.err_text.replace('\n', " | ") }, src.replace('\n', "\\n")
                ));
            }
        }
    }
    let mut jobs: Vec<Job> = vec![];
    for _ in 0..(n / 10).max(6) {
        let (src, expect, class) = gen_failing_tasks_program(&mut ctx.rng);
        let sched = random_schedule(&mut ctx.rng);
        jobs.push(Job { host_file: false, src, class, sched, expect, model_host: None });
    }
    for _ in 0..n {
        let (src, expect, class) = gen_trailing_decl_program(&mut ctx.rng);
        let sched = random_schedule(&mut ctx.rng);
        jobs.push(Job { host_file: false, src, class, sched, expect, model_host: None });
    }
    for i in 0..(3 * n + n / 2 + n) {
        if i >= 3 * n + n / 2 {
            let (src, expect, class) = gen_pending_task_program(&mut ctx.rng);
            // budgets > 1: after main's failing / last step the task reaches its next host call in the same slice
            let b = *ctx.rng.pick(&[2u32, 3, 7, 100, 1_000_000]);
            jobs.push(Job { host_file: false, src, class, sched: Schedule::constant(b), expect, model_host: None });
            continue;
        }
        let (src, expect, class, model_host) = match i % 7 {
            0 | 1 | 2 => gen_host_program(&mut ctx.rng),
            3 | 4 => {
                let (s, e, c) = gen_status_program(&mut ctx.rng);
                (s, e, c, None)
            }
            5 => {
                let (s, e, c) = gen_task_host_program(&mut ctx.rng);
                (s, e, c, None)
            }
            _ => {
                let mut g = Gen::new(&mut ctx.rng);
                let s = g.single();
                (s, Expect { out: None, value: None, error: None, host_calls: None }, "single", None)
            }
        };
        let sched = random_schedule(&mut ctx.rng);
        // a third of the host-call programs declare their host functions in a second root file
        if src.starts_with(HOST_DECLS) && i % 3 == 0 {
            let body = format!("use hostfns\n{}", &src[HOST_DECLS.len()..]);
            jobs.push(Job { host_file: true, src: body, class: "host:decls-in-host-file", sched, expect, model_host });
            continue;
        }
        jobs.push(Job { host_file: false, src, class, sched, expect, model_host });
    }
    // every run: at most MAX_CALLS calls (a runtime that never reports the error must not hang the check) and,
    // once completion or failure was reported, two more calls without servicing anything
    const MAX_CALLS: usize = 20_000;
    let results = par_map(&jobs, |j| {
        let mut h = host_fn();
        let compiled = if j.host_file { compile_program_hostfile(&j.src, "hostfns.abra", HOST_DECLS) } else { compile_program(&j.src) };
        match compiled {
            Ok(mk) => run_traced_after(&mk, &j.sched, 300_000, &mut h, &[3, 500], MAX_CALLS),
            Err(o) => {
                let mut t = run_traced("", &j.sched, 0, &mut h);
                t.outcome = o;
                t
            }
        }
    });
    let names = host_names();
    for (j, t) in jobs.iter().zip(results) {
        ctx.count(&format!("class:{}", j.class));
        ctx.count(&format!("outcome:{}", t.outcome.tag()));
        let prog = || j.src.replace('\n', "\\n");
        match &t.outcome {
            Outcome::Rejected(e) => {
                ctx.count("rejected");
                if ctx.notes.len() < 5 {
                    ctx.notes.push(format!("rejected: {} :: {}", e.lines().find(|l| !l.trim().is_empty()).unwrap_or(""), prog()));
                }
                continue;
            }
            Outcome::Crash(m) => {
                ctx.spec_fail(format!("host panic in the runtime: {m} :: schedule {} :: program: {}", j.sched.describe(), prog()));
                continue;
            }
            _ => {}
        }
        let mut pf: Vec<String> = vec![];
        // ---- the property, call by call
        let mut main_stopped = false;
        for (ci, c) in t.calls.iter().enumerate() {
            let ex = executed(c);
            if c.steps > c.call.budget {
                pf.push(format!("call {ci}: steps_consumed {} > budget {} :: {} :: {}", c.steps, c.call.budget, j.sched.describe(), prog()));
            }
            if c.steps != ex {
                pf.push(format!("call {ci}: steps_consumed {} but {} instructions executed :: {} :: {}", c.steps, ex, j.sched.describe(), prog()));
            }
            let stop_pos = c.events.iter().position(|e| matches!(e, Event::Step { thread, kind: StepKind::Stop } if *thread == t.main_id));
            let n_steps_events = c.events.len();
            let done = c.status == "done";
            match (done, stop_pos) {
                (true, Some(p)) => {
                    // the call returns at once: nothing is executed after main's Stop
                    if c.events[p + 1..].iter().any(|e| matches!(e, Event::Step { .. })) {
                        pf.push(format!("call {ci}: instructions executed after main's Stop :: {}", prog()));
                    }
                    main_stopped = true;
                    ctx.count("done:at-main-stop");
                    let _ = n_steps_events;
                }
                (true, None) => pf.push(format!("call {ci}: Done reported but main did not execute Stop in this call :: {} :: {}", j.sched.describe(), prog())),
                (false, Some(_)) => pf.push(format!("call {ci}: main executed Stop but status is {} :: {} :: {}", c.status, j.sched.describe(), prog())),
                (false, None) => {}
            }
            if c.status == "pending" {
                let main_pending = c.queue.iter().any(|(id, f)| *id == t.main_id && f.starts_with('p'));
                ctx.count(if main_pending { "pending:main" } else { "pending:task-only" });
                if !c.queue.iter().any(|(_, f)| f.starts_with('p')) {
                    pf.push(format!("call {ci}: PendingHostFunc reported but no thread is pending :: {}", prog()));
                }
            }
            if c.status == "out" && c.queue.iter().any(|(_, f)| f.starts_with('p')) {
                pf.push(format!("call {ci}: a thread waits for the host but the status is OutOfSteps :: {}", prog()));
            }
            if c.status.starts_with("err:") && !c.queue.iter().any(|(id, f)| *id == t.main_id && f == "e") {
                pf.push(format!("call {ci}: MainThreadError reported but the main thread has no error :: {}", prog()));
            }
            if c.queue.iter().any(|(id, f)| *id == t.main_id && f == "e") && !c.status.starts_with("err:") {
                pf.push(format!(
                    "call {ci}: the main thread has failed but the call reports `{}` (run queue: {:?}) :: {} :: {}",
                    c.status, c.queue.iter().map(|(_, f)| f.as_str()).collect::<Vec<_>>(), j.sched.describe(), prog()
                ));
            }
            if c.status.starts_with("err:") && c.queue.iter().any(|(id, f)| *id != t.main_id && f.starts_with('p')) {
                ctx.count("main-error:while-task-pending");
            }
            if c.queue.iter().any(|(id, f)| *id != t.main_id && f == "e") {
                // D113 (fix 39422dd): a failed task is released at the end of its turn
                pf.push(format!("call {ci}: a task that failed is still parked in the run queue (run queue: {:?}) :: {} :: {}",
                    c.queue.iter().map(|(_, f)| f.as_str()).collect::<Vec<_>>(), j.sched.describe(), prog()));
            }
            if j.class.starts_with("d113") && c.queue.len() > 4 {
                pf.push(format!("call {ci}: {} threads in the run queue although every task fails at once (they must be released) :: {} :: {}",
                    c.queue.len(), j.sched.describe(), prog()));
            }
            if c.steps < c.call.budget && !done && !c.status.starts_with("err") {
                ctx.count("call:ended-early(all blocked)");
            }
            if c.call.budget == 0 {
                ctx.count("call:budget0");
            }
        }
        // calls made after completion / failure was reported, nothing serviced in between
        if let Some(last) = t.calls.last() {
            for (k, a) in t.after_calls.iter().enumerate() {
                if a.status != last.status {
                    pf.push(format!(
                        "the run reported `{}`, a further run_n_steps({}) without servicing reports `{}` (run queue: {:?}) :: {} :: {}",
                        last.status, a.call.budget, a.status, a.queue.iter().map(|(_, f)| f.as_str()).collect::<Vec<_>>(), j.sched.describe(), prog()
                    ));
                }
                if a.steps > a.call.budget || a.steps != executed(a) {
                    pf.push(format!("after-call {k}: steps_consumed {} budget {} executed {} :: {}", a.steps, a.call.budget, executed(a), prog()));
                }
                if a.events.iter().any(|e| matches!(e, Event::Step { thread, .. } if *thread == t.main_id)) {
                    pf.push(format!("after-call {k}: the finished/failed main thread executed an instruction :: {}", prog()));
                }
                if a.queue.iter().any(|(id, f)| *id != t.main_id && f.starts_with('p')) {
                    ctx.count(&format!("after:{}-with-task-pending", if last.status == "done" { "done" } else { "error" }));
                }
            }
        }
        for a in &t.accessor_issues {
            pf.push(format!("accessor disagrees with the status: {a} :: {} :: {}", j.sched.describe(), prog()));
        }
        if t.call_bound_hit {
            pf.push(format!(
                "after {MAX_CALLS} run_n_steps calls the runtime has reported neither completion nor failure (last status `{}`) :: {} :: {}",
                t.calls.last().map(|c| c.status.as_str()).unwrap_or("?"), j.sched.describe(), prog()
            ));
        }
        if matches!(t.outcome, Outcome::Done) != main_stopped {
            pf.push(format!("completion and main's Stop disagree: outcome {:?} :: {}", t.outcome, prog()));
        }
        // ---- expectations derived from the program text
        if let Some(k) = j.expect.error {
            match &t.outcome {
                Outcome::Error(got) if got == k => ctx.count("main-error:reported"),
                Outcome::Timeout if !j.class.starts_with("pending-task") => ctx.count("timeout"),
                o => pf.push(format!("main must fail with {k}, runtime reported {:?} (last status `{}`) :: {} :: {}", o, t.calls.last().map(|c| c.status.as_str()).unwrap_or("?"), j.sched.describe(), prog())),
            }
        } else if j.class != "single" {
            match &t.outcome {
                Outcome::Done => {}
                Outcome::Timeout if !j.class.starts_with("pending-task") => ctx.count("timeout"),
                o => pf.push(format!("main must complete, runtime reported {:?} ({}) :: {} :: {}", o, t.err_text.replace('\n', " | "), j.sched.describe(), prog())),
            }
        }
        if matches!(t.outcome, Outcome::Done) {
            if let Some(v) = &j.expect.value {
                if *v != t.value {
                    pf.push(format!("final value {} but the last expression evaluates to {v} :: {} :: {}", t.value, j.sched.describe(), prog()));
                }
                ctx.count("value:checked");
            }
            if let Some(o) = &j.expect.out {
                if *o != t.out {
                    pf.push(format!("output {:?}, expected {:?} :: {} :: {}", t.out, o, j.sched.describe(), prog()));
                }
            }
            if let Some(hc) = &j.expect.host_calls {
                let got: Vec<String> =
                    t.host_calls.iter().filter(|(_, w)| !w.starts_with("print:")).map(|(_, w)| w.clone()).collect();
                if *hc != got {
                    pf.push(format!("host saw {:?}, the program calls {:?} :: {} :: {}", got, hc, j.sched.describe(), prog()));
                }
                for (n, w) in &t.host_calls {
                    let name = names.get(*n as usize).copied().unwrap_or("?");
                    if !w.starts_with("print:") && !w.starts_with(name) {
                        pf.push(format!("host function number {n} is {name} but serviced as {w} :: {}", prog()));
                    }
                    ctx.count(&format!("hostcall:{name}"));
                }
            }
        }
        if pf.len() > 3 {
            let more = pf.len() - 3;
            pf.truncate(3);
            pf.push(format!("(… {more} more failures of the same program omitted)"));
        }
        for f in pf {
            ctx.spec_fail(f);
        }
        // ---- against the model
        if t.total_steps <= 2500 && t.calls.len() <= 1500 {
            let (req, ans) = trace_case(&t);
            ctx.case(format!("{req} #{}", j.sched.describe()), ans);
        }
        if let (Some((n, args, res)), Outcome::Done) = (&j.model_host, &t.outcome) {
            // first non-print host call of the run, as seen by the binding, and the value the program got
            if let Some((hn, what)) = t.host_calls.iter().find(|(_, w)| !w.starts_with("print:")) {
                let a: Vec<String> = args.iter().map(|x| x.to_string()).collect();
                let req = format!("hostcall {n} {res} {}", if a.is_empty() { "-".to_string() } else { a.join(",") });
                // implementation: function number, arguments popped (parameter order), value printed after resume
                let printed = t.out.lines().next().unwrap_or("").to_string();
                let inner = what.split_once('(').map(|x| x.1.trim_end_matches(')')).unwrap_or("");
                ctx.case(req, format!("seen {hn} {} top {printed}", if inner.is_empty() { "-" } else { inner }));
            }
        }
    }
    ctx.finish();
}
