//! Shared by C34 / C04 (bG10): the corpus of Abra programs (string literals of the repository's own
//! integration tests, read at run time, plus hand-written programs with non-ASCII text), and the
//! malformed-text stream built from it: prefixes at char boundaries, token deletion / duplication / swap,
//! char mutation, non-ASCII insertion, grammar garbage.
#![allow(dead_code)]
use vh::Rng;
#[path = "fewitness.rs"]
pub mod fewitness;
pub use fewitness::{BMOD, WITNESS_B};

/// every string literal of a Rust source file (ordinary with escapes and line continuations, raw with hashes)
pub fn rust_string_literals(src: &str) -> Vec<String> {
    let cs: Vec<char> = src.chars().collect();
    let mut out = vec![];
    let mut i = 0;
    let n = cs.len();
    while i < n {
        let c = cs[i];
        if c == '/' && i + 1 < n && cs[i + 1] == '/' {
            while i < n && cs[i] != '\n' {
                i += 1;
            }
        } else if c == '\'' {
            // char literal or lifetime: skip `'x'` / `'\n'`, leave lifetimes alone
            if i + 2 < n && cs[i + 1] == '\\' {
                i += 2;
                while i < n && cs[i] != '\'' {
                    i += 1;
                }
                i += 1;
            } else if i + 2 < n && cs[i + 2] == '\'' {
                i += 3;
            } else {
                i += 1;
            }
        } else if c == 'r' && i + 1 < n && (cs[i + 1] == '"' || cs[i + 1] == '#') && (i == 0 || !(cs[i - 1].is_alphanumeric() || cs[i - 1] == '_')) {
            let mut j = i + 1;
            let mut hashes = 0;
            while j < n && cs[j] == '#' {
                hashes += 1;
                j += 1;
            }
            if j < n && cs[j] == '"' {
                j += 1;
                let st = j;
                'outer: while j < n {
                    if cs[j] == '"' {
                        let mut k = 0;
                        while k < hashes && j + 1 + k < n && cs[j + 1 + k] == '#' {
                            k += 1;
                        }
                        if k == hashes {
                            out.push(cs[st..j].iter().collect());
                            j += 1 + hashes;
                            break 'outer;
                        }
                    }
                    j += 1;
                }
                i = j;
            } else {
                i += 1;
            }
        } else if c == '"' {
            let mut s = String::new();
            i += 1;
            while i < n && cs[i] != '"' {
                if cs[i] == '\\' && i + 1 < n {
                    i += 1;
                    match cs[i] {
                        'n' => s.push('\n'),
                        't' => s.push('\t'),
                        'r' => s.push('\r'),
                        '0' => s.push('\0'),
                        '\n' => {
                            while i + 1 < n && cs[i + 1].is_whitespace() {
                                i += 1;
                            }
                        }
                        'u' => {
                            let mut j = i + 1;
                            let mut hex = String::new();
                            if j < n && cs[j] == '{' {
                                j += 1;
                                while j < n && cs[j] != '}' {
                                    hex.push(cs[j]);
                                    j += 1;
                                }
                                i = j;
                            }
                            if let Some(ch) = u32::from_str_radix(&hex, 16).ok().and_then(char::from_u32) {
                                s.push(ch);
                            }
                        }
                        other => s.push(other),
                    }
                    i += 1;
                } else {
                    s.push(cs[i]);
                    i += 1;
                }
            }
            i += 1;
            out.push(s);
        } else {
            i += 1;
        }
    }
    out
}

fn looks_like_abra(s: &str) -> bool {
    s.len() >= 12
        && ["let ", "fn ", "println", "type ", "match ", "var ", "use ", "interface ", "for "].iter().any(|k| s.contains(k))
        && !s.contains("{}") // format strings of the test harness itself
}

pub const OWN: [&str; 8] = [
    // non-ASCII in strings, comments and next to identifiers and dots
    "let s = \"héllo wörld\"\n// ünïcödé comment → here\nlet t = s.len()\nprintln(t)\n",
    "let 日本 = 1\nlet x = \"日本語\".len()\nx.\n",
    "type Pt = { x: int, y: int }\nlet p = Pt(1, 2)\nlet é = p.x\nprintln(p.é)\np.\n",
    "let a = [\"😀\", \"a😀b\"]\nfor s in a {\n  println(s .. \"é\")\n}\n/* blöck */ let z = a.\n",
    "fn f(x: int) -> int {\n  match x {\n    0 -> 1\n    n -> n * f(n - 1)\n  }\n}\nprintln(f(5))\n",
    "let q = 1\ntask {\n  println(q)\n  let r = q + 1\n  r.\n}\n",
    "type Sh = Circle(int) | Square\nlet s: Sh = .Circle(1)\nlet v = match s {\n  .Circle(r) -> r\n  .Square -> 0\n}\ns.\nSh.\n",
    "interface Show {\n  fn show(self: Self) -> string\n}\nimplement Show for int {\n  fn show(self) -> string { \"i\" }\n}\nextend int {\n  fn twice(self) -> int { self * 2 }\n}\nlet n = 2\nn.twice().\n",
];

/// (name, text): the Abra programs embedded in the repository's integration tests plus `OWN`
pub fn corpus() -> Vec<(String, String)> {
    let mut v = vec![];
    for f in ["e2e_bytecode.rs", "lsp.rs", "threads.rs", "e2e_errors.rs"] {
        let p = vh::repo_root().join("abra_core/tests/integration").join(f);
        if let Ok(src) = std::fs::read_to_string(&p) {
            for (k, s) in rust_string_literals(&src).into_iter().filter(|s| looks_like_abra(s)).enumerate() {
                v.push((format!("{f}#{k}"), s));
            }
        }
    }
    for (k, s) in OWN.iter().enumerate() {
        v.push((format!("own#{k}"), s.to_string()));
    }
    // the witness programs of the coverage analysis: attributes, extend / implement for non-types and odd types,
    // interface constraints and output types, shebang, `()` patterns … (each reaches otherwise unexecuted code)
    for (name, _, text) in WITNESS_B {
        v.push((format!("witness#{name}"), text.to_string()));
    }
    v
}


/// Confirmed front-end crashes whose fixes have all landed (DESIGN §7 fix rows): (id, probe text).  Every
/// check runs them first, in a child process, as hard regression inputs: a crash is a failing input of the
/// property, reported with the probe's source.  Nothing is gated.
pub const GATES: [(&str, &str); 26] = [
    ("D115", "type Pt = { x: int }\ninterface Show2 {\n    fn show2(selfself ) -> string\n}\nimplement Show2 for Pt {\n    #inline\n    fn show2(self) -> string { \"pt\" }\n}\nprintln(Pt(1).show2())\n"),
    ("D115b", "type Pt = { x: int }\ninterface Show2 {\n    fn show2() -> string\n}\nimplement Show2 for Pt {\n    #inline\n    fn show2() -> string { \"pt\" }\n}\nprintln(Show2.show2())\n"),
    ("D115c", "type Pt = { x: int }\ninterface Show2 {\n    fn show2(a, self) -> string\n}\nimplement Show2 for Pt {\n    #inline\n    fn show2(a, self) -> string { \"pt\" }\n}\nprintln(Show2.show2(1, Pt(1)))\n"),
    ("D114", "type Color = Red | Green\nColor.Red = Color.Green\n"),
    ("D110", "interface Foo {\n  fn a(self: Self) -> int\n  fn b(self: Self) -> int\n}\nimplement Foo for array<Bogus> {\n  fn a(self) -> int { 1 }\n}\n"),
    ("D111", "fn foo(a: int, b: int) -> int { a + b }\nlet x = foo(1, 2"),
    ("D112", "let f = (c: C) -> 1\nprintln(f(2))\n"),
    ("D86", "type Vec = { x: int, y: int }\nimplement Num for Vec {\n    fn add(a, b) = Vec(a.x + b.x, a.y + b.y)\n    fn subtract(a, b) = Vec(a.x - b.x, a.y - b.y)\n    fn multiply(a, b) = Vec(a.x * b.x, a.y * b.y)\n    fn divide(a, b) = Vec(a.x / b.x, a.y / b.y)\n    fn power(a, b) = Vec(a.x ^ b.x, a.y ^ b.y)\n}\n\nlet v = Vec(10, 20)\nlet w = -v\nprintln(w.x)\n"),
    ("D84", "fn f(b: int = { for i in [1] { }; 2 }) -> int { b }\n"),
    ("D79", "type G = { v: array<int> }\nimplement Index for G {\n  fn index_get(self, index: int) -> int { self.v[index] }\n  fn index_set(self, index: int, val: int) -> void { self.v[index] = val }\n}\nlet g = G([1, 2, 3])\ng[1] += 2\nprintln(g[1])\n"),
    ("D80", "fn f(a: int, b: int = { let t = 3; t + 1 }) -> int { a + b }\nprintln(f(1))\n"),
    ("D82", "use lib1 as u\nlet c = u.Col.Rgb(2, 1)\nlet p = u.Pt(1, 5)\nprintln(u.Pt.m(p, 1))\nlet f = u.sub\nlet k = u.Pt\n\x1etype Col = Rgb(int, int) | Gray\ntype Pt = { x: int, y: int }\ntype Bx<T> = { v: T }\nextend Pt {\n  fn m(self, d: int) -> int { self.x + d }\n  fn mk(a: int) -> Pt { Pt(a, a) }\n}\ninterface Sp {\n  fn say(self: Self) -> string\n}\nimplement Sp for Pt {\n  fn say(self) -> string { \"pt\" }\n}\nfn sub(a: int, b: int = 1) -> int { a - b }\nfn mkpt() -> Pt { Pt(1, 2) }\n"),
    ("D83", "type Col = Rgb(r: int, g: int = { let t = 5; t }) | Gray\nlet c = Col.Rgb(1)\n"),
    ("D76", "fn f(a, a, b = 3) { a + b }\nprintln(f(1))\n"),
    ("D77", "fn g(x: int) -> int {\n  match { return 5 } { _ -> 1 }\n}\n"),
    ("D45", "let q = 1\ntask {\n  println(q)\n  let r = q + 1\n  r.\n}\n"),
    ("D60", "// a comment line to push offsets up\nfn f(a: string) -> int {\n  let x = 1\n}\nlet q = f(\"s\")\n"),
    ("D53b", "fn count(n) { (n, count(n - 1)) }\n"),
    ("D64", "let a: array<> = [1]\n"),
    ("D65", "type Pt = { x: int }\nPt\nprintln(1)\n"),
    ("D66", "interface Sp {\n  fn say(self: Self) -> string\n}\nimplement Sp for R {\n  fn say(self) -> string = \"beep\"\n}\nlet s = Sp.say(1)\n"),
    ("D57", "interface Sp {\n  fn say(self: Self) -> string\n}\nlet s = Sp.say(1)\n"),
    ("D53", "fn f() { f }\n"),
    ("D54", "implement ToString for Persn {\n  fn str(self) { \"P\" }\n}\n"),
    ("D55", "fn g(a = 1!) {}\n"),
    ("D56", "\ntype MyStatus =\n    | NotGood\n    | ReallyBad\n    | Terrible\n    | Good\n    | PrettyGood\n    | PrettyPrettyPrettyGood\n\nimplement Try for MyStatus {\n    fn branch(self) -> ControlFlow<MyStatus, MyStatus> {\n        mr atch self {\n            .NotGood -> .Break(self)\n            .ReallyBad -> .Break(self)\n            .Terrible -> .Break(self)\n            .Good -> .Continue(self)\n            .PrettyGood -> .Continue(self)\n            .PrettyPrettyPrettyGood -> .Continue(self)\n        }\n    }\n\n    fn from_residual(r: MyStatus) -> MyStatus {\n        r\n    }\n}\n\nfn test_early_exit() -> MyStatus {\n  MyStatus.Good?\n  MyStatus.PrettyGood?\n  MyStatus.PrettyPrettyPrettyGood?\n\n  // early exit happens here!\n  MyStatus.ReallyBad?\n\n  // return good status if we made it to the end (which we don't)\n  MyStatus.Good\n}\n\nmatch test_early_exit() {\n  MyStatus.ReallyBad -> 10,\n  _ -> panic(\"did not work\"),\n}\n"),
];

/// D53's shape: some `fn <name>` whose name occurs again later as a whole word
pub fn self_referential_fn(text: &str) -> bool {
    let toks = crude_tokens(text);
    for (k, &(a, b)) in toks.iter().enumerate() {
        if &text[a..b] == "fn" && k + 1 < toks.len() {
            let (c, d) = toks[k + 1];
            let name = &text[c..d];
            if name.chars().next().map(|ch| ch.is_alphabetic() || ch == '_').unwrap_or(false)
                && toks[k + 2..].iter().any(|&(e, f)| &text[e..f] == name)
            {
                return true;
            }
        }
    }
    false
}


/// INFINITE-TYPE family: self-referential definitions through every type constructor.  Each text must get
/// diagnostics or compile; none may take the process down.
pub fn infinite_type_texts() -> Vec<(String, String)> {
    let ctxs: Vec<(&str, Box<dyn Fn(&str) -> String>)> = vec![
        ("tuple", Box::new(|x| format!("(n, {x})"))),
        ("tuple-first", Box::new(|x| format!("({x}, 1)"))),
        ("array", Box::new(|x| format!("[{x}]"))),
        ("some", Box::new(|x| format!("option.some({x})"))),
        ("dot-some", Box::new(|x| format!(".some({x})"))),
        ("ok", Box::new(|x| format!("result.ok({x})"))),
        ("struct", Box::new(|x| format!("Bx({x})"))),
        ("struct2", Box::new(|x| format!("Pr(n, {x})"))),
        ("lambda", Box::new(|x| format!("() -> {x}"))),
        ("lambda-arg", Box::new(|x| format!("(k) -> ({x}, k)"))),
        ("call-arg", Box::new(|x| format!("id({x})"))),
        ("call-arg-tuple", Box::new(|x| format!("id((n, {x}))"))),
        ("array-of-tuple", Box::new(|x| format!("[(n, {x})]"))),
        ("tuple-of-array", Box::new(|x| format!("(n, [{x}])"))),
        ("some-of-tuple", Box::new(|x| format!("option.some((n, {x}))"))),
        ("lambda-of-tuple", Box::new(|x| format!("() -> (n, {x})"))),
        ("tuple-of-tuple", Box::new(|x| format!("(n, (n, {x}))"))),
        ("struct-of-tuple", Box::new(|x| format!("Bx((n, {x}))"))),
        ("if", Box::new(|x| format!("if n == 0 {{ (0, 0) }} else {{ (n, {x}) }}"))),
        ("match", Box::new(|x| format!("match n {{\n    0 -> (0, 0)\n    _ -> (n, {x})\n  }}"))),
    ];
    let pre = "type Bx<T> = { v: T }\ntype Pr<A, B> = { a: A, b: B }\nfn id(x) { x }\n";
    let mut v: Vec<(String, String)> = vec![];
    for (name, c) in &ctxs {
        for (tail_name, tail) in [("", ""), ("+use", "let r = f(3)\nprintln(1)\n")] {
            // fn f(n) { C[f(n - 1)] }
            v.push((format!("inftype:{name}:rec{tail_name}"), format!("{pre}fn f(n) {{\n  {}\n}}\n{tail}", c("f(n - 1)"))));
            v.push((format!("inftype:{name}:rec-annotated{tail_name}"), format!("{pre}fn f(n: int) {{\n  {}\n}}\n{tail}", c("f(n - 1)"))));
            // fn f() { C[f] }
            v.push((format!("inftype:{name}:self{tail_name}"), format!("{pre}fn f(n) {{\n  {}\n}}\n{tail}", c("f"))));
            // mutual recursion
            v.push((format!("inftype:{name}:mutual{tail_name}"), format!("{pre}fn f(n) {{\n  {}\n}}\nfn g(n) {{\n  f(n - 1)\n}}\n{tail}", c("g(n)"))));
            v.push((format!("inftype:{name}:mutual2{tail_name}"), format!("{pre}fn g(n) {{\n  {}\n}}\nfn f(n) {{\n  {}\n}}\n{tail}", c("f(n)"), c("g(n - 1)"))));
        }
        // lambda forms
        v.push((format!("inftype:{name}:lambda-let"), format!("{pre}let n = 1\nlet g = (n) -> {}\n", c("g(n)"))));
        v.push((format!("inftype:{name}:lambda-in-fn"), format!("{pre}fn h(n) {{\n  let g = (m) -> {}\n  g\n}}\n", c("h(n)"))));
        v.push((format!("inftype:{name}:var-assign"), format!("{pre}fn f(n) {{\n  var acc = f(n)\n  acc = {}\n  acc\n}}\n", c("acc"))));
    }
    // destructuring
    for (k, body) in [
        "let (a, rest) = f(n - 1)\n  (n, rest)",
        "let (a, rest) = f(n - 1)\n  (n, (a, rest))",
        "let (a, rest) = f(n - 1)\n  [rest]",
        "let (a, (b, rest)) = f(n - 1)\n  (a, rest)",
        "let Bx(inner) = f(n)\n  Bx((n, inner))",
        "for x in f(n) {\n    println(x)\n  }\n  [(n, f(n))]",
        "match f(n) {\n    (a, rest) -> (n, (a, rest))\n  }",
    ]
    .iter()
    .enumerate()
    {
        v.push((format!("inftype:destructure{k}"), format!("{pre}fn f(n) {{\n  {body}\n}}\n")));
        v.push((format!("inftype:destructure{k}+use"), format!("{pre}fn f(n) {{\n  {body}\n}}\nlet r = f(2)\n")));
    }
    v
}

/// TYPE-ARGUMENT ARITY family: every generic type name with 0 / too few / exact / too many type arguments
/// (`name`, `name<>`, `name<int>` …) in let annotations, parameters, return types, struct fields and variant
/// fields (the type also declared BELOW its use), each followed by a literal / constructor of that type
/// checked against the annotation; plus the prefix that ends right after the annotation.
pub fn arity_texts() -> Vec<(String, String)> {
    // (name, arity, declaration needed, literals of that type)
    let gens: [(&str, usize, &str, &[&str]); 7] = [
        ("array", 1, "", &["[1, 2]", "[]", "[[1]]"]),
        ("option", 1, "", &[".some(1)", "option.some(1)", ".none"]),
        ("result", 2, "", &[".ok(1)", "result.err(\"e\")"]),
        ("channel", 1, "", &["channel()"]),
        ("Bx", 1, "type Bx<T> = { v: T }\n", &["Bx(1)", "Bx([1])"]),
        ("Pr", 2, "type Pr<A, B> = { a: A, b: B }\n", &["Pr(1, 2)"]),
        ("Tr", 1, "type Tr<T> = Leaf | Node(T)\n", &[".Node(1)", "Tr.Leaf"]),
    ];
    let mut v: Vec<(String, String)> = vec![];
    for (name, arity, decl, lits) in gens {
        let mut spellings: Vec<(String, String)> = vec![("bare".into(), name.to_string()), ("empty".into(), format!("{name}<>"))];
        for k in 1..=arity + 1 {
            let args = vec!["int"; k].join(", ");
            spellings.push((format!("{k}of{arity}"), format!("{name}<{args}>")));
        }
        spellings.push(("nested-bare".into(), format!("{name}<{name}>")));
        spellings.push(("nested-empty".into(), format!("array<{name}<>>")));
        for (sn, t) in &spellings {
            for (li, lit) in lits.iter().enumerate() {
                let forms: Vec<(&str, String)> = vec![
                    ("let", format!("{decl}let a: {t} = {lit}\nprintln(1)\n")),
                    ("param", format!("{decl}fn p(a: {t}) -> int {{ 1 }}\nlet r = p({lit})\n")),
                    ("ret", format!("{decl}fn q() -> {t} {{ {lit} }}\nlet r = q()\n")),
                    ("field", format!("{decl}type Bk = {{ items: {t} }}\nlet b = Bk({lit})\n")),
                    ("field-below", format!("{decl}let b = Bk({lit})\ntype Bk = {{ items: {t} }}\n")),
                    ("variant", format!("{decl}type Vk = Has({t}) | Non\nlet w = Vk.Has({lit})\n")),
                    ("variant-below", format!("{decl}let w = Vk.Has({lit})\ntype Vk = Has({t}) | Non\n")),
                    ("decl-below", format!("let a: {t} = {lit}\n{decl}")),
                    ("lambda-param", format!("{decl}let lam = (a: {t}) -> 1\nlet r = lam({lit})\n")),
                ];
                for (fname, text) in forms {
                    if li == 0 {
                        // the prefix that ends right after the annotation
                        if let Some(p) = text.find(t.as_str()) {
                            v.push((format!("arity:{name}:{sn}:{fname}:prefix"), text[..p + t.len()].to_string()));
                        }
                    }
                    v.push((format!("arity:{name}:{sn}:{fname}"), text));
                }
            }
        }
    }
    v
}


/// ILL-FORMED DECLARATION family: duplicate parameter / field / variant / type-parameter / method names,
/// crossed with the features that index into declarations (default values, named arguments, `.Variant`
/// shorthand, patterns) and with calls that have too few / too many / duplicate / unknown named arguments.
pub fn illformed_decl_texts() -> Vec<(String, String)> {
    let mut v: Vec<(String, String)> = vec![];
    let fn_decls = [
        "fn f(a, a) { a }", "fn f(a, a, b = 3) { a + b }", "fn f(a = 1, a = 2) { a }", "fn f(a, b = 3, b = 4) { a + b }",
        "fn f(a: int, a: string) -> int { 1 }", "fn f(a: int, a: int, b: int = 3) -> int { a + b }", "fn f(b = 3, a) { a + b }",
        "fn f(a, b = a) { a + b }", "fn f(a, b = b) { a }", "fn f(a = f(1)) { a }", "fn f(a, a = 1, a = 2, a) { a }",
        "fn f(_, _) { 1 }", "fn f(a, b = 3) { a + b }\nfn f(a, a) { a }", "let f = (a, a) -> a", "let f = (a: int, a: int) -> a + a",
    ];
    let calls = [
        "f()", "f(1)", "f(1, 2)", "f(1, 2, 3)", "f(1, 2, 3, 4)", "f(1, b = 2)", "f(a = 1)", "f(a = 1, a = 2)", "f(1, a = 2)", "f(b = 1)",
        "f(1, 2, b = 3, b = 4)", "f(1, c = 3)", "f(b = 2, 1)", "f(a = 1, b = 2, a = 3)",
    ];
    for (i, d) in fn_decls.iter().enumerate() {
        for (j, c) in calls.iter().enumerate() {
            v.push((format!("illdecl:fn{i}:call{j}"), format!("{d}\nprintln({c})\n")));
        }
        v.push((format!("illdecl:fn{i}:value"), format!("{d}\nlet g = f\nprintln(g(1))\n")));
    }
    let struct_decls = [
        "type S = { x: int, x: int }", "type S = { x: int, x: string }", "type S = { x: int, x: int = 2 }", "type S = { x: int = 1, x: int = 2 }",
        "type S = { x: int, y: int = 2, y: int = 3 }", "type S<T, T> = { x: T, y: T }", "type S<T, T> = { x: T, x: T }", "type S = { x: S }",
        "type S = { x: int }\ntype S = { y: int }",
    ];
    let struct_uses = [
        "let s = S(1)", "let s = S(1, 2)", "let s = S(1, 2, 3)", "let s = S()", "let s = S(x = 1)", "let s = S(x = 1, x = 2)", "let s = S(1, x = 2)",
        "let s = S(y = 1)", "let s = S(1, 2)\nprintln(s.x)", "let s = S(1, 2)\nlet S(a, b) = s\nprintln(a)", "let s = S(1, 2)\nlet S(x = a) = s\nprintln(a)",
        "let s = S(1, 2)\nlet S(x = a, x = b) = s", "let s = S(1, 2)\nmatch s {\n  S(a, b) -> a\n}", "let s = S(1, 2)\nmatch s {\n  S(x = 1, x = 2) -> 1\n  _ -> 2\n}",
        "let s: S<int, int> = S(1, 2)", "let s: S<int> = S(1, 2)",
    ];
    for (i, d) in struct_decls.iter().enumerate() {
        for (j, u) in struct_uses.iter().enumerate() {
            v.push((format!("illdecl:struct{i}:use{j}"), format!("{d}\n{u}\n")));
        }
    }
    let enum_decls = [
        "type E = A | A | B", "type E = A | A(int) | B", "type E = A(int) | A(string)", "type E = V(x: int, x: int) | W", "type E = V(x: int, x: int = 2) | W",
        "type E = V(x: int, y: int = 1, y: int = 2)", "type E<T, T> = V(T) | W", "type E = V(E)", "type E = A | B\ntype E = C | D", "type E = V(int, x: int) | W",
    ];
    let enum_uses = [
        "let e: E = .A", "let e = E.A", "let e = E.A(1)", "let e: E = .A(1)", "let e = E.V(1, 2)", "let e = E.V(x = 1)", "let e = E.V(x = 1, x = 2)", "let e: E = .V(1)",
        "let e: E = .V(x = 1, y = 2)", "let e = E.V(1, 2, 3)", "let e = E.W\nmatch e {\n  .A -> 1\n  .A(n) -> n\n  _ -> 0\n}", "let e = E.W\nmatch e {\n  .V(a, b) -> a\n  .W -> 0\n}",
        "let e = E.W\nmatch e {\n  .V(x = a) -> a\n  .W -> 0\n}", "let e = E.W\nmatch e {\n  .V(x = a, x = b) -> a\n  _ -> 0\n}", "let e = E.W\nmatch e {\n  .A -> 1\n  .B -> 2\n}",
        "let e: E<int, int> = .V(1)", "fn k(e: E) -> int {\n  match e {\n    .A -> 1\n    .B -> 2\n    .C -> 3\n  }\n}",
    ];
    for (i, d) in enum_decls.iter().enumerate() {
        for (j, u) in enum_uses.iter().enumerate() {
            v.push((format!("illdecl:enum{i}:use{j}"), format!("{d}\n{u}\n")));
        }
    }
    let iface = [
        "interface I {\n  fn m(self: Self) -> int\n  fn m(self: Self) -> int\n}\nimplement I for int {\n  fn m(self) -> int { 1 }\n}\nprintln(1.m())",
        "interface I {\n  fn m(self: Self) -> int\n}\nimplement I for int {\n  fn m(self) -> int { 1 }\n  fn m(self) -> int { 2 }\n}\nprintln(1.m())",
        "interface I {\n  fn m(self: Self) -> int\n}\nimplement I for int {\n  fn m(self) -> int { 1 }\n}\nimplement I for int {\n  fn m(self) -> int { 2 }\n}\nprintln(1.m())",
        "interface I {\n  fn m(self: Self, self: Self) -> int\n}\nimplement I for int {\n  fn m(self, self) -> int { 1 }\n}\nprintln(I.m(1, 2))",
        "interface I {\n  fn m(self: Self, a: int = 3) -> int\n}\nimplement I for int {\n  fn m(self, a, a = 4) -> int { a }\n}\nprintln(1.m())",
        "interface I {\n  fn m(self: Self) -> int\n}\ninterface I {\n  fn n(self: Self) -> int\n}\nimplement I for int {\n  fn n(self) -> int { 1 }\n}\nprintln(1.n())",
        "extend int {\n  fn tw(self, self) -> int { self }\n}\nprintln(1.tw(2))",
        "extend int {\n  fn tw(self, a, a = 2) -> int { a }\n}\nprintln(1.tw(2))\nprintln(1.tw())\nprintln(1.tw(a = 3))",
        "extend int {\n  fn tw(self) -> int { 1 }\n  fn tw(self) -> int { 2 }\n}\nprintln(1.tw())",
        "extend int {\n  fn tw(a, b = 2) -> int { a + b }\n}\nprintln(int.tw(1))\nprintln(1.tw(b = 3, b = 4))",
    ];
    for (i, t) in iface.iter().enumerate() {
        v.push((format!("illdecl:iface{i}"), format!("{t}\n")));
    }
    v
}

/// DIVERGING-EXPRESSION family: `return` / `break` / `continue` / blocks ending in them / calls of things that
/// never return, in every expression position the grammar allows.
pub fn diverging_texts() -> Vec<(String, String)> {
    let divs: [(&str, &str, bool); 12] = [
        ("return", "return 5", false), ("block-return", "{ return 5 }", false), ("block-let-return", "{\n    let q = 1\n    return q\n  }", false),
        ("bare-return", "{ return }", false), ("if-return", "if x == 0 { return 1 } else { return 2 }", false), ("match-return", "match x { _ -> return 3 }", false),
        ("panic", "panic(\"no\")", false), ("block-panic", "{ panic(\"no\") }", false), ("never-call", "spin()", false),
        ("break", "break", true), ("block-break", "{ break }", true), ("block-continue", "{ continue }", true),
    ];
    let poss: Vec<(&str, Box<dyn Fn(&str) -> String>)> = vec![
        ("match-scrutinee", Box::new(|d| format!("match {d} {{ _ -> 1 }}"))),
        ("match-scrutinee-int", Box::new(|d| format!("match {d} {{\n    0 -> 1\n    n -> n\n  }}"))),
        ("match-scrutinee-bool", Box::new(|d| format!("match {d} {{\n    true -> 1\n    false -> 2\n  }}"))),
        ("match-scrutinee-tuple", Box::new(|d| format!("match {d} {{\n    (a, b) -> 1\n  }}"))),
        ("match-scrutinee-variant", Box::new(|d| format!("match {d} {{\n    .some(w) -> 1\n    .none -> 2\n  }}"))),
        ("match-scrutinee-empty", Box::new(|d| format!("match {d} {{\n  }}"))),
        ("match-in-tuple-scrutinee", Box::new(|d| format!("match (1, {d}) {{\n    (a, b) -> a\n  }}"))),
        ("match-arm", Box::new(|d| format!("match x {{\n    0 -> {d}\n    _ -> 1\n  }}"))),
        ("if-cond", Box::new(|d| format!("if {d} {{ 1 }} else {{ 2 }}"))),
        ("if-branch", Box::new(|d| format!("if x == 1 {{ {d} }} else {{ 2 }}"))),
        ("while-cond", Box::new(|d| format!("while {d} {{\n    println(1)\n  }}"))),
        ("add-left", Box::new(|d| format!("({d}) + 1"))),
        ("add-right", Box::new(|d| format!("1 + ({d})"))),
        ("not", Box::new(|d| format!("not ({d})"))),
        ("neg", Box::new(|d| format!("-({d})"))),
        ("and", Box::new(|d| format!("({d}) and true"))),
        ("concat", Box::new(|d| format!("\"a\" .. ({d}) .. \"b\""))),
        ("eq-both", Box::new(|d| format!("({d}) == ({d})"))),
        ("call-arg", Box::new(|d| format!("idf({d})"))),
        ("call-arg-named", Box::new(|d| format!("idf(v = {d})"))),
        ("println-arg", Box::new(|d| format!("println({d})"))),
        ("callee", Box::new(|d| format!("({d})(1)"))),
        ("index", Box::new(|d| format!("arr[{d}]"))),
        ("indexed", Box::new(|d| format!("({d})[0]"))),
        ("array-elem", Box::new(|d| format!("[1, {d}, 3]"))),
        ("tuple-elem", Box::new(|d| format!("({d}, 1)"))),
        ("struct-arg", Box::new(|d| format!("Pt({d}, 2)"))),
        ("variant-arg", Box::new(|d| format!("option.some({d})"))),
        ("let-rhs", Box::new(|d| format!("let v = {d}\n  v"))),
        ("let-annotated-rhs", Box::new(|d| format!("let v: int = {d}\n  v"))),
        ("let-tuple-rhs", Box::new(|d| format!("let (a, b) = {d}\n  a"))),
        ("assign-rhs", Box::new(|d| format!("var y = 1\n  y = {d}\n  y"))),
        ("compound-assign-rhs", Box::new(|d| format!("var y = 1\n  y += {d}\n  y"))),
        ("index-assign", Box::new(|d| format!("arr[{d}] = 1"))),
        ("for-iterable", Box::new(|d| format!("for i in {d} {{\n    println(i)\n  }}"))),
        ("unwrap", Box::new(|d| format!("({d})!"))),
        ("try", Box::new(|d| format!("({d})?"))),
        ("member-call", Box::new(|d| format!("({d}).len()"))),
        ("member-field", Box::new(|d| format!("({d}).x"))),
        ("lambda-body", Box::new(|d| format!("let lam = () -> {d}\n  lam()"))),
        ("return-operand", Box::new(|d| format!("return {d}"))),
        ("block-tail", Box::new(|d| format!("{{\n    println(1)\n    {d}\n  }}"))),
        ("task-body", Box::new(|d| format!("task {{\n    {d}\n  }}"))),
        ("nested-match", Box::new(|d| format!("match (match {d} {{ _ -> 1 }}) {{ _ -> 2 }}"))),
    ];
    let pre = "type Pt = { x: int, y: int }\nfn idf(v: int) -> int { v }\nfn spin() {\n  while true {\n  }\n}\nlet arr = [1, 2, 3]\n";
    let mut v: Vec<(String, String)> = vec![];
    for (dn, d, needs_loop) in divs {
        for (pn, p) in &poss {
            let e = p(d);
            let body = if needs_loop { format!("while x < 9 {{\n  {e}\n  }}\n  1") } else { format!("{e}\n  1") };
            v.push((format!("diverge:{dn}:{pn}:fn"), format!("{pre}fn g(x: int) -> int {{\n  {body}\n}}\nprintln(g(1))\n")));
            // as the tail (result) expression of the function, no declared return type
            if !needs_loop {
                v.push((format!("diverge:{dn}:{pn}:tail"), format!("{pre}fn g(x) {{\n  {e}\n}}\n")));
            }
            // at top level (return / break outside of a function or loop)
            v.push((format!("diverge:{dn}:{pn}:top"), format!("{pre}let x = 1\n{e}\n")));
        }
        v.push((format!("diverge:{dn}:default-arg"), format!("{pre}fn k(x: int, a = {d}) -> int {{ a }}\nprintln(k(1))\n")));
        v.push((format!("diverge:{dn}:field-default"), format!("{pre}type Dd = {{ a: int = {d} }}\nlet x = 1\nlet dd = Dd()\n")));
    }
    v
}


/// LITERAL-EDGE family: every prefix (at every char boundary) of short texts made of string / number / comment
/// literals in all their spellings, and the degenerate spellings themselves (empty triple-quoted literals,
/// quotes at end of input, escapes cut in the middle).
pub fn literal_edge_texts() -> Vec<(String, String)> {
    let bases = [
        "let s = \"\"\"hello wor\"\"\"\nlet t = 1\n",
        "let s = \"\"\"\n    hello\n      world\n    \"\"\"\nprintln(s)\n",
        "let s = \"\"\"first\n  second \\n \\x41 \\q\n\"\"\"\n",
        "let e = \"\"\"\"\"\"\nlet b = \"\"\"   \"\"\"\nlet c = \"\"\"\t\"\"\"\n",
        "let q = \"a\\\"b\\\\c\\n\\t\\x41\\x7f\\u\" .. 'sq\\'x' .. \"é日😀\"\n",
        "let n = 1_000 + 0x1F + 1.5e3 + 2. + .5 + 1__2 + 9223372036854775808 + 1.2.3\n",
        "/* a /* nested */ b */ let x = 1 // tail\n#!shebang\n/**/ let y = 2 /* open",
        "println(\"\"\"\"\"\" .. \"\"\"x\"\"\" .. \"\" .. '' .. \"\\\"\")\n",
    ];
    let mut v: Vec<(String, String)> = vec![];
    for (k, b) in bases.iter().enumerate() {
        for (i, _) in b.char_indices().chain(std::iter::once((b.len(), ' '))) {
            v.push((format!("litedge:base{k}:prefix"), b[..i].to_string()));
        }
    }
    for (k, t) in ["\"\"\"\"\"\"", "\"\"\"   \"\"\"", "\"\"\"", "\"\"\"\"", "\"\"\"\"\"", "\"\"\"\"\"\"\"", "\"\"\"\n", "\"\"\"\n\"\"\"", "\"\"\" \n \"\"\"",
        "\"", "'", "\"\\", "'\\", "\"\\x", "\"\\x4", "\"\\u{", "\\", "\\\n", "let s = \"\"\"hello wor", "f(\"\"\"", "\"\"\"\\", "\"\"\"a\\"]
        .iter()
        .enumerate()
    {
        v.push((format!("litedge:degenerate{k}"), t.to_string()));
        v.push((format!("litedge:degenerate{k}:in-let"), format!("let s = {t}")));
        v.push((format!("litedge:degenerate{k}:in-call"), format!("println({t})\nlet z = 1\n")));
    }
    v
}


pub const NS_LIB: &str = "type Col = Rgb(int, int) | Gray\ntype Pt = { x: int, y: int }\ntype Bx<T> = { v: T }\nextend Pt {\n  fn m(self, d: int) -> int { self.x + d }\n  fn mk(a: int) -> Pt { Pt(a, a) }\n}\ninterface Sp {\n  fn say(self: Self) -> string\n}\nimplement Sp for Pt {\n  fn say(self) -> string { \"pt\" }\n}\nfn sub(a: int, b: int = 1) -> int { a - b }\nfn mkpt() -> Pt { Pt(1, 2) }\n";
pub const INDEX_DECL: &str = "type G = { v: array<int> }\nimplement Index for G {\n  fn index_get(self, index: int) -> int { self.v[index] }\n  fn index_set(self, index: int, val: int) -> void { self.v[index] = val }\n}\n";

/// DEFAULT-VALUE family: default values of function parameters, lambda parameters, struct fields, variant
/// fields and methods containing every binding construct, with the default omitted at call sites at top
/// level, inside functions, lambdas and tasks.
pub fn default_binding_texts() -> Vec<(String, String)> {
    let binds: [(&str, &str); 16] = [
        ("let", "{ let t = 3; t + 1 }"), ("let-tuple", "{ let (p, q) = (1, 2); p + q }"), ("match-bind", "match 3 { n -> n + 1 }"),
        ("match-tuple", "match (1, 2) { (p, q) -> p + q }"), ("match-variant", "match option.some(2) { .some(v) -> v, .none -> 0 }"),
        ("for", "{ var s = 0; for i in [1, 2] { s = s + i }; s }"), ("lambda-call", "((z) -> z + 1)(2)"), ("lambda-let", "{ let lam = (z) -> z + 1; lam(2) }"),
        ("nested-default", "hh()"), ("earlier-param", "{ let t = a; t }"), ("if-let", "if true { let t = 1; t } else { 2 }"), ("while-let", "{ while false { let w = 1 }; 4 }"),
        ("array-let", "{ let arr = [1, 2]; arr[0] }"), ("nested-block", "{ let t = { let w = 2; w }; t }"), ("shadow", "{ let a = 7; a }"), ("string", "\"s\""),
    ];
    let pre = "fn hh(q: int = { let w = 2; w }) -> int { q }\n";
    let mut v: Vec<(String, String)> = vec![];
    for (bn, b) in binds {
        let decls: Vec<(&str, String, Vec<&str>)> = vec![
            ("fn", format!("fn f(a: int, b: int = {b}) -> int {{ a + b }}"), vec!["f(1)", "f(1, 2)", "f(1, b = 2)", "f(a = 1)"]),
            ("fn-untyped", format!("fn f(a, b = {b}) {{ a + b }}"), vec!["f(1)", "f(1, 2)"]),
            ("fn-two", format!("fn f(a: int, b: int = {b}, c: int = {b}) -> int {{ a + b + c }}"), vec!["f(1)", "f(1, c = 2)"]),
            ("lambda", format!("let f = (a: int, b: int = {b}) -> a + b"), vec!["f(1)", "f(1, 2)"]),
            ("struct", format!("type S = {{ a: int, b: int = {b} }}"), vec!["S(1).b", "S(1, 2).b", "S(a = 1).b"]),
            ("variant", format!("type E = V(a: int, b: int = {b}) | W\nfn vb(e: E) -> int {{\n  match e {{\n    .V(x, y) -> y\n    .W -> 0\n  }}\n}}"), vec!["vb(E.V(1))", "vb(E.V(1, 2))", "vb(E.V(a = 1))", "vb(.V(1))"]),
            ("method", format!("extend int {{\n  fn m(self, b: int = {b}) -> int {{ self + b }}\n}}"), vec!["1.m()", "1.m(2)", "int.m(1)"]),
            ("impl", format!("interface Im {{\n  fn im(self: Self, b: int = 3) -> int\n}}\nimplement Im for int {{\n  fn im(self, b: int = {b}) -> int {{ self + b }}\n}}"), vec!["1.im()", "Im.im(1)"]),
        ];
        for (dn, d, calls) in decls {
            for (ci, c) in calls.iter().enumerate() {
                let sites = [
                    ("top", format!("println({c})")),
                    ("in-fn", format!("fn caller() {{\n  println({c})\n}}\ncaller()")),
                    ("in-lambda", format!("let l = () -> {c}\nprintln(l())")),
                    ("in-task", format!("task {{\n  println({c})\n}}")),
                ];
                for (sn, site) in sites {
                    if ci > 0 && sn != "top" {
                        continue;
                    }
                    v.push((format!("defbind:{bn}:{dn}:call{ci}:{sn}"), format!("{pre}{d}\n{site}\n")));
                }
            }
        }
    }
    v
}

/// NAMESPACE family (two files, `main` + `\x1e` + `lib1`): every declaration kind of the library reached through
/// `use lib1 as u` in call, constructor, qualifier, pattern, type-annotation and first-class-value position.
pub fn namespace_texts() -> Vec<(String, String)> {
    let uses = [
        "println(u.sub(3, 1))", "println(u.sub(3))", "println(u.sub(a = 3))", "let p = u.Pt(1, 5)\nprintln(p.y)", "let p = u.Pt(x = 1, y = 5)\nprintln(p.x)",
        "let c = u.Col.Rgb(2, 1)", "let c = u.Col.Gray", "let c: u.Col = .Gray", "let c: u.Col = .Rgb(1, 2)", "let p: u.Pt = u.Pt(1, 2)", "let b: u.Bx<int> = u.Bx(1)",
        "let p = u.Pt(1, 5)\nprintln(u.Pt.m(p, 1))", "let p = u.Pt(1, 5)\nprintln(p.m(1))", "let p = u.Pt.mk(3)\nprintln(p.x)", "let p = u.mkpt()\nprintln(p.y)",
        "let p = u.Pt(1, 5)\nprintln(u.Sp.say(p))", "let p = u.Pt(1, 5)\nprintln(p.say())",
        "let c = u.Col.Rgb(2, 1)\nlet r = match c {\n  u.Col.Rgb(a, b) -> a\n  u.Col.Gray -> 0\n}", "let c = u.Col.Rgb(2, 1)\nlet r = match c {\n  .Rgb(a, b) -> a\n  .Gray -> 0\n}",
        "let p = u.Pt(1, 5)\nlet u.Pt(a, b) = p\nprintln(a)", "let p = u.Pt(1, 5)\nmatch p {\n  u.Pt(a, b) -> println(a)\n}",
        "let f = u.sub\nprintln(f(3, 1))", "let k = u.Pt\nlet p = k(1, 2)", "let w = u.Col.Rgb\nlet c = w(1, 2)", "let i = u.Sp", "let e = u.Col", "let z = u", "let m = u.Pt.m",
        "let fs = [u.sub, u.sub]\nprintln(fs[0](3, 1))", "fn ap(f: (int, int) -> int) -> int { f(3, 1) }\nprintln(ap(u.sub))", "fn tk(p: u.Pt) -> int { p.x }\nprintln(tk(u.Pt(1, 2)))",
        "fn rt() -> u.Col { u.Col.Gray }\nlet c = rt()", "type Wr = { inner: u.Pt, c: u.Col }\nlet w = Wr(u.Pt(1, 2), u.Col.Gray)\nprintln(w.inner.x)",
        "extend u.Pt {\n  fn dbl(self) -> int { self.x * 2 }\n}\nprintln(u.Pt(1, 2).dbl())", "implement ToString for u.Pt {\n  fn str(self) -> string { \"p\" }\n}\nprintln(u.Pt(1, 2))",
        "println(u.nothere)", "println(u.Pt.nothere)", "let c = u.Col.Nope", "println(u.u.sub(1, 2))", "println(u.sub.sub)", "u.Pt(1, 2).x = 3", "var p = u.Pt(1, 2)\np.x += 1\nprintln(p.x)",
        "task {\n  println(u.sub(3, 1))\n  let c = u.Col.Rgb(1, 2)\n}", "let l = () -> u.Pt.m(u.Pt(1, 2), 3)\nprintln(l())",
    ];
    let heads = ["use lib1 as u", "use lib1 as u\nuse lib1", "use lib1 as u\nuse lib1 as w", "use lib1", "use lib1.(sub)\nuse lib1 as u"];
    let mut v: Vec<(String, String)> = vec![];
    for (hi, h) in heads.iter().enumerate() {
        for (ui, us) in uses.iter().enumerate() {
            let body = if *h == "use lib1" { us.replace("u.", "") } else { us.to_string() };
            v.push((format!("nsuse:head{hi}:use{ui}"), format!("{h}\n{body}\n\x1e{NS_LIB}")));
        }
    }
    // everything at once
    v.push(("nsuse:all".into(), format!("use lib1 as u\n{}\n\x1e{NS_LIB}", uses[..35].iter().map(|u| format!("{{\n{u}\n}}")).collect::<Vec<_>>().join("\n"))));
    v
}

/// ASSIGNMENT family: every assignment operator on every target kind the grammar allows.
pub fn assignment_texts() -> Vec<(String, String)> {
    let ops = ["=", "+=", "-=", "*=", "/=", "%="];
    let pre = format!("type Pt = {{ x: int, y: float, v: array<int>, s: string }}\ntype Ou = {{ p: Pt }}\n{INDEX_DECL}type Hg = {{ g: G }}\ntype Cl = Rd | Gn(int)\nfn mk() -> Pt {{ Pt(1, 2.0, [1, 2], \"s\") }}\n");
    let targets: [(&str, &str, &str); 37] = [
        ("enum-variant", "let q = 1", "Cl.Rd"), ("enum-variant-payload", "let q = 1", "Cl.Gn"), ("dot-variant", "let q: Cl = .Rd", ".Rd"), ("type-name", "let q = 1", "Pt"),
        ("enum-name", "let q = 1", "Cl"), ("fn-name", "let q = 1", "mk"), ("prelude-fn-name", "let q = 1", "println"), ("tuple-literal", "var t1 = 1\nvar t2 = 2", "(t1, t2)"),
        ("array-literal", "var t1 = 1", "[t1, 2]"), ("variant-call", "let q = 1", "Cl.Gn(1)"), ("ctor-call", "let q = 1", "Pt(1, 2.0, [1], \"s\")"),
        ("var", "var t = 5", "t"), ("let", "let t = 5", "t"), ("var-float", "var t = 5.0", "t"), ("var-string", "var t = \"a\"", "t"),
        ("field", "var p = mk()", "p.x"), ("field-let", "let p = mk()", "p.x"), ("field-float", "var p = mk()", "p.y"), ("field-string", "var p = mk()", "p.s"),
        ("nested-field", "var o = Ou(mk())", "o.p.x"), ("index", "var a = [1, 2, 3]", "a[1]"), ("index-let", "let a = [1, 2, 3]", "a[1]"), ("index-oob", "var a = [1]", "a[7]"),
        ("nested-index", "var aa = [[1, 2], [3, 4]]", "aa[0][1]"), ("field-of-index", "var ps = [mk(), mk()]", "ps[0].x"), ("index-of-field", "var p = mk()", "p.v[1]"),
        ("user-index", "var g = G([1, 2, 3])", "g[1]"), ("user-index-let", "let g = G([1, 2, 3])", "g[1]"), ("user-index-nested", "var gs = [G([1, 2]), G([3])]", "gs[0][1]"),
        ("user-index-in-field", "var h = Hg(G([1, 2]))", "h.g[1]"), ("call-result-field", "let q = 1", "mk().x"), ("call-result-index", "let q = 1", "mk().v[0]"),
        ("literal", "let q = 1", "1"), ("tuple-elem", "var tp = (1, 2)", "tp"), ("string-index", "var st = \"abc\"", "st[0]"), ("paren", "var t = 5", "(t)"), ("unknown", "let q = 1", "nowhere"),
    ];
    let mut v: Vec<(String, String)> = vec![];
    for (tn, decl, target) in targets {
        for op in ops {
            for (rn, rhs) in [("int", "2"), ("float", "2.5"), ("string", "\"z\""), ("self", target)] {
                if (rn == "float" || rn == "string") && !(tn.contains("float") || tn.contains("string") || op == "=" || op == "+=") {
                    continue;
                }
                v.push((format!("assign:{tn}:{}:{rn}", op.replace('=', "eq")), format!("{pre}{decl}\n{target} {op} {rhs}\nprintln({target})\n")));
            }
        }
        // the same targets inside a function parameter / lambda capture / loop
        v.push((format!("assign:{tn}:in-fn"), format!("{pre}fn run() {{\n  {decl}\n  {target} += 2\n  {target} = {target}\n  println({target})\n}}\nrun()\n")));
        v.push((format!("assign:{tn}:in-lambda"), format!("{pre}{decl}\nlet l = () -> {{\n  {target} += 2\n  {target}\n}}\nprintln(l())\n")));
        v.push((format!("assign:{tn}:in-loop"), format!("{pre}{decl}\nfor i in [1, 2] {{\n  {target} *= i\n}}\nprintln({target})\n")));
    }
    // names reached through a namespace as assignment targets (two files)
    for (k, target) in ["u.sub", "u.Pt", "u.Col", "u.Col.Gray", "u.Col.Rgb", "u", "u.mkpt().x", "u.Pt(1, 2).x", "u.nothere"].iter().enumerate() {
        for op in ops {
            v.push((format!("assign:ns{k}:{}", op.replace('=', "eq")), format!("use lib1 as u\n{target} {op} 2\nprintln(1)\n\x1e{NS_LIB}")));
        }
        v.push((format!("assign:ns{k}:self"), format!("use lib1 as u\n{target} = {target}\n\x1e{NS_LIB}")));
    }
    for (k, t) in [
        "fn pa(a: int) -> int {\n  a += 1\n  a\n}\nprintln(pa(1))", "for i in [1, 2] {\n  i += 1\n}", "match 3 {\n  n -> {\n    n -= 1\n  }\n}",
        "var a = 1\nvar b = 2\na = b = 3", "var a = 1\na += a += 1", "var a = [1]\na[a[0] = 0] = 2", "var a = 1\na =", "var a = 1\n+= 2", "var a = 1\na += \n 2",
    ]
    .iter()
    .enumerate()
    {
        v.push((format!("assign:odd{k}"), format!("{t}\n")));
    }
    v
}


/// COMPLETION family: dot completion right behind every kind of receiver text — identifiers with non-ASCII
/// characters directly in front of them, non-ASCII receivers, string / number / bracket receivers, an `as`
/// alias (two files: main + `\x1e` + lib1), an interface with output types, a function name, programs with a bare `return` and
/// with lambda parameter defaults.  Each entry: (label, text, byte offset right behind the `.`, labels the
/// answer must contain, answer must be empty).
pub fn completion_texts() -> Vec<(String, String, usize, Vec<&'static str>, bool)> {
    let mut v: Vec<(String, String, usize, Vec<&'static str>, bool)> = vec![];
    let mut add = |label: &str, text: String, must: Vec<&'static str>, empty: bool| {
        let main = text.split('\x1e').next().unwrap_or("");
        let off = main.rfind('.').map(|i| i + 1).unwrap_or(main.len());
        v.push((format!("complete:{label}"), text, off, must, empty));
    };
    let arr = "let v = [1, 2]\n";
    // an ASCII identifier directly behind a non-ASCII character (the identifier scan must stop on a char boundary)
    for (k, pre) in ["é", "世界", "😀", "ß", "\u{301}", "\u{a0}", "日本x", "\"世界\"", "// é", "/* 日 */", "aé", "é_"].iter().enumerate() {
        add(&format!("nonascii-before-ident{k}"), format!("{arr}{pre}v."), vec![], false);
        add(&format!("nonascii-receiver{k}"), format!("{arr}{pre}."), vec![], false);
        add(&format!("nonascii-inside-line{k}"), format!("{arr}let q = {pre}v.\nlet z = 1\n"), vec![], false);
    }
    add("array-var", format!("{arr}v."), vec!["len", "push"], false);
    add("string-var", "let s = \"a\"\ns.".to_string(), vec!["str", "equal"], false);
    add("int-var", "let n = 1\nn.".to_string(), vec![], false);
    add("struct-var", "type Pt = { x: int, y: int }\nlet p = Pt(1, 2)\np.".to_string(), vec!["x", "y"], false);
    add("enum-name", "type Cl = Rd | Gn(int)\nCl.".to_string(), vec!["Rd", "Gn"], false);
    add("struct-name", "type Pt = { x: int }\nextend Pt {\n  fn m(self) -> int { 1 }\n}\nPt.".to_string(), vec!["m"], false);
    add("interface-with-output-types", "Iterable.".to_string(), vec!["make_iterator", "IterableItem"], false);
    add("function-name", "fn foo() -> int { 1 }\nfoo.".to_string(), vec![], true);
    add("bare-return", format!("fn f() -> void {{ return }}\n{arr}v."), vec!["len"], false);
    add("lambda-default", format!("let g = (a: int, b: int = a) -> a + b\n{arr}v."), vec!["len"], false);
    add("task-block", format!("{arr}task {{\n  println(v.len())\n}}\nv."), vec!["len"], false);
    add("no-receiver", ".".to_string(), vec![], true);
    add("number-receiver", "1.".to_string(), vec![], false);
    add("paren-receiver", format!("{arr}(v)."), vec![], true);
    add("unknown-receiver", "nothere.".to_string(), vec![], true);
    add("alias", format!("use lib1 as m\nm.\x1e{BMOD}"), vec!["mk", "Pt", "Color"], false);
    add("alias-then-more", format!("use lib1 as m\nlet p = m.mk()\np.\x1e{BMOD}"), vec![], false);
    v
}


/// DEFAULT-CONTEXT family: the expression forms that consult the checker's context stacks (`?`, `!`, `return`,
/// `break`, `continue`, blocks / matches / ifs / lambdas ending in them) as (part of) a DEFAULT VALUE, in every
/// host that takes a default (typed and untyped function, lambda, extension method, impl method in and not in
/// the interface, struct field, variant field), with operands of known Try type, unknown type and non-Try
/// type, the host written at top level and nested in a function, a loop and a lambda.
pub fn default_context_texts() -> Vec<(String, String)> {
    let exprs: [(&str, &str); 26] = [
        ("try-option", "half(8)?"), ("try-result", "res(8)?"), ("try-unknown", "nothere(8)?"), ("try-non-try", "8?"), ("try-param", "n?"),
        ("try-nested", "half(half(8)?)?"), ("try-in-arith", "1 + half(8)?"), ("try-in-block", "{ let t = half(8)?; t }"), ("try-in-lambda", "(() -> half(8)?)()"),
        ("try-in-call", "idf(half(8)?)"), ("try-in-match", "match half(8)? { 0 -> 1, k -> k }"), ("try-in-if", "if half(8)? > 1 { 1 } else { 2 }"),
        ("unwrap-option", "half(8)!"), ("unwrap-unknown", "nothere(8)!"), ("unwrap-non-option", "8!"), ("unwrap-then-try", "half(half(8)!)?"),
        ("return", "return 5"), ("block-return", "{ return 5 }"), ("match-return", "match half(8) { .some(v) -> v, .none -> return 0 }"), ("if-return", "if true { return 1 } else { 2 }"),
        ("break", "break"), ("block-break", "{ break }"), ("continue", "{ continue }"), ("loop-with-break", "{ var s = 0; while true { s = s + 1; break }; s }"),
        ("panic", "panic(\"no\")"), ("task", "{ task { println(1) }; 3 }"),
    ];
    let pre = "fn half(n: int) -> option<int> {\n  if n > 0 { option.some(n / 2) } else { option.none }\n}\nfn res(n: int) -> result<int, string> { result.ok(n) }\nfn idf(v: int) -> int { v }\n";
    let mut v: Vec<(String, String)> = vec![];
    for (en, e) in exprs {
        let hosts: Vec<(&str, String, &str)> = vec![
            ("fn", format!("fn shrink(n: int, step: int = {e}) -> int {{ n - step }}"), "shrink(9)"),
            ("fn-option-ret", format!("fn shrink(n: int, step: int = {e}) -> option<int> {{ option.some(n - step) }}"), "shrink(9)"),
            ("fn-untyped", format!("fn shrink(n, step = {e}) {{ n - step }}"), "shrink(9)"),
            ("lambda", format!("let shrink = (n, step = {e}) -> n - step"), "shrink(9)"),
            ("lambda-typed", format!("let shrink = (n: int, step: int = {e}) -> n - step"), "shrink(9, 1)"),
            ("method", format!("extend int {{\n  fn shrink(self, step: int = {e}) -> int {{ self - step }}\n}}"), "9.shrink()"),
            ("impl-method", format!("interface Sk {{\n  fn shrink(self: Self, step: int = 1) -> int\n}}\nimplement Sk for int {{\n  fn shrink(self, step: int = {e}) -> int {{ self - step }}\n}}"), "Sk.shrink(9)"),
            ("impl-extra-method", format!("interface Sk {{\n  fn keep(self: Self) -> int\n}}\nimplement Sk for int {{\n  fn keep(self) -> int {{ self }}\n  fn shrink(self, step: int = {e}) -> int {{ self - step }}\n}}"), "9.keep()"),
            ("struct-field", format!("type Sf = {{ n: int, step: int = {e} }}"), "Sf(9).step"),
            ("variant-field", format!("type Vf = Vv(n: int, step: int = {e}) | Ww"), "Vf.Vv(9)"),
        ];
        for (hn, h, call) in hosts {
            v.push((format!("defctx:{en}:{hn}:top"), format!("{pre}{h}\nlet r = {call}\n")));
            v.push((format!("defctx:{en}:{hn}:decl-only"), format!("{pre}{h}\n")));
            if h.starts_with("let ") {
                // the lambda host can also be written inside other bodies
                v.push((format!("defctx:{en}:{hn}:in-fn"), format!("{pre}fn outer(n: int) -> option<int> {{\n  {h}\n  option.some({call})\n}}\n")));
                v.push((format!("defctx:{en}:{hn}:in-loop"), format!("{pre}while true {{\n  {h}\n  println({call})\n  break\n}}\n")));
                v.push((format!("defctx:{en}:{hn}:in-lambda"), format!("{pre}let outer = (n: int) -> {{\n  {h}\n  {call}\n}}\n")));
                v.push((format!("defctx:{en}:{hn}:in-task"), format!("{pre}task {{\n  {h}\n  println({call})\n}}\n")));
            } else {
                v.push((format!("defctx:{en}:{hn}:call-in-fn"), format!("{pre}{h}\nfn outer() -> option<int> {{\n  for i in [1, 2] {{\n    let r = {call}\n  }}\n  option.none\n}}\n")));
            }
        }
        // other unusual hosts: attribute argument position does not take expressions; annotations' constraint arguments take types
        v.push((format!("defctx:{en}:nested-default"), format!("{pre}fn outer(a: int = ((k, step = {e}) -> k - step)(1)) -> int {{ a }}\nlet r = outer()\n")));
    }
    v
}


/// EDITING-STATE family (1): balanced skeletons.  The text cut at a token boundary, every bracket that is open at
/// the cut closed again in order (what an editor with auto-closing brackets holds while one types).
pub fn balanced_states(text: &str, stride: usize, phase: usize) -> Vec<String> {
    let toks = crude_tokens(text);
    let mut v = vec![];
    let mut stack: Vec<char> = vec![];
    let mut in_str: Option<char> = None;
    for (k, &(a, b)) in toks.iter().enumerate() {
        let t = &text[a..b];
        let c = t.chars().next().unwrap_or(' ');
        match in_str {
            Some(q) => {
                if c == q {
                    in_str = None;
                }
            }
            None => match c {
                '"' | '\'' => in_str = Some(c),
                '(' => stack.push(')'),
                '[' => stack.push(']'),
                '{' => stack.push('}'),
                ')' | ']' | '}' => {
                    if stack.last() == Some(&c) {
                        stack.pop();
                    }
                }
                _ => {}
            },
        }
        if (k + phase) % stride.max(1) == 0 {
            let mut s = text[..b].to_string();
            if let Some(q) = in_str {
                s.push(q);
            }
            for (i, c) in stack.iter().rev().enumerate() {
                // a block closes on a line of its own, parentheses and brackets in place
                if *c == '}' {
                    s.push_str(if i == 0 { " }" } else { "\n}" });
                } else {
                    s.push(*c);
                }
            }
            s.push('\n');
            v.push(s);
        }
    }
    v
}

/// EDITING-STATE family (2): one identifier occurrence (declaration and uses independently) truncated to a proper
/// prefix — in particular to its first letter, which for a capitalised type name is a TYPE VARIABLE.
pub fn identifier_truncations(text: &str, all_lengths: bool, stride: usize, phase: usize) -> Vec<String> {
    let toks = crude_tokens(text);
    let mut v = vec![];
    let mut n = 0;
    for &(a, b) in &toks {
        let t = &text[a..b];
        let first = t.chars().next().unwrap_or(' ');
        if !(first.is_alphabetic() || first == '_') || t.chars().count() < 2 || !t.is_ascii() {
            continue;
        }
        n += 1;
        // capitalised names always (they become type variables), the others by stride
        if !first.is_uppercase() && (n + phase) % stride.max(1) != 0 {
            continue;
        }
        let lens: Vec<usize> = if all_lengths { (1..t.len()).collect() } else { vec![1, (t.len() / 2).max(1)] };
        for l in lens {
            v.push(format!("{}{}{}", &text[..a], &t[..l], &text[b..]));
        }
    }
    v.dedup();
    v
}

/// EDITING-STATE family (3): top-level items reordered and duplicated (items = runs of lines starting at column 0
/// with balanced brackets).
pub fn item_shuffles(rng: &mut Rng, text: &str, n: usize) -> Vec<String> {
    let mut items: Vec<String> = vec![];
    let mut cur = String::new();
    let mut depth: i32 = 0;
    for line in text.split_inclusive('\n') {
        let starts_item = depth <= 0 && !line.starts_with(' ') && !line.starts_with('\t') && !line.starts_with('}') && !line.trim().is_empty();
        if starts_item && !cur.trim().is_empty() {
            items.push(std::mem::take(&mut cur));
        }
        cur.push_str(line);
        for c in line.chars() {
            match c {
                '(' | '[' | '{' => depth += 1,
                ')' | ']' | '}' => depth -= 1,
                _ => {}
            }
        }
    }
    if !cur.trim().is_empty() {
        items.push(cur);
    }
    let mut v = vec![];
    if items.len() < 2 {
        return v;
    }
    for _ in 0..n {
        let mut it = items.clone();
        let i = rng.below(it.len() as u64) as usize;
        let j = rng.below(it.len() as u64) as usize;
        match rng.below(4) {
            0 => it.swap(i, j),
            1 => {
                let x = it[i].clone();
                it.insert(j, x);
            }
            2 => {
                let x = it.remove(i);
                it.push(x);
            }
            _ => it.reverse(),
        }
        v.push(it.concat());
    }
    v
}

/// EDITING-STATE family (4): `implement` / `extend` headers over {type variable, unknown name, builtin, instantiated
/// generic, generic, function type, tuple, wildcard, user type} x every prelude interface (with and without output
/// types; empty body, partial body, full body) x uses that reach the implementation (for, `!`, `?`, ==, <, +, ..,
/// println, indexing).
pub fn impl_header_texts() -> Vec<(String, String)> {
    let targets = ["T", "C", "Nope", "int", "string", "array<int>", "array<T>", "option<int>", "int -> int", "(int, int)", "_", "Cd", "Bx<int>", "Bx<T>", "Cd<int>"];
    let ifaces: [(&str, &str, &str); 11] = [
        ("ToString", "", "  fn str(s) -> string { \"cd\" }\n"),
        ("Clone", "", "  fn clone(x) { x }\n"),
        ("Equal", "", "  fn equal(a, b) -> bool { true }\n"),
        ("Hash", "", "  fn hash(a) -> int { 1 }\n"),
        ("Ord", "  fn less_than(a, b) -> bool { true }\n", "  fn less_than(a, b) -> bool { true }\n  fn less_than_or_equal(a, b) -> bool { true }\n  fn greater_than(a, b) -> bool { false }\n  fn greater_than_or_equal(a, b) -> bool { false }\n"),
        ("Num", "  fn add(a, b) { a }\n", "  fn add(a, b) { a }\n  fn subtract(a, b) { a }\n  fn multiply(a, b) { a }\n  fn divide(a, b) { a }\n  fn power(a, b) { a }\n"),
        ("Unwrap", "", "  fn unwrap(self) -> int { 1 }\n"),
        ("Try", "  fn from_residual(r: int) { r }\n", "  fn branch(self) -> ControlFlow<int, int> { .Continue(1) }\n  fn from_residual(r: int) { r }\n"),
        ("Index", "  fn index_get(self, index: int) -> int { 1 }\n", "  fn index_get(self, index: int) -> int { 1 }\n  fn index_set(self, index: int, val: int) -> void { }\n"),
        ("Iterable", "", "  fn make_iterator(self) -> CdIt { CdIt(3) }\n"),
        ("Iterator", "", "  fn next(self) -> option<int> { option.none }\n"),
    ];
    let pre = "type Cd = { n: int }\ntype CdIt = { k: int }\ntype Bx<T> = { v: T }\nimplement Iterator for CdIt {\n  fn next(self) -> option<int> { option.none }\n}\n";
    let uses = "let c = Cd(3)\nfor x in c {\n  println(x)\n}\nfor y in [1, 2] {\n  println(y)\n}\nfn tq() -> option<int> {\n  let a = Cd(1)?\n  let b = option.some(2)?\n  option.some(Cd(2)!)\n}\nprintln(c == c)\nprintln(c < c)\nprintln(c + c)\nprintln(c .. \"s\")\nprintln(c)\nprintln(c[0])\nprintln(1 == 1)\nprintln([1] .. \"s\")\nlet u = option.some(1)!\n";
    let mut v: Vec<(String, String)> = vec![];
    for t in targets {
        for (iname, partial, full) in ifaces {
            for (bn, body) in [("empty", ""), ("partial", partial), ("full", full)] {
                if bn == "partial" && partial.is_empty() {
                    continue;
                }
                let tn = t.replace(|c: char| !c.is_alphanumeric(), "_");
                v.push((format!("implhdr:{tn}:{iname}:{bn}"), format!("{pre}implement {iname} for {t} {{\n{body}}}\n{uses}")));
                v.push((format!("implhdr:{tn}:{iname}:{bn}:no-use"), format!("implement {iname} for {t} {{\n{body}}}\n")));
            }
        }
        let tn = t.replace(|c: char| !c.is_alphanumeric(), "_");
        v.push((format!("implhdr:{tn}:extend"), format!("{pre}extend {t} {{\n  fn twice(self) -> int {{ 2 }}\n}}\n{uses}println(c.twice())\nprintln(1.twice())\n")));
        v.push((format!("implhdr:{tn}:extend-empty"), format!("{pre}extend {t} {{\n}}\n{uses}")));
        v.push((format!("implhdr:{tn}:unknown-iface"), format!("{pre}implement Nothere for {t} {{\n  fn m(self) -> int {{ 1 }}\n}}\n{uses}")));
    }
    v
}


/// Verdict probes: texts that must be REJECTED with a diagnostic containing the given words (the "diagnostics"
/// side of C04's "a compiled program or a list of diagnostics" is demanded, not just the absence of a crash).
pub const VERDICTS: [(&str, &str, &str); 4] = [
    ("D110", "interface Foo {\n  fn a(self: Self) -> int\n  fn b(self: Self) -> int\n}\nimplement Foo for array<Bogus> {\n  fn a(self) -> int { 1 }\n}\n", "Bogus"),
    ("D111", "fn foo(a: int, b: int) -> int { a + b }\nlet x = foo(1, 2", "expecting"),
    ("D111b", "fn foo(a: int, b: int) -> int { a + b }\nlet x = [foo(1, 2), 3", "expecting"),
    ("D94-like", "let x: int = \"s\"\n", "int"),
];


/// CALL-SHAPE family: for each callee kind (function, extension method, struct constructor, named-field variant
/// constructor written `E.V(..)` and `.V(..)`, namespace-qualified function) x arity 0..=max_arity (with and
/// without a default on the last parameter) ALL argument lists up to length arity + 2 over {positional,
/// named-correct (lowest unnamed parameter), named-correct in reverse (highest unnamed parameter; `wide` only),
/// named-duplicate, named-unknown}, in every order.
pub fn call_shape_texts(max_arity: usize, wide: bool) -> Vec<(String, String)> {
    let alphabet: Vec<char> = if wide { vec!['P', 'N', 'R', 'D', 'U'] } else { vec!['P', 'N', 'D', 'U'] };
    let mut v: Vec<(String, String)> = vec![];
    for k in 0..=max_arity {
        // every sequence over the alphabet up to length k + 2
        let mut seqs: Vec<Vec<char>> = vec![vec![]];
        let mut frontier: Vec<Vec<char>> = vec![vec![]];
        for _ in 0..k + 2 {
            let mut next = vec![];
            for s in &frontier {
                for &c in &alphabet {
                    let mut t = s.clone();
                    t.push(c);
                    next.push(t);
                }
            }
            seqs.extend(next.iter().cloned());
            frontier = next;
        }
        let names: Vec<String> = (0..k).map(|i| format!("p{i}")).collect();
        for seq in &seqs {
            // render the argument list
            let mut named: Vec<usize> = vec![];
            let mut args: Vec<String> = vec![];
            for (i, c) in seq.iter().enumerate() {
                let val = i + 1;
                match c {
                    'P' => args.push(format!("{val}")),
                    'N' => {
                        let j = (0..k).find(|j| !named.contains(j)).unwrap_or(0);
                        named.push(j);
                        args.push(if k == 0 { format!("p0 = {val}") } else { format!("{} = {val}", names[j]) });
                    }
                    'R' => {
                        let j = (0..k).rev().find(|j| !named.contains(j)).unwrap_or(0);
                        named.push(j);
                        args.push(if k == 0 { format!("p0 = {val}") } else { format!("{} = {val}", names[j]) });
                    }
                    'D' => {
                        let j = named.last().copied().unwrap_or(0);
                        args.push(if k == 0 { format!("p0 = {val}") } else { format!("{} = {val}", names[j]) });
                    }
                    _ => args.push(format!("zz = {val}")),
                }
            }
            let al = args.join(", ");
            let shape: String = seq.iter().collect();
            for dflt in [false, true] {
                if dflt && (k == 0 || (!wide && k > 1)) {
                    continue;
                }
                let params = |typed: bool| -> String {
                    (0..k)
                        .map(|i| {
                            let d = if dflt && i == k - 1 { " = 7" } else { "" };
                            if typed { format!("p{i}: int{d}") } else { format!("p{i}{d}") }
                        })
                        .collect::<Vec<_>>()
                        .join(", ")
                };
                let sum = if k == 0 { "0".to_string() } else { names.join(" + ") };
                let tag = format!("k{k}{}:{}", if dflt { "d" } else { "" }, if shape.is_empty() { "-" } else { &shape });
                v.push((format!("callshape:fn:{tag}"), format!("fn cs({}) -> int {{ {sum} }}\nprintln(cs({al}))\n", params(true))));
                v.push((format!("callshape:fn-untyped:{tag}"), format!("fn cs({}) = {sum}\nprintln(cs({al}))\n", params(false))));
                v.push((format!("callshape:method:{tag}"), format!("extend int {{\n  fn cs(self{}{}) -> int {{ self + {sum} }}\n}}\nprintln(9.cs({al}))\n", if k > 0 { ", " } else { "" }, params(true))));
                v.push((format!("callshape:struct:{tag}"), format!("type Cs = {{ {} }}\nlet r = Cs({al})\n", params(true))));
                if k > 0 {
                    v.push((format!("callshape:variant:{tag}"), format!("type Ev = Cs({}) | Ww\nlet r = Ev.Cs({al})\n", params(true))));
                    v.push((format!("callshape:dot-variant:{tag}"), format!("type Ev = Cs({}) | Ww\nlet r: Ev = .Cs({al})\n", params(true))));
                }
                v.push((format!("callshape:namespace:{tag}"), format!("use lib1 as u\nprintln(u.cs({al}))\n\x1efn cs({}) -> int {{ {sum} }}\n", params(true))));
            }
        }
    }
    v
}

/// crude token boundaries, independent of the real lexer: runs of word characters, single other characters
pub fn crude_tokens(s: &str) -> Vec<(usize, usize)> {
    let mut v = vec![];
    let mut it = s.char_indices().peekable();
    while let Some((i, c)) = it.next() {
        if c.is_whitespace() && c != '\n' {
            continue;
        }
        if c.is_alphanumeric() || c == '_' {
            let mut j = i + c.len_utf8();
            while let Some(&(k, d)) = it.peek() {
                if d.is_alphanumeric() || d == '_' {
                    j = k + d.len_utf8();
                    it.next();
                } else {
                    break;
                }
            }
            v.push((i, j));
        } else {
            v.push((i, i + c.len_utf8()));
        }
    }
    v
}

pub const ODD_CHARS: [&str; 24] = [
    "é", "日", "😀", "\u{0301}", "\u{a0}", "\u{feff}", "\u{2028}", "ß", "\"", "'", "\\", ".", "(", ")", "{", "}", "[", "]", "/*", "*/", "//", "\t", "\r\n", "\"\"\"",
];

const VOCAB: [&str; 56] = [
    "let", "var", "fn", "match", "if", "else", "type", "use", "for", "in", "while", "task", "interface", "implement", "extend", "return", "break",
    "continue", "and", "or", "not", "true", "false", "nil", "x", "y", "Foo", "T", "int", "string", "1", "2.5", "\"s\"", "(", ")", "{", "}", "[", "]",
    ",", ".", "..", "->", "=", "==", "+", "-", "*", "/", "|", ":", "\n", "\n", "<", ">", "#[host]",
];

pub fn garbage(rng: &mut Rng) -> String {
    let n = 1 + rng.below(40);
    let mut s = String::new();
    for _ in 0..n {
        s.push_str(*rng.pick(&VOCAB));
        if !rng.chance(1, 6) {
            s.push(' ');
        }
    }
    s
}

/// one token- or char-level mutation of `s` (always valid UTF-8); the label names the operator
pub fn mutate(rng: &mut Rng, s: &str) -> (String, &'static str) {
    let toks = crude_tokens(s);
    let bounds: Vec<usize> = s.char_indices().map(|(i, _)| i).chain(std::iter::once(s.len())).collect();
    let k = rng.below(9);
    if toks.len() < 3 || bounds.len() < 3 {
        return (format!("{s}{}", rng.pick(&ODD_CHARS)), "append-odd");
    }
    match k {
        0 => {
            let (a, b) = *rng.pick(&toks);
            (format!("{}{}", &s[..a], &s[b..]), "token-delete")
        }
        1 => {
            let (a, b) = *rng.pick(&toks);
            (format!("{}{} {}", &s[..b], &s[a..b], &s[b..]), "token-duplicate")
        }
        2 => {
            let i = rng.below(toks.len() as u64 - 1) as usize;
            let (a, b) = toks[i];
            let (c, d) = toks[i + 1];
            (format!("{}{}{}{}{}", &s[..a], &s[c..d], &s[b..c], &s[a..b], &s[d..]), "token-swap")
        }
        3 => {
            let i = rng.below(bounds.len() as u64 - 1) as usize;
            (format!("{}{}{}", &s[..bounds[i]], rng.pick(&ODD_CHARS), &s[bounds[i + 1]..]), "char-replace")
        }
        4 => {
            let i = *rng.pick(&bounds);
            (format!("{}{}{}", &s[..i], rng.pick(&ODD_CHARS), &s[i..]), "odd-insert")
        }
        5 => {
            let i = rng.below(bounds.len() as u64 - 1) as usize;
            (format!("{}{}", &s[..bounds[i]], &s[bounds[i + 1]..]), "char-delete")
        }
        6 => {
            // a token replaced by a vocabulary word
            let (a, b) = *rng.pick(&toks);
            (format!("{}{}{}", &s[..a], rng.pick(&VOCAB), &s[b..]), "token-replace")
        }
        7 => {
            // cut a middle piece out (unbalances brackets, joins unrelated lines)
            let i = rng.below(bounds.len() as u64) as usize;
            let j = (i + 1 + rng.below(30) as usize).min(bounds.len() - 1);
            (format!("{}{}", &s[..bounds[i]], &s[bounds[j]..]), "span-delete")
        }
        _ => {
            let (a, b) = *rng.pick(&toks);
            let i = *rng.pick(&bounds);
            (format!("{}{} {}", &s[..i], &s[a..b], &s[i..]), "token-move")
        }
    }
}

/// prefixes of `s` at char boundaries: every boundary (`all`) or the line ends plus every `stride`-th boundary
pub fn prefixes(s: &str, all: bool, stride: usize) -> Vec<usize> {
    let bounds: Vec<usize> = s.char_indices().map(|(i, _)| i).chain(std::iter::once(s.len())).collect();
    if all {
        return bounds;
    }
    let mut v: Vec<usize> = vec![];
    for (k, &b) in bounds.iter().enumerate() {
        let at_line_end = b < s.len() && s.as_bytes()[b] == b'\n';
        let after_dot = b > 0 && s.as_bytes()[b - 1] == b'.';
        if at_line_end || after_dot || k % stride.max(1) == 0 || b == s.len() {
            v.push(b);
        }
    }
    v
}
