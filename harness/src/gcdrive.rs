//! C06 (and the heap statistics of C07) correspondence: allocation-heavy programs run on the real VM
//! with the collector driven by hand (hook `verif_gc`), one increment at a time, under explicit
//! schedules.  Every transition of the real thread is validated against the Lean model:
//!   * a collector increment must be exactly `gcStep` of the model          (`gc step before after`)
//!   * a VM instruction (and a host-call service) must satisfy the contract  (`gc mut before after`)
//! so every observed transition is a `Step` of the model from the observed before-state; theorem
//! C06_gc_safe_from then applies from any observed state satisfying the invariant (the first observed
//! state is not compared with the model's `init`: the run is validated transition by transition).
//! Independently (search for a concrete failing input): reachability ⊆ heap list is checked on every
//! snapshot in Rust, and the program's output under each schedule and under the real pacing is
//! compared with its output with collection disabled.
use abra_core::vm::{Runtime, RuntimeStatusKind, verif_gc};
use abra_core::compile_bytecode;
use std::collections::{HashMap, HashSet};
use crate::*;

// ---------------------------------------------------------------- program generator
pub struct Gen {
    pub rng: Rng,
    pub src: String,
    pub n_str: usize,
    pub arrs: Vec<usize>,   // known lengths of string arrays a0..
    pub nests: Vec<usize>,  // known lengths of nested arrays b0..
    pub n_struct: usize,
    pub n_clos: usize,
    pub n_tmp: usize,
    pub chans: Vec<usize>, // queued item counts of string channels c0..
}

impl Gen {
    pub fn new(seed: u64) -> Gen {
        let mut g = Gen { rng: Rng::new(seed), src: String::new(), n_str: 0, arrs: vec![], nests: vec![], n_struct: 0, n_clos: 0, n_tmp: 0, chans: vec![] };
        g.src.push_str("type Pt = { name: string, items: array<string> }\n");
        g.src.push_str("type Tr = | Leaf(string) | Node(array<string>)\n");
        g.new_str();
        g
    }
    pub fn new_str(&mut self) -> usize {
        let k = self.n_str;
        let n = self.rng.below(100);
        self.src.push_str(&format!("let s{k} = \"v{k}-\" .. {n}\n"));
        self.n_str += 1;
        k
    }
    pub fn some_str(&mut self) -> String {
        if self.rng.chance(1, 3) || self.n_str == 0 {
            let k = self.new_str();
            format!("s{k}")
        } else {
            format!("s{}", self.rng.below(self.n_str as u64))
        }
    }
    pub fn stmt(&mut self) {
        match self.rng.below(19) {
            0 => {
                self.new_str();
            }
            1 | 2 => {
                // fresh array of fresh strings (the array is born before its elements are old)
                let k = self.arrs.len();
                let n = self.rng.below(4) as usize;
                let mut elems = vec![];
                for j in 0..n {
                    elems.push(format!("\"e{k}_{j}-\" .. {}", self.rng.below(50)));
                }
                self.src.push_str(&format!("let a{k}: array<string> = [{}]\n", elems.join(", ")));
                self.arrs.push(n);
            }
            3 | 4 => {
                if !self.arrs.is_empty() {
                    let a = self.rng.below(self.arrs.len() as u64) as usize;
                    let s = self.some_str();
                    self.src.push_str(&format!("a{a}.push({s})\n"));
                    self.arrs[a] += 1;
                }
            }
            5 | 6 => {
                // pop: moves the only heap reference onto the stack
                let cands: Vec<usize> = (0..self.arrs.len()).filter(|&i| self.arrs[i] > 0).collect();
                if !cands.is_empty() {
                    let a = *self.rng.pick(&cands);
                    let t = self.n_tmp;
                    self.n_tmp += 1;
                    self.src.push_str(&format!("let t{t} = a{a}.pop()\n"));
                    self.arrs[a] -= 1;
                    if self.rng.chance(1, 2) {
                        self.src.push_str(&format!("println(t{t})\n"));
                    }
                }
            }
            7 => {
                let cands: Vec<usize> = (0..self.arrs.len()).filter(|&i| self.arrs[i] > 0).collect();
                if !cands.is_empty() {
                    let a = *self.rng.pick(&cands);
                    let i = self.rng.below(self.arrs[a] as u64);
                    let s = self.some_str();
                    self.src.push_str(&format!("a{a}[{i}] = {s}\n"));
                }
            }
            8 => {
                // nested arrays
                if !self.arrs.is_empty() {
                    let a = self.rng.below(self.arrs.len() as u64);
                    if self.nests.is_empty() || self.rng.chance(1, 3) {
                        let k = self.nests.len();
                        self.src.push_str(&format!("let b{k}: array<array<string>> = [a{a}]\n"));
                        self.nests.push(1);
                    } else {
                        let b = self.rng.below(self.nests.len() as u64) as usize;
                        self.src.push_str(&format!("b{b}.push(a{a})\n"));
                        self.nests[b] += 1;
                    }
                }
            }
            9 => {
                let cands: Vec<usize> = (0..self.nests.len()).filter(|&i| self.nests[i] > 0).collect();
                if !cands.is_empty() {
                    let b = *self.rng.pick(&cands);
                    let t = self.n_tmp;
                    self.n_tmp += 1;
                    self.src.push_str(&format!("let t{t} = b{b}.pop()\nprintln(t{t}.len())\n"));
                    self.nests[b] -= 1;
                }
            }
            10 => {
                if !self.arrs.is_empty() {
                    let a = self.rng.below(self.arrs.len() as u64);
                    let k = self.n_struct;
                    let s = self.some_str();
                    self.src.push_str(&format!("let p{k} = Pt({s}, a{a})\n"));
                    self.n_struct += 1;
                }
            }
            11 => {
                if self.n_struct > 0 {
                    let p = self.rng.below(self.n_struct as u64);
                    if self.rng.chance(1, 2) || self.arrs.is_empty() {
                        let s = self.some_str();
                        self.src.push_str(&format!("p{p}.name = {s} .. \"!\"\n"));
                    } else {
                        let a = self.rng.below(self.arrs.len() as u64);
                        self.src.push_str(&format!("p{p}.items = a{a}\n"));
                    }
                    if self.rng.chance(1, 2) {
                        self.src.push_str(&format!("println(p{p}.name .. p{p}.items.len())\n"));
                    }
                }
            }
            12 => {
                // closure capturing a string; enum with payload
                let s = self.some_str();
                let k = self.n_clos;
                self.n_clos += 1;
                self.src.push_str(&format!("let f{k} = () -> {s} .. \"?\"\nprintln(f{k}())\n"));
                let s2 = self.some_str();
                self.src.push_str(&format!("let e{k} = Tr.Leaf({s2} .. \"#\")\nmatch e{k} {{ .Leaf(x) -> println(x), .Node(y) -> println(y.len()) }}\n"));
            }
            15 | 16 => {
                // channels used within one thread: a queue object whose contents are heap values.
                // `c.write(a.pop())` moves the only reference from an array into the channel.
                if self.chans.is_empty() || self.rng.chance(1, 5) {
                    let k = self.chans.len();
                    self.src.push_str(&format!("let c{k}: channel<string> = channel()\n"));
                    self.chans.push(0);
                } else {
                    let c = self.rng.below(self.chans.len() as u64) as usize;
                    let cands: Vec<usize> = (0..self.arrs.len()).filter(|&i| self.arrs[i] > 0).collect();
                    if !cands.is_empty() && self.rng.chance(2, 3) {
                        let a = *self.rng.pick(&cands);
                        self.src.push_str(&format!("c{c}.write(a{a}.pop())\n"));
                        self.arrs[a] -= 1;
                    } else {
                        let s = self.some_str();
                        self.src.push_str(&format!("c{c}.write({s} .. \"~\")\n"));
                    }
                    self.chans[c] += 1;
                }
            }
            17 => {
                let cands: Vec<usize> = (0..self.chans.len()).filter(|&i| self.chans[i] > 0).collect();
                if !cands.is_empty() {
                    let c = *self.rng.pick(&cands);
                    let t = self.n_tmp;
                    self.n_tmp += 1;
                    self.src.push_str(&format!("let t{t} = c{c}.read()\nprintln(t{t})\n"));
                    self.chans[c] -= 1;
                }
            }
            13 => {
                // garbage loop
                let m = 1 + self.rng.below(6);
                let t = self.n_tmp;
                self.n_tmp += 1;
                let extra = match self.rng.below(6) {
                    0 => "  let gc: channel<string> = channel()\n  gc.write(g)\n",
                    1 => "  let gp = Pt(g, [g])\n",
                    2 => "  let ge = Tr.Leaf(g)\n",
                    3 => "  let gf = () -> g .. \"?\"\n",
                    4 => "  let ga = [[g], [g, g]]\n",
                    _ => "",
                };
                self.src.push_str(&format!("var i{t} = 0\nwhile i{t} < {m} {{\n  let g = \"g\" .. i{t}\n{extra}  i{t} = i{t} + 1\n}}\n"));
            }
            _ => {
                let s = self.some_str();
                self.src.push_str(&format!("println({s})\n"));
            }
        }
    }
    pub fn finish(mut self) -> String {
        // observe everything that is still live
        for a in 0..self.arrs.len() {
            self.src.push_str(&format!("println(a{a})\n"));
        }
        for p in 0..self.n_struct {
            self.src.push_str(&format!("println(p{p}.name)\nprintln(p{p}.items)\n"));
        }
        for c in 0..self.chans.len() {
            for _ in 0..self.chans[c] {
                self.src.push_str(&format!("println(c{c}.read())\n"));
            }
        }
        for t in 0..self.n_str {
            if t % 3 == 0 {
                self.src.push_str(&format!("println(s{t})\n"));
            }
        }
        self.src
    }
}

pub fn gen_program(seed: u64, n_stmts: usize) -> String {
    let mut g = Gen::new(seed);
    for _ in 0..n_stmts {
        g.stmt();
    }
    g.finish()
}

/// "Mover" programs: an old container `src` (declared first, hence scanned LAST by the LIFO gray stack) holds
/// the only references to old strings; a destination declared later (scanned FIRST) receives them one by one
/// through each of the four barriered store paths.  Under a slow marking schedule the destination is already
/// black while the moved value is still white: exactly the situation the write barrier exists for.
pub fn mover_program(kind: usize, n: usize) -> String {
    let mut s = String::from("type Bx = { name: string, n: int }\n");
    let elems: Vec<String> = (0..n).map(|j| format!("\"m{j}-\" .. {}", j * 7 % 10)).collect();
    s.push_str(&format!("let src: array<string> = [{}]\n", elems.join(", ")));
    // some garbage so that the heap is worth collecting
    s.push_str("var w = 0\nwhile w < 4 {\n  let g = \"junk\" .. w\n  w = w + 1\n}\n");
    match kind % 12 {
        9 | 10 | 11 => {
            // a heap string that has just left its array lives ONLY in a string-operand register of a multi-step string
            // instruction (comparison / concat_strings walk one byte per step): long common prefixes keep the instruction
            // running while the collector finishes marking and sweeps
            let long: Vec<String> = (0..n).map(|j| format!("\"common-prefix-common-prefix-common-\" .. {}", j * 7 % 10)).collect();
            s.push_str(&format!("let lsrc: array<string> = [{}]\n", long.join(", ")));
            s.push_str("var hits = 0\n");
            match kind % 12 {
                9 => s.push_str("while lsrc.len() > 0 {\n  if lsrc.pop() < \"common-prefix-common-prefix-common-5\" {\n    hits = hits + 1\n  }\n}\n"),
                10 => s.push_str("while lsrc.len() > 1 {\n  if lsrc.pop() == lsrc.pop() {\n    hits = hits + 1\n  }\n}\n"),
                _ => s.push_str("while lsrc.len() > 0 {\n  let t = concat_strings(\"common-prefix-common-prefix-\", lsrc.pop())\n  if t >= \"common-prefix-common-prefix-common-prefix-common-prefix-common-4\" {\n    hits = hits + 1\n  }\n}\n"),
            }
            s.push_str("println(hits)\n");
        }
        4 => {
            // freshly allocated wrappers (born during marking) around an old value that has just left the heap
            s.push_str("type Tw = | Leaf(string) | Other(int)\nlet keep: array<Tw> = []\n");
            s.push_str("while src.len() > 0 {\n  keep.push(Tw.Leaf(src.pop()))\n}\n");
            s.push_str("for w in keep {\n  match w {\n    .Leaf(x) -> println(x)\n    .Other(n) -> println(n)\n  }\n}\n");
        }
        5 => {
            s.push_str("let keep: array<Bx> = []\n");
            s.push_str("while src.len() > 0 {\n  keep.push(Bx(src.pop(), 1))\n}\nfor b in keep {\n  println(b.name)\n}\n");
        }
        6 => {
            s.push_str("let keep: array<array<string>> = []\n");
            s.push_str("while src.len() > 0 {\n  keep.push([src.pop()])\n}\nprintln(keep)\n");
        }
        7 => {
            s.push_str("let fs: array<int -> string> = []\n");
            s.push_str("while src.len() > 0 {\n  let cur = src.pop()\n  fs.push((z: int) -> cur .. \"!\")\n}\nfor f in fs {\n  println(f(0))\n}\n");
        }
        8 => {
            s.push_str("let keep: array<(string, int)> = []\n");
            s.push_str("while src.len() > 0 {\n  keep.push((src.pop(), 1))\n}\nfor p in keep {\n  match p {\n    (a, b) -> println(a)\n  }\n}\n");
        }
        0 => {
            s.push_str("let dst: channel<string> = channel()\n");
            s.push_str("while src.len() > 0 {\n  dst.write(src.pop())\n}\n");
            s.push_str(&format!("var k = 0\nwhile k < {n} {{\n  println(dst.read())\n  k = k + 1\n}}\n"));
        }
        1 => {
            s.push_str("let dst: array<string> = []\n");
            s.push_str("while src.len() > 0 {\n  dst.push(src.pop())\n}\nprintln(dst)\n");
        }
        2 => {
            s.push_str("let dst = Bx(\"none\", 0)\n");
            s.push_str("while src.len() > 0 {\n  dst.name = src.pop()\n  dst.n = dst.n + 1\n  println(dst.name)\n}\n");
        }
        _ => {
            s.push_str("let dst: array<string> = [\"slot\"]\n");
            s.push_str("while src.len() > 0 {\n  dst[0] = src.pop()\n  println(dst[0])\n}\n");
        }
    }
    s.push_str("println(src.len())\n");
    s
}

/// the reproducer of defect D22 (fixed): must keep printing hello-7
pub const D22: &str = "let arr = [\"hello-\" .. 7]\nlet popped = arr.pop()\nvar i = 0\nwhile i < 50 {\n  let s = \"x\" .. i\n  i = i + 1\n}\nprintln(popped)\n";

// ---------------------------------------------------------------- snapshots on the Rust side
pub struct Snap {
    pub heap: Vec<(usize, bool, Vec<usize>)>,
    pub roots: Vec<usize>,
    pub phase: char,
}

pub fn parse_snap(s: &str) -> Snap {
    let mut heap = vec![];
    let mut roots = vec![];
    let mut phase = '?';
    for w in s.split(' ') {
        if let Some(p) = w.strip_prefix("phase=") {
            phase = p.chars().next().unwrap_or('?');
        } else if let Some(h) = w.strip_prefix("heap=") {
            for e in h.split(';').filter(|e| !e.is_empty()) {
                let parts: Vec<&str> = e.split(':').collect();
                let kids = parts[2].split(',').filter(|x| !x.is_empty()).map(|x| x.parse().unwrap()).collect();
                heap.push((parts[0].parse().unwrap(), parts[1] == "1", kids));
            }
        } else if let Some(r) = w.strip_prefix("roots=") {
            roots = r.split(',').filter(|x| !x.is_empty()).map(|x| x.parse().unwrap()).collect();
        }
    }
    Snap { heap, roots, phase }
}

/// executable statement of the property on one snapshot: every address reachable from the roots
/// is in the heap list; returns a dangling address if there is one
pub fn dangling(s: &Snap) -> Option<usize> {
    let map: HashMap<usize, &Vec<usize>> = s.heap.iter().map(|(a, _, k)| (*a, k)).collect();
    let mut seen: HashSet<usize> = HashSet::new();
    let mut work: Vec<usize> = s.roots.clone();
    while let Some(a) = work.pop() {
        if !seen.insert(a) {
            continue;
        }
        match map.get(&a) {
            None => return Some(a),
            Some(k) => work.extend(k.iter().cloned()),
        }
    }
    None
}

/// all addresses reachable from the roots (through allocated objects)
pub fn reachable(s: &Snap) -> HashSet<usize> {
    let map: HashMap<usize, &Vec<usize>> = s.heap.iter().map(|(a, _, k)| (*a, k)).collect();
    let mut seen: HashSet<usize> = HashSet::new();
    let mut work: Vec<usize> = s.roots.clone();
    while let Some(a) = work.pop() {
        if !seen.insert(a) {
            continue;
        }
        if let Some(k) = map.get(&a) {
            work.extend(k.iter().cloned());
        }
    }
    seen
}

/// addresses are renamed by first appearance so that request lines do not depend on the allocator
pub struct Renamer {
    pub map: HashMap<String, usize>,
}
impl Renamer {
    pub fn canon(&mut self, snap: &str) -> String {
        let mut out = String::with_capacity(snap.len());
        let mut num = String::new();
        let mut in_field = false; // inside heap=/roots=/gray= payload
        let flush = |num: &mut String, out: &mut String, map: &mut HashMap<String, usize>, addr: bool| {
            if !num.is_empty() {
                if addr && num.len() > 6 {
                    let n = map.len() + 1;
                    let id = *map.entry(num.clone()).or_insert(n);
                    out.push_str(&id.to_string());
                } else {
                    out.push_str(num);
                }
                num.clear();
            }
        };
        for c in snap.chars() {
            if c.is_ascii_digit() {
                num.push(c);
            } else {
                flush(&mut num, &mut out, &mut self.map, in_field);
                if c == '=' {
                    in_field = true;
                }
                if c == ' ' {
                    in_field = false;
                }
                out.push(c);
            }
        }
        flush(&mut num, &mut out, &mut self.map, in_field);
        out
    }
}

// ---------------------------------------------------------------- schedules
#[derive(Clone, Debug)]
pub enum Sched {
    /// no collection before VM step `start`, then `k` increments after every VM step
    From { start: u64, k: u32 },
    /// after each VM step: with probability num/8 run 1..=max increments
    Random { num: u64, max: u32, seed: u64 },
}

pub struct RunOut {
    pub out: String,
    pub outcome: String,
    pub cases: Vec<(String, String)>,
    pub spec: Vec<String>,
    pub vm_steps: u64,
    pub gc_steps: u64,
    pub cycles: u64,
    pub max_heap_objs: usize,
    /// C07: violations of cycle completeness; number of completed cycles checked against it
    pub cycle_spec: Vec<String>,
    pub cycles_checked: u64,
}

pub fn run_scheduled(src: &str, sched: &Sched, validate: bool, max_steps: u64) -> RunOut {
    let mut ro = RunOut { out: String::new(), outcome: String::new(), cases: vec![], spec: vec![], vm_steps: 0, gc_steps: 0, cycles: 0, max_heap_objs: 0, cycle_spec: vec![], cycles_checked: 0 };
    let program = match compile_bytecode("main.abra", provider(src, &[])) {
        Ok(p) => p,
        Err(e) => {
            ro.outcome = format!("rejected {}", e.to_string().lines().next().unwrap_or(""));
            return ro;
        }
    };
    verif_gc::set_manual(true);
    let mut rt = Runtime::new(program);
    let mut rn = Renamer { map: HashMap::new() };
    let mut rng = Rng::new(match sched { Sched::Random { seed, .. } => *seed, _ => 0 });
    let snap = |rt: &mut Runtime| -> Option<String> { rt.iter_threads_mut().next().map(|t| verif_gc::snapshot(t)) };
    let mut check_snap = |s: &str, what: &str, ro: &mut RunOut| {
        let p = parse_snap(s);
        ro.max_heap_objs = ro.max_heap_objs.max(p.heap.len());
        if let Some(a) = dangling(&p) {
            ro.spec.push(format!("{what}: address {a} is reachable from the roots but not allocated (phase {})", p.phase));
        }
    };
    // C07 oracle: (reachable at cycle start) ∪ (allocated during the cycle) ⊇ heap at cycle end
    let mut live_or_new: Option<HashSet<usize>> = None;
    loop {
        let before = snap(&mut rt);
        let status = rt.run_n_steps(1);
        ro.vm_steps += status.steps_consumed as u64;
        let done = match &status.kind {
            RuntimeStatusKind::Done => Some("done".to_string()),
            RuntimeStatusKind::MainThreadError(e) => Some(format!("error:{}", error_kind(&e.to_string()))),
            _ => None,
        };
        if let Some(d) = done {
            ro.outcome = d;
            break;
        }
        let after = snap(&mut rt);
        if let (Some(b), Some(a)) = (&before, &after) {
            check_snap(a, "after a VM instruction", &mut ro);
            if let Some(t) = rt.iter_threads_mut().next() {
                let (hs, _) = verif_gc::heap_bytes(t);
                let rc = verif_gc::heap_recount(t);
                if hs != rc && ro.cycle_spec.len() < 3 {
                    ro.cycle_spec.push(format!("heap accounting drift after VM step {}: heap_size (which paces the collector) is {hs} but the heap list holds {rc} bytes", ro.vm_steps));
                }
            }
            if let Some(l) = live_or_new.as_mut() {
                let pb = parse_snap(b);
                let old: HashSet<usize> = pb.heap.iter().map(|h| h.0).collect();
                for h in parse_snap(a).heap.iter() {
                    if !old.contains(&h.0) {
                        l.insert(h.0);
                    }
                }
            }
            if validate {
                ro.cases.push((format!("gc mut {} {}", rn.canon(b), rn.canon(a)), "ok".into()));
            }
        }
        // host calls (print): the host pops its argument from the operand stack
        if matches!(status.kind, RuntimeStatusKind::PendingHostFunc) {
            let b = snap(&mut rt);
            service_host(&mut rt, &mut ro.out);
            let a = snap(&mut rt);
            if let (Some(b), Some(a)) = (&b, &a) {
                if validate {
                    ro.cases.push((format!("gc mut {} {} #host", rn.canon(b), rn.canon(a)), "ok".into()));
                }
            }
        }
        // collector increments
        let k = match sched {
            Sched::From { start, k } => if ro.vm_steps >= *start { *k } else { 0 },
            Sched::Random { num, max, .. } => if rng.below(8) < *num { 1 + rng.below(*max as u64) as u32 } else { 0 },
        };
        if validate {
            for _ in 0..k {
                let Some(t) = rt.iter_threads_mut().next() else { break };
                let b = verif_gc::snapshot(t);
                verif_gc::step(t);
                let a = verif_gc::snapshot(t);
                ro.gc_steps += 1;
                if b.starts_with("phase=i") && a.starts_with("phase=m") {
                    live_or_new = Some(reachable(&parse_snap(&b)));
                }
                if b.starts_with("phase=s") && a.starts_with("phase=i") {
                    ro.cycles += 1;
                    if let Some(l) = live_or_new.take() {
                        ro.cycles_checked += 1;
                        for h in parse_snap(&a).heap.iter() {
                            if !l.contains(&h.0) {
                                ro.cycle_spec.push(format!("object {} survived a complete collection cycle although it was unreachable when the cycle started and was not allocated during it", h.0));
                            }
                        }
                    }
                }
                check_snap(&a, "after a collector increment", &mut ro);
                if let Some(t) = rt.iter_threads_mut().next() {
                    let (hs, _) = verif_gc::heap_bytes(t);
                    let rc = verif_gc::heap_recount(t);
                    if hs != rc && ro.cycle_spec.len() < 3 {
                        ro.cycle_spec.push(format!("heap accounting drift after a collector increment (VM step {}): heap_size (which paces the collector) is {hs} but the heap list holds {rc} bytes", ro.vm_steps));
                    }
                }
                ro.cases.push((format!("gc step {} {}", rn.canon(&b), rn.canon(&a)), "ok".into()));
            }
        } else if k > 0 {
            // sweep runs: no per-increment snapshots unless the increment freed something
            if let Some(t) = rt.iter_threads_mut().next() {
                for _ in 0..k {
                    let n0 = verif_gc::heap_bytes(t).1;
                    verif_gc::step(t);
                    ro.gc_steps += 1;
                    if verif_gc::heap_bytes(t).1 < n0 {
                        let a = verif_gc::snapshot(t);
                        check_snap(&a, "after a collector increment that freed an object", &mut ro);
                        if !ro.spec.is_empty() {
                            break;
                        }
                    }
                }
            }
        }
        if !ro.spec.is_empty() {
            // stop before the program touches reclaimed memory
            ro.outcome = "stopped: reachable object reclaimed".into();
            verif_gc::set_manual(false);
            std::mem::forget(rt);
            return ro;
        }
        if ro.vm_steps > max_steps {
            ro.outcome = "timeout".into();
            break;
        }
    }
    verif_gc::set_manual(false);
    ro
}

/// reference: collection disabled entirely
pub fn run_nogc(src: &str, max_steps: u64) -> (String, String) {
    let r = run_scheduled(src, &Sched::From { start: u64::MAX, k: 0 }, false, max_steps);
    (r.out, r.outcome)
}

// ---------------------------------------------------------------- several green threads
/// Programs with tasks: every green thread has its own heap and its own collector.  Captured values are deep
/// copies; channels carry scalars only here (heap payloads crossing threads are property C09 / finding D23).
pub fn task_program(seed: u64) -> String {
    let mut r = Rng::new(seed);
    let ntasks = 1 + r.below(3) as usize;
    let mut s = String::from("type Bx = { name: string, items: array<string> }\n");
    s.push_str("let res: channel<int> = channel()\n");
    s.push_str(&format!("let shared: array<string> = [\"s-\" .. {}, \"t-\" .. {}]\n", r.below(9), r.below(9)));
    s.push_str("let bx = Bx(\"bx-\" .. 1, shared)\n");
    for t in 0..ntasks {
        let n = 2 + r.below(7);
        s.push_str("task {\n");
        s.push_str("  let loc: array<string> = []\n  var i = 0\n");
        s.push_str(&format!("  while i < {n} {{\n    loc.push(\"k{t}-\" .. i)\n"));
        match r.below(3) {
            0 => s.push_str("    if i % 2 == 0 {\n      let d = loc.pop()\n    }\n"),
            1 => s.push_str("    let moved: array<string> = []\n    moved.push(loc.pop())\n    loc.push(moved.pop() .. \"!\")\n"),
            _ => s.push_str("    bx.name = loc[0] .. i\n"),
        }
        s.push_str("    i = i + 1\n  }\n");
        if r.chance(1, 2) {
            s.push_str("  shared.push(\"own copy\")\n");
        }
        s.push_str("  res.write(loc.len() * 100 + shared.len() * 10 + bx.items.len())\n}\n");
    }
    let m = 2 + r.below(8);
    s.push_str(&format!("var j = 0\nwhile j < {m} {{\n  let g = \"m\" .. j\n  shared.push(g)\n  let q = shared.pop()\n  j = j + 1\n}}\n"));
    s.push_str(&format!("var got = 0\nvar sum = 0\nwhile got < {ntasks} {{\n  sum = sum + res.read()\n  got = got + 1\n}}\n"));
    s.push_str("println(sum)\nprintln(shared)\nprintln(bx.name)\n");
    s
}

const EMPTY_SNAP: &str = "phase=i idx=0 heap= roots= gray=";

/// Like `run_scheduled` (validated mode), but for every green thread in the run queue: a thread's first
/// observed state must follow from the empty state by the mutator contract, every later change of its
/// collector-visible state is one contract check, and collector increments (k per scheduler turn, applied
/// to every queued thread) must equal the model's `gcStep`.
pub fn run_scheduled_mt(src: &str, sched: &Sched, max_steps: u64) -> RunOut {
    let mut ro = RunOut { out: String::new(), outcome: String::new(), cases: vec![], spec: vec![], vm_steps: 0, gc_steps: 0, cycles: 0, max_heap_objs: 0, cycle_spec: vec![], cycles_checked: 0 };
    let program = match compile_bytecode("main.abra", provider(src, &[])) {
        Ok(p) => p,
        Err(e) => {
            ro.outcome = format!("rejected {}", e.to_string().lines().next().unwrap_or(""));
            return ro;
        }
    };
    verif_gc::set_manual(true);
    let mut rt = Runtime::new(program);
    let mut rn = Renamer { map: HashMap::new() };
    let mut rng = Rng::new(match sched { Sched::Random { seed, .. } => *seed, _ => 0 });
    let mut last: HashMap<u64, String> = HashMap::new();
    let observe = |rt: &mut Runtime, last: &mut HashMap<u64, String>, rn: &mut Renamer, ro: &mut RunOut, tag: &str| {
        let snaps: Vec<(u64, String)> = rt.iter_threads_mut().map(|t| (t.id(), verif_gc::snapshot(t))).collect();
        for (id, s) in snaps {
            let prev = last.get(&id).cloned().unwrap_or_else(|| EMPTY_SNAP.to_string());
            if prev != s {
                let p = parse_snap(&s);
                ro.max_heap_objs = ro.max_heap_objs.max(p.heap.len());
                if let Some(a) = dangling(&p) {
                    ro.spec.push(format!("thread {id} {tag}: address {a} is reachable from the roots but not allocated (phase {})", p.phase));
                }
                ro.cases.push((format!("gc mut {} {} #t{}{}", rn.canon(&prev), rn.canon(&s), id, tag), "ok".into()));
                last.insert(id, s);
            }
        }
    };
    loop {
        let status = rt.run_n_steps(1);
        ro.vm_steps += status.steps_consumed as u64;
        let done = match &status.kind {
            RuntimeStatusKind::Done => Some("done".to_string()),
            RuntimeStatusKind::MainThreadError(e) => Some(format!("error:{}", error_kind(&e.to_string()))),
            _ => None,
        };
        if let Some(d) = done {
            ro.outcome = d;
            break;
        }
        observe(&mut rt, &mut last, &mut rn, &mut ro, "");
        if matches!(status.kind, RuntimeStatusKind::PendingHostFunc) {
            service_host(&mut rt, &mut ro.out);
            observe(&mut rt, &mut last, &mut rn, &mut ro, "host");
        }
        let k = match sched {
            Sched::From { start, k } => if ro.vm_steps >= *start { *k } else { 0 },
            Sched::Random { num, max, .. } => if rng.below(8) < *num { 1 + rng.below(*max as u64) as u32 } else { 0 },
        };
        for _ in 0..k {
            for t in rt.iter_threads_mut() {
                let id = t.id();
                let b = verif_gc::snapshot(t);
                verif_gc::step(t);
                let a = verif_gc::snapshot(t);
                ro.gc_steps += 1;
                if b.starts_with("phase=s") && a.starts_with("phase=i") {
                    ro.cycles += 1;
                }
                let p = parse_snap(&a);
                if let Some(x) = dangling(&p) {
                    ro.spec.push(format!("thread {id} after a collector increment: address {x} is reachable from the roots but not allocated (phase {})", p.phase));
                }
                let (hs, _) = verif_gc::heap_bytes(t);
                let rc = verif_gc::heap_recount(t);
                if hs != rc && ro.cycle_spec.len() < 3 {
                    ro.cycle_spec.push(format!("thread {id}: heap accounting drift: heap_size {hs} but the heap list holds {rc} bytes"));
                }
                ro.cases.push((format!("gc step {} {} #t{}", rn.canon(&b), rn.canon(&a), id), "ok".into()));
                last.insert(id, a);
            }
        }
        if !ro.spec.is_empty() {
            ro.outcome = "stopped: reachable object reclaimed".into();
            verif_gc::set_manual(false);
            std::mem::forget(rt);
            return ro;
        }
        if ro.vm_steps > max_steps {
            ro.outcome = "timeout".into();
            break;
        }
    }
    verif_gc::set_manual(false);
    ro
}
