//! Shared front-end helpers for C29–C31/C33 (bG3): mapping `verif_lex` tokens to the model's words,
//! expression trees with the `printMinimal` printer of `AbraModel/PrattPrint.lean`, S-expressions.
use vh::Rng;

/// One word per token for the Lean driver (`pratt …`); `Eof` is dropped.
pub fn tok_word(tag: &str, payload: &str) -> Option<String> {
    Some(match tag {
        "Eof" => return None,
        "IntLit" => format!("i:{payload}"),
        "FloatLit" => format!("f:{payload}"),
        "StringLit" => format!("s:{}", vh::hex(payload.as_bytes()).replace('-', "")),
        "Ident" => format!("id:{payload}"),
        "True" => "true".into(),
        "False" => "false".into(),
        "Nil" => "nil".into(),
        "Plus" => "add".into(),
        "Minus" => "sub".into(),
        "Star" => "mul".into(),
        "Slash" => "div".into(),
        "Mod" => "mod".into(),
        "Caret" => "pow".into(),
        "EqEq" => "eq".into(),
        "NotEq" => "ne".into(),
        "Lt" => "lt".into(),
        "Le" => "le".into(),
        "Gt" => "gt".into(),
        "Ge" => "ge".into(),
        "DotDot" => "fmt".into(),
        "And" => "and".into(),
        "Or" => "or".into(),
        "Not" => "not".into(),
        "OpenParen" => "(".into(),
        "CloseParen" => ")".into(),
        "OpenBracket" => "[".into(),
        "CloseBracket" => "]".into(),
        "Dot" => ".".into(),
        "Bang" => "!".into(),
        "Question" => "?".into(),
        "Comma" => ",".into(),
        "Newline" => "nl".into(),
        _ => "other".into(),
    })
}

pub fn lex_words(src: &str) -> (Vec<String>, usize) {
    let (toks, errs) = abra_core::verif_lex(src);
    (toks.iter().filter_map(|(t, p, _, _)| tok_word(t, p)).collect(), errs.len())
}

#[derive(Clone, Copy, Debug, PartialEq, Eq)]
pub enum Op { And, Or, Eq, Ne, Fmt, Lt, Le, Gt, Ge, Add, Sub, Mul, Div, Mod, Pow }
pub const ALL_OPS: [Op; 15] = [Op::And, Op::Or, Op::Eq, Op::Ne, Op::Fmt, Op::Lt, Op::Le, Op::Gt, Op::Ge,
    Op::Add, Op::Sub, Op::Mul, Op::Div, Op::Mod, Op::Pow];

impl Op {
    /// the documented table (book/src/language_reference/operators.md), independent of the code
    pub fn doc_level(self) -> u32 {
        match self {
            Op::And | Op::Or => 1,
            Op::Eq | Op::Ne => 2,
            Op::Fmt => 3,
            Op::Lt | Op::Le | Op::Gt | Op::Ge => 5,
            Op::Add | Op::Sub => 6,
            Op::Mul | Op::Div => 7,
            Op::Mod => 8,
            Op::Pow => 9,
        }
    }
    pub fn name(self) -> &'static str {
        match self {
            Op::And => "and", Op::Or => "or", Op::Eq => "eq", Op::Ne => "ne", Op::Fmt => "fmt",
            Op::Lt => "lt", Op::Le => "le", Op::Gt => "gt", Op::Ge => "ge", Op::Add => "add",
            Op::Sub => "sub", Op::Mul => "mul", Op::Div => "div", Op::Mod => "mod", Op::Pow => "pow",
        }
    }
    pub fn text(self) -> &'static str {
        match self {
            Op::And => "and", Op::Or => "or", Op::Eq => "==", Op::Ne => "!=", Op::Fmt => "..",
            Op::Lt => "<", Op::Le => "<=", Op::Gt => ">", Op::Ge => ">=", Op::Add => "+",
            Op::Sub => "-", Op::Mul => "*", Op::Div => "/", Op::Mod => "%", Op::Pow => "^",
        }
    }
}

#[derive(Clone, Debug, PartialEq)]
pub enum Atom { Ident(String), Int(u64), Float(String), Str(String), Bool(bool), Nil }

#[derive(Clone, Debug, PartialEq)]
pub enum E {
    Atom(Atom),
    Neg(Box<E>),
    Not(Box<E>),
    Bin(Op, Box<E>, Box<E>),
    Member(Box<E>, String),
    Index(Box<E>, Box<E>),
    Unwrap(Box<E>),
    Try(Box<E>),
    Call(Box<E>, Vec<E>),
    Tuple(Vec<E>),
    Array(Vec<E>),
}

pub const LEVEL_NEG: u32 = 6;
pub const LEVEL_NOT: u32 = 10;
pub const LEVEL_PRIMARY: u32 = 16;

impl E {
    pub fn level(&self) -> u32 {
        match self {
            E::Bin(o, _, _) => o.doc_level(),
            E::Neg(_) => LEVEL_NEG,
            E::Not(_) => LEVEL_NOT,
            _ => LEVEL_PRIMARY,
        }
    }
    pub fn depth(&self) -> usize {
        match self {
            E::Atom(_) => 0,
            E::Neg(e) | E::Not(e) | E::Member(e, _) | E::Unwrap(e) | E::Try(e) => 1 + e.depth(),
            E::Bin(_, l, r) | E::Index(l, r) => 1 + l.depth().max(r.depth()),
            E::Call(f, a) => 1 + a.iter().map(|x| x.depth()).max().unwrap_or(0).max(f.depth()),
            E::Tuple(a) | E::Array(a) => 1 + a.iter().map(|x| x.depth()).max().unwrap_or(0),
        }
    }
    /// same shape as `verif_parse_expr` / `Expr.render`
    pub fn sexpr(&self) -> String {
        fn list(head: &str, es: &[E]) -> String {
            let mut s = format!("({head}");
            for e in es {
                s.push(' ');
                s.push_str(&e.sexpr());
            }
            s.push(')');
            s
        }
        match self {
            E::Atom(Atom::Ident(s)) => s.clone(),
            E::Atom(Atom::Int(n)) => format!("{n}"),
            E::Atom(Atom::Float(s)) => format!("f:{s}"),
            E::Atom(Atom::Str(s)) => format!("s:{}", vh::hex(s.as_bytes()).replace('-', "")),
            E::Atom(Atom::Bool(b)) => format!("{b}"),
            E::Atom(Atom::Nil) => "nil".into(),
            E::Neg(e) if **e == E::Atom(Atom::Int(0)) => "0".into(), // `-0` is the literal 0 in the real AST
            E::Neg(e) => format!("(neg {})", e.sexpr()),
            E::Not(e) => format!("(not {})", e.sexpr()),
            E::Bin(o, l, r) => format!("({} {} {})", o.name(), l.sexpr(), r.sexpr()),
            E::Member(e, s) => format!("(member {} {})", e.sexpr(), s),
            E::Index(e, i) => format!("(index {} {})", e.sexpr(), i.sexpr()),
            E::Unwrap(e) => format!("(unwrap {})", e.sexpr()),
            E::Try(e) => format!("(try {})", e.sexpr()),
            E::Call(f, a) => {
                let mut v = vec![(**f).clone()];
                v.extend(a.iter().cloned());
                list("call", &v)
            }
            E::Tuple(a) => list("tuple", a),
            E::Array(a) => list("array", a),
        }
    }
}

/// the model's word for an atom token (same as `tok_word` on what the lexer makes of `atom_text`)
pub fn atom_word(a: &Atom) -> String {
    match a {
        Atom::Ident(s) => format!("id:{s}"),
        Atom::Int(n) => format!("i:{n}"),
        Atom::Float(s) => format!("f:{s}"),
        Atom::Str(s) => format!("s:{}", vh::hex(s.as_bytes()).replace('-', "")),
        Atom::Bool(b) => format!("{b}"),
        Atom::Nil => "nil".into(),
    }
}

impl E {
    /// prefix notation read by the Lean driver's `prattprint`
    pub fn prefix_words(&self, out: &mut Vec<String>) {
        match self {
            E::Atom(a) => { out.push("atom".into()); out.push(atom_word(a)); }
            E::Neg(e) => { out.push("neg".into()); e.prefix_words(out); }
            E::Not(e) => { out.push("not".into()); e.prefix_words(out); }
            E::Unwrap(e) => { out.push("unwrap".into()); e.prefix_words(out); }
            E::Try(e) => { out.push("try".into()); e.prefix_words(out); }
            E::Bin(o, l, r) => { out.push("bin".into()); out.push(o.name().into()); l.prefix_words(out); r.prefix_words(out); }
            E::Index(e, i) => { out.push("index".into()); e.prefix_words(out); i.prefix_words(out); }
            E::Member(e, s) => { out.push("member".into()); e.prefix_words(out); out.push(s.clone()); }
            E::Call(f, a) => { out.push("call".into()); out.push(format!("{}", a.len())); f.prefix_words(out); for x in a { x.prefix_words(out); } }
            E::Tuple(a) => { out.push("tuple".into()); out.push(format!("{}", a.len())); for x in a { x.prefix_words(out); } }
            E::Array(a) => { out.push("array".into()); out.push(format!("{}", a.len())); for x in a { x.prefix_words(out); } }
        }
    }
}

pub fn atom_text(a: &Atom) -> String {
    match a {
        Atom::Ident(s) => s.clone(),
        Atom::Int(n) => format!("{n}"),
        Atom::Float(s) => s.clone(),
        Atom::Str(s) => format!("\"{s}\""), // generator keeps these free of quotes/backslashes
        Atom::Bool(b) => format!("{b}"),
        Atom::Nil => "nil".into(),
    }
}

/// `printMinimal` (AbraModel/PrattPrint.lean): source tokens, parenthesised exactly where the
/// documented table / left associativity require.  `extra` adds redundant parentheses with
/// probability extra.0/extra.1 around any operand (never changes the tree).
pub struct Printer<'a> {
    pub extra: Option<(&'a mut Rng, u64, u64)>,
    pub parens: usize,
}

impl<'a> Printer<'a> {
    fn wrap(&mut self, need: bool, e: &E, out: &mut Vec<String>) {
        let redundant = match &mut self.extra {
            Some((rng, n, d)) => rng.chance(*n, *d),
            None => false,
        };
        if need || redundant {
            self.parens += 1;
            out.push("(".into());
            self.print(e, out);
            out.push(")".into());
        } else {
            self.print(e, out);
        }
    }
    fn args(&mut self, a: &[E], out: &mut Vec<String>) {
        for (i, e) in a.iter().enumerate() {
            if i > 0 {
                out.push(",".into());
            }
            self.print(e, out);
        }
    }
    pub fn print(&mut self, e: &E, out: &mut Vec<String>) {
        match e {
            E::Atom(a) => out.push(atom_text(a)),
            E::Neg(x) => {
                out.push("-".into());
                self.wrap(x.level() <= LEVEL_NEG, x, out)
            }
            E::Not(x) => {
                out.push("not".into());
                self.wrap(x.level() <= LEVEL_NOT, x, out)
            }
            E::Bin(o, l, r) => {
                self.wrap(l.level() < o.doc_level(), l, out);
                out.push(o.text().into());
                self.wrap(r.level() <= o.doc_level(), r, out);
            }
            E::Member(x, s) => {
                self.wrap(x.level() < LEVEL_PRIMARY, x, out);
                out.push(".".into());
                out.push(s.clone());
            }
            E::Index(x, i) => {
                self.wrap(x.level() < LEVEL_PRIMARY, x, out);
                out.push("[".into());
                self.print(i, out);
                out.push("]".into());
            }
            E::Unwrap(x) => {
                self.wrap(x.level() < LEVEL_PRIMARY, x, out);
                out.push("!".into());
            }
            E::Try(x) => {
                self.wrap(x.level() < LEVEL_PRIMARY, x, out);
                out.push("?".into());
            }
            E::Call(f, a) => {
                self.wrap(f.level() < LEVEL_PRIMARY, f, out);
                out.push("(".into());
                self.args(a, out);
                out.push(")".into());
            }
            E::Tuple(a) => {
                out.push("(".into());
                self.args(a, out);
                out.push(")".into());
            }
            E::Array(a) => {
                out.push("[".into());
                self.args(a, out);
                out.push("]".into());
            }
        }
    }
}

pub fn print_minimal(e: &E) -> (String, usize) {
    let mut p = Printer { extra: None, parens: 0 };
    let mut out = vec![];
    p.print(e, &mut out);
    (out.join(" "), p.parens)
}

pub fn print_redundant(e: &E, rng: &mut Rng) -> String {
    let mut p = Printer { extra: Some((rng, 1, 5)), parens: 0 };
    let mut out = vec![];
    p.print(e, &mut out);
    out.join(" ")
}

// ---------------------------------------------------------------- lexer canonical form (C29/C30/C33)
pub fn hex_str(s: &str) -> String {
    if s.is_empty() { return "-".into(); }
    s.bytes().map(|b| format!("{b:02x}")).collect()
}

/// same format as the Lean driver's `lex` / `lexkinds` answers
pub fn impl_lex(src: &str, spans: bool) -> String {
    let r = std::panic::catch_unwind(|| abra_core::verif_lex(src));
    let (toks, errs) = match r {
        Ok(x) => x,
        Err(_) => return "crash".into(),
    };
    let mut words: Vec<String> = vec![];
    for (tag, payload, lo, hi) in &toks {
        let has_payload = matches!(tag.as_str(), "IntLit" | "FloatLit" | "StringLit" | "Ident" | "PolyIdent");
        let mut w = if has_payload { format!("{tag}:{}", hex_str(payload)) } else { tag.clone() };
        if spans {
            w.push_str(&format!("/{lo}/{hi}"));
        }
        words.push(w);
    }
    let mut s = words.join(" ");
    s.push_str(" |");
    for (kind, lo, hi) in &errs {
        match kind.as_str() {
            "UnrecognizedToken" => s.push_str(&format!(" U/{lo}/{hi}")),
            "UnrecognizedEscapeSequence" => s.push_str(&format!(" E/{lo}/{hi}")),
            k => s.push_str(&format!(" ?{k}")),
        }
    }
    s
}

/// the generator's string printer = `Abra.Lex.escape` (AbraModel/Literals.lean); q ∈ {'s','d','t'}
pub fn escape(q: char, s: &str) -> String {
    let mut o = String::new();
    for c in s.chars() {
        match c {
            '\\' => o.push_str("\\\\"),
            '"' => if q == 's' { o.push('"') } else { o.push_str("\\\"") },
            '\'' => if q == 's' { o.push_str("\\'") } else { o.push('\'') },
            '\n' => o.push_str("\\n"),
            '\t' => o.push_str("\\t"),
            '\r' => o.push_str("\\r"),
            c if (c as u32) < 0x20 || (c as u32) == 0x7f => o.push_str(&format!("\\x{:02x}", c as u32)),
            c => o.push(c),
        }
    }
    o
}

// ---------------------------------------------------------------- reference expression parser (C31)
/// The documented table read as an operator-precedence grammar, independent of /repo's parser:
/// every `-` in operand position is a prefix operator of level 6 whatever its operand is and whatever
/// encloses it; `not` is level 10; postfix forms bind tightest; binary operators are left associative.
/// Input: the model's token words.  Output: same answers as `verif_parse_expr` (`ok` / `partial` / `err`).
pub struct RefParser<'a> { toks: &'a [String], i: usize }

fn ref_op(w: &str) -> Option<Op> { ALL_OPS.iter().copied().find(|o| o.name() == w) }

impl<'a> RefParser<'a> {
    pub fn new(toks: &'a [String]) -> Self { RefParser { toks, i: 0 } }
    fn cur(&self) -> &str { self.toks.get(self.i).map(|s| s.as_str()).unwrap_or("<eof>") }
    fn skip_nl(&mut self) { while self.cur() == "nl" { self.i += 1; } }
    fn list(&mut self, close: &str) -> Result<Vec<E>, ()> {
        let mut v = vec![];
        loop {
            self.skip_nl();
            if self.cur() == close { self.i += 1; return Ok(v); }
            self.skip_nl();
            v.push(self.bp(0)?);
            if self.cur() == "," || self.cur() == "nl" { self.i += 1; } else { break; }
        }
        if self.cur() == close { self.i += 1; Ok(v) } else { Err(()) }
    }
    fn term(&mut self) -> Result<E, ()> {
        self.skip_nl();
        let w = self.cur().to_string();
        if let Some(x) = w.strip_prefix("id:") { self.i += 1; return Ok(E::Atom(Atom::Ident(x.into()))); }
        if let Some(x) = w.strip_prefix("i:") {
            let n: u128 = x.parse().map_err(|_| ())?;
            if n > i64::MAX as u128 { return Err(()); }
            self.i += 1;
            return Ok(E::Atom(Atom::Int(n as u64)));
        }
        if let Some(x) = w.strip_prefix("f:") { self.i += 1; return Ok(E::Atom(Atom::Float(x.into()))); }
        if let Some(x) = w.strip_prefix("s:") {
            let bytes: Vec<u8> = (0..x.len() / 2).map(|k| u8::from_str_radix(&x[2 * k..2 * k + 2], 16).unwrap_or(b'?')).collect();
            self.i += 1;
            return Ok(E::Atom(Atom::Str(String::from_utf8_lossy(&bytes).into_owned())));
        }
        match w.as_str() {
            "true" => { self.i += 1; Ok(E::Atom(Atom::Bool(true))) }
            "false" => { self.i += 1; Ok(E::Atom(Atom::Bool(false))) }
            "nil" => { self.i += 1; Ok(E::Atom(Atom::Nil)) }
            "sub" => {
                // only reached after a line break (`parse_expr_term` accepts a signed literal there)
                self.i += 1;
                let w2 = self.cur().to_string();
                if let Some(x) = w2.strip_prefix("i:") {
                    let n: u128 = x.parse().map_err(|_| ())?;
                    if n > i64::MAX as u128 + 1 { return Err(()); }
                    self.i += 1;
                    if n == i64::MAX as u128 + 1 { return Ok(E::Neg(Box::new(E::Atom(Atom::Int(n as u64))))); }
                    return Ok(E::Neg(Box::new(E::Atom(Atom::Int(n as u64)))));
                }
                if let Some(x) = w2.strip_prefix("f:") { self.i += 1; return Ok(E::Neg(Box::new(E::Atom(Atom::Float(x.into()))))); }
                Err(())
            }
            "(" => {
                self.i += 1;
                let mut v = self.list(")")?;
                match v.len() { 0 => Err(()), 1 => Ok(v.pop().unwrap()), _ => Ok(E::Tuple(v)) }
            }
            "[" => { self.i += 1; Ok(E::Array(self.list("]")?)) }
            _ => Err(()),
        }
    }
    pub fn bp(&mut self, bp: u32) -> Result<E, ()> {
        // an operand may start on a continuation line, whatever it starts with
        self.skip_nl();
        let mut lhs = match self.cur() {
            "sub" => {
                self.i += 1;
                // the smallest integer: no other spelling exists
                let after = self.toks.get(self.i + 1).map(|s| s.as_str()).unwrap_or("<eof>");
                let tighter = matches!(after, "(" | "." | "[" | "!" | "?") || ref_op(after).map(|o| o.doc_level() > LEVEL_NEG).unwrap_or(false);
                if self.cur() == "i:9223372036854775808" && !tighter {
                    self.i += 1;
                    E::Neg(Box::new(E::Atom(Atom::Int(1u64 << 63))))
                } else {
                    E::Neg(Box::new(self.bp(LEVEL_NEG)?))
                }
            }
            "not" => { self.i += 1; E::Not(Box::new(self.bp(LEVEL_NOT)?)) }
            _ => self.term()?,
        };
        loop {
            match self.cur() {
                "(" => { self.i += 1; let a = self.list(")")?; lhs = E::Call(Box::new(lhs), a); }
                "." => {
                    self.i += 1;
                    let w = self.cur().to_string();
                    match w.strip_prefix("id:") { Some(n) => { self.i += 1; lhs = E::Member(Box::new(lhs), n.into()); } None => return Err(()) }
                }
                "[" => {
                    self.i += 1;
                    self.skip_nl();
                    let ix = self.bp(0)?;
                    self.skip_nl();
                    if self.cur() != "]" { return Err(()); }
                    self.i += 1;
                    lhs = E::Index(Box::new(lhs), Box::new(ix));
                }
                "!" => { self.i += 1; lhs = E::Unwrap(Box::new(lhs)); }
                "?" => { self.i += 1; lhs = E::Try(Box::new(lhs)); }
                w => match ref_op(w) {
                    Some(o) if o.doc_level() > bp => {
                        self.i += 1;
                        let rhs = self.bp(o.doc_level())?;
                        lhs = E::Bin(o, Box::new(lhs), Box::new(rhs));
                    }
                    _ => return Ok(lhs),
                },
            }
        }
    }
}

/// `Ok((tree, consumed_all))` or `Err(())`; the one exception to "every `-` is a prefix operator" is
/// the smallest integer, which has no other spelling: `-9223372036854775808` not followed by a
/// tighter operator is the literal (the reference reports a range error otherwise, like any parser must).
pub fn reference_parse(words: &[String]) -> String {
    let mut p = RefParser { toks: words, i: 0 };
    p.skip_nl();
    match p.bp(0) {
        Err(()) => "err".into(),
        Ok(e) => {
            let consumed = p.i;
            p.skip_nl();
            if p.i >= words.len() { format!("ok {}", e.sexpr()) } else { format!("partial {} {}", consumed, e.sexpr()) }
        }
    }
}

/// Continuation-line layout: a line break (also a comment + line break, or a blank line) after binary
/// and prefix operators, `(`, `,`, `[` of a spelling given as source tokens.
pub fn with_continuations(rng: &mut Rng, toks: &[String]) -> String {
    let mut out = String::new();
    for (i, t) in toks.iter().enumerate() {
        if i > 0 && !out.ends_with('\n') { out.push(' '); }
        out.push_str(t);
        let breakable = matches!(t.as_str(), "(" | "," | "[" | "-" | "not") || ALL_OPS.iter().any(|o| o.text() == t);
        if breakable && i + 1 < toks.len() && rng.chance(1, 2) {
            out.push_str(match rng.below(4) { 0 => "\n", 1 => " // c -x\n", 2 => "\n\n", _ => "\n    " });
        }
    }
    out
}

pub fn print_minimal_tokens(e: &E) -> Vec<String> {
    let mut p = Printer { extra: None, parens: 0 };
    let mut out = vec![];
    p.print(e, &mut out);
    out
}
