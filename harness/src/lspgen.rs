//! Shared by C35 / C34 / C04 (bG10): (1) a parser for Rust's derived `Debug` text and its structural
//! rendering as the generic tree the Lean model `AbraModel/SpanTree.lean` reads; (2) a typed program
//! generator with nested scopes and shadowing that knows, for every identifier occurrence it writes,
//! the declaration that is innermost visible there, and for every expression the type it has.
#![allow(dead_code)]
use vh::Rng;

// ------------------------------------------------------------------ derived-Debug text → generic tree
#[derive(Debug, Clone)]
pub enum Dv {
    Struct(String, Vec<(String, Dv)>),
    Tuple(String, Vec<Dv>), // name "" = anonymous tuple
    List(Vec<Dv>),
    Atom(String),
}

struct P<'a> {
    s: &'a [u8],
    i: usize,
}
impl<'a> P<'a> {
    fn ws(&mut self) {
        while self.i < self.s.len() && (self.s[self.i] == b' ' || self.s[self.i] == b'\n') {
            self.i += 1;
        }
    }
    fn peek(&mut self) -> Option<u8> {
        self.ws();
        self.s.get(self.i).copied()
    }
    fn eat(&mut self, c: u8) -> bool {
        if self.peek() == Some(c) {
            self.i += 1;
            true
        } else {
            false
        }
    }
    fn list(&mut self, close: u8) -> Option<Vec<Dv>> {
        let mut v = vec![];
        loop {
            if self.eat(close) {
                return Some(v);
            }
            v.push(self.value()?);
            if !self.eat(b',') {
                if self.eat(close) {
                    return Some(v);
                }
                return None;
            }
        }
    }
    fn value(&mut self) -> Option<Dv> {
        let c = self.peek()?;
        match c {
            b'"' => {
                let st = self.i;
                self.i += 1;
                while self.i < self.s.len() && self.s[self.i] != b'"' {
                    if self.s[self.i] == b'\\' {
                        self.i += 1;
                    }
                    self.i += 1;
                }
                self.i += 1;
                Some(Dv::Atom(String::from_utf8_lossy(&self.s[st..self.i.min(self.s.len())]).into_owned()))
            }
            b'[' => {
                self.i += 1;
                Some(Dv::List(self.list(b']')?))
            }
            b'(' => {
                self.i += 1;
                Some(Dv::Tuple(String::new(), self.list(b')')?))
            }
            _ => {
                let st = self.i;
                while self.i < self.s.len()
                    && (self.s[self.i].is_ascii_alphanumeric() || matches!(self.s[self.i], b'_' | b'-' | b'.' | b'+'))
                {
                    self.i += 1;
                }
                if st == self.i {
                    return None;
                }
                let name = String::from_utf8_lossy(&self.s[st..self.i]).into_owned();
                match self.peek() {
                    Some(b'{') => {
                        self.i += 1;
                        let mut fields = vec![];
                        loop {
                            if self.eat(b'}') {
                                break;
                            }
                            self.ws();
                            let fs = self.i;
                            while self.i < self.s.len() && (self.s[self.i].is_ascii_alphanumeric() || self.s[self.i] == b'_') {
                                self.i += 1;
                            }
                            let fname = String::from_utf8_lossy(&self.s[fs..self.i]).into_owned();
                            if !self.eat(b':') {
                                return None;
                            }
                            fields.push((fname, self.value()?));
                            if !self.eat(b',') {
                                if self.eat(b'}') {
                                    break;
                                }
                                return None;
                            }
                        }
                        Some(Dv::Struct(name, fields))
                    }
                    Some(b'(') => {
                        self.i += 1;
                        Some(Dv::Tuple(name, self.list(b')')?))
                    }
                    _ => Some(Dv::Atom(name)),
                }
            }
        }
    }
}

pub fn parse_debug(s: &str) -> Option<Dv> {
    let mut p = P { s: s.as_bytes(), i: 0 };
    let v = p.value()?;
    p.ws();
    if p.i == s.len() { Some(v) } else { None }
}

fn field<'a>(fs: &'a [(String, Dv)], n: &str) -> Option<&'a Dv> {
    fs.iter().find(|(k, _)| k == n).map(|(_, v)| v)
}
fn num(v: Option<&Dv>) -> usize {
    match v {
        Some(Dv::Atom(a)) => a.parse().unwrap_or(0),
        _ => 0,
    }
}
fn loc_of(fs: &[(String, Dv)]) -> (usize, usize) {
    match field(fs, "loc") {
        Some(Dv::Struct(_, l)) => (num(field(l, "lo")), num(field(l, "hi"))),
        _ => (0, 0),
    }
}
fn id_of(fs: &[(String, Dv)]) -> usize {
    match field(fs, "id") {
        Some(Dv::Struct(n, l)) if n == "NodeId" => num(field(l, "id")),
        _ => 0,
    }
}

/// Structural rendering: one node per value — `( kind lo hi id kids… )`; a value with a `kind` field is
/// named `<Struct>.<Variant>` and its children are the variant's payload; other structs list their
/// fields in declaration order (minus `loc`/`id`); `Some(..)`/tuple variants keep their name; lists are
/// `List`, anonymous tuples `Tuple`, everything else (numbers, strings, unit variants, `None`) is `A`.
/// Returns the number of nodes.
pub fn render_tree(v: &Dv, out: &mut String) -> usize {
    let mut n = 1;
    match v {
        Dv::Atom(_) => out.push_str("( A 0 0 0 ) "),
        Dv::List(xs) => {
            out.push_str("( List 0 0 0 ");
            for x in xs {
                n += render_tree(x, out);
            }
            out.push_str(") ");
        }
        Dv::Tuple(name, xs) => {
            out.push_str(&format!("( {} 0 0 0 ", if name.is_empty() { "Tuple" } else { name }));
            for x in xs {
                n += render_tree(x, out);
            }
            out.push_str(") ");
        }
        Dv::Struct(name, fs) => {
            let (lo, hi) = loc_of(fs);
            let id = id_of(fs);
            if let Some(k) = field(fs, "kind") {
                let (kname, payload): (String, Vec<&Dv>) = match k {
                    Dv::Atom(w) => (w.clone(), vec![]),
                    Dv::Tuple(w, xs) => (w.clone(), xs.iter().collect()),
                    Dv::Struct(w, kfs) => (w.clone(), kfs.iter().map(|(_, v)| v).collect()),
                    Dv::List(_) => ("?".into(), vec![]),
                };
                out.push_str(&format!("( {name}.{kname} {lo} {hi} {id} "));
                for x in payload {
                    n += render_tree(x, out);
                }
                out.push_str(") ");
            } else {
                out.push_str(&format!("( {name} {lo} {hi} {id} "));
                if name != "Identifier" {
                    for (k, x) in fs {
                        if k == "loc" || k == "id" {
                            continue;
                        }
                        n += render_tree(x, out);
                    }
                }
                out.push_str(") ");
            }
        }
    }
    n
}


/// node ids of every `Expr` of kind `Variable` in the Debug tree (for the hover / go-to-definition agreement check)
pub fn variable_ids(v: &Dv, out: &mut std::collections::HashSet<usize>) {
    match v {
        Dv::Atom(_) => {}
        Dv::List(xs) | Dv::Tuple(_, xs) => xs.iter().for_each(|x| variable_ids(x, out)),
        Dv::Struct(name, fs) => {
            if name == "Expr" {
                if let Some(Dv::Tuple(k, _)) = field(fs, "kind") {
                    if k == "Variable" {
                        out.insert(id_of(fs));
                    }
                }
            }
            fs.iter().for_each(|(_, x)| variable_ids(x, out));
        }
    }
}

// ------------------------------------------------------------------ typed program generator
#[derive(Clone, Debug, PartialEq)]
pub enum Ty {
    Int,
    Bool,
    Str,
    Float,
    Void,
    Arr(Box<Ty>),
    Tup(Vec<Ty>),
    Fn(Vec<Ty>, Box<Ty>),
    Struct(usize),
    Enum(usize),
}

/// where a declaration's name is written; `file` indexes `Prog::files`, `PRELUDE_FILE` = the prelude
#[derive(Clone, Debug, PartialEq)]
pub struct DeclRef {
    pub file: usize,
    pub lo: usize,
    pub hi: usize,
    /// enum variants: go-to-definition answers with the whole variant (`Circle(int)`), which starts at the name
    pub variant: bool,
}
pub const PRELUDE_FILE: usize = usize::MAX;
/// `TyProbe::ty` of a position where hover must report nothing
pub const NO_TYPE: &str = "<none>";

#[derive(Clone, Debug)]
pub struct Occ {
    pub lo: usize,
    pub hi: usize,
    pub name: String,
    /// `Some` = a use: go-to-definition must answer with this declaration; `None` = a declaration site or an
    /// occurrence whose answer the property does not fix (import path, named type parameter)
    pub decl: Option<DeclRef>,
    pub what: &'static str,
}

#[derive(Clone, Debug)]
pub struct TyProbe {
    pub lo: usize,
    pub hi: usize,
    pub ty: String,
    pub what: &'static str,
}

#[derive(Clone, Debug, Default)]
pub struct FileOut {
    pub name: String, // "main" / "lib1"
    pub src: String,
    pub occs: Vec<Occ>,
    pub probes: Vec<TyProbe>,
}

#[derive(Clone, Debug, Default)]
pub struct Prog {
    pub files: Vec<FileOut>, // files[0] = main
    pub feats: Vec<&'static str>,
    /// hand-written witness: only the listed occurrences are constrained (identifiers that are not listed may answer)
    pub lenient: bool,
}

#[derive(Clone, Debug)]
struct StructD {
    name: String,
    decl: DeclRef,
    fields: Vec<(String, Ty, DeclRef)>,
    /// an extension method `fn <name>(self, <params>) -> int`
    method: Option<(String, DeclRef, Vec<(String, Ty)>)>,
}
#[derive(Clone, Debug)]
struct EnumD {
    name: String,
    decl: DeclRef,
    variants: Vec<(String, Vec<Ty>, DeclRef)>,
    /// per variant: the field names when its fields are declared with names
    vnames: Vec<Option<Vec<String>>>,
}
#[derive(Clone, Debug)]
struct Var {
    name: String,
    ty: Ty,
    decl: DeclRef,
    mutable: bool,
    /// reachable only as `<alias>.<name>`
    alias: Option<(String, DeclRef)>,
    /// named functions: parameter names and whether each has a default value
    params: Vec<(String, bool)>,
}

pub struct Opts {
    pub task_blocks: bool,
    pub non_ascii: bool,
}

pub struct Gen<'a> {
    rng: &'a mut Rng,
    opts: &'a Opts,
    structs: Vec<StructD>,
    enums: Vec<EnumD>,
    /// which structs/enums the current file can name
    vis_structs: Vec<usize>,
    vis_enums: Vec<usize>,
    scopes: Vec<Vec<Var>>,
    cur: FileOut,
    cur_idx: usize,
    ind: usize,
    budget: i32,
    /// the expression being written stands where the checker knows the expected type (`.Variant` is inferable)
    dot_ok: bool,
    /// the expression being written is directly a call argument or the initializer of an annotated `let`
    /// (the checker does not infer the result type of an alias-qualified call `lb.f()` on its own)
    typed_ctx: bool,
    /// index of the first scope that belongs to the innermost enclosing lambda / task (captured variables
    /// below it cannot be assigned)
    closure_base: usize,
    feats: Vec<&'static str>,
}

const VARS: [&str; 9] = ["a", "b", "c", "x", "y", "n", "s", "v", "h1"];
const BASE: [Ty; 4] = [Ty::Int, Ty::Bool, Ty::Str, Ty::Float];

impl<'a> Gen<'a> {
    pub fn new(rng: &'a mut Rng, opts: &'a Opts) -> Self {
        Gen {
            rng, opts, structs: vec![], enums: vec![], vis_structs: vec![], vis_enums: vec![], scopes: vec![],
            cur: FileOut::default(), cur_idx: 0, ind: 0, budget: 0, dot_ok: false, typed_ctx: false, closure_base: 0, feats: vec![],
        }
    }

    pub fn show(&self, t: &Ty) -> String {
        match t {
            Ty::Int => "int".into(),
            Ty::Bool => "bool".into(),
            Ty::Str => "string".into(),
            Ty::Float => "float".into(),
            Ty::Void => "void".into(),
            Ty::Arr(e) => format!("array<{}>", self.show(e)),
            Ty::Tup(es) => format!("({})", es.iter().map(|e| self.show(e)).collect::<Vec<_>>().join(", ")),
            Ty::Fn(ps, r) => format!("fn({}) -> {}", ps.iter().map(|e| self.show(e)).collect::<Vec<_>>().join(", "), self.show(r)),
            Ty::Struct(i) => self.structs[*i].name.clone(),
            Ty::Enum(i) => self.enums[*i].name.clone(),
        }
    }

    fn w(&mut self, s: &str) {
        self.cur.src.push_str(s);
    }
    fn pos(&self) -> usize {
        self.cur.src.len()
    }
    fn nl(&mut self) {
        self.w("\n");
        for _ in 0..self.ind {
            self.w("  ");
        }
    }
    fn feat(&mut self, f: &'static str) {
        self.feats.push(f);
    }
    fn here(&self, lo: usize, hi: usize) -> DeclRef {
        DeclRef { file: self.cur_idx, lo, hi, variant: false }
    }
    /// write an identifier occurrence
    fn ident(&mut self, name: &str, decl: Option<DeclRef>, what: &'static str) -> (usize, usize) {
        let lo = self.pos();
        self.w(name);
        let hi = self.pos();
        self.cur.occs.push(Occ { lo, hi, name: name.to_string(), decl, what });
        (lo, hi)
    }
    fn probe(&mut self, lo: usize, hi: usize, t: &Ty, what: &'static str) {
        let ty = self.show(t);
        self.cur.probes.push(TyProbe { lo, hi, ty, what });
    }
    /// write a type annotation; struct / enum names are identifier uses
    fn annot(&mut self, t: &Ty) {
        match t {
            Ty::Int => self.w("int"),
            Ty::Bool => self.w("bool"),
            Ty::Str => self.w("string"),
            Ty::Float => self.w("float"),
            Ty::Void => self.w("void"),
            Ty::Arr(e) => {
                self.w("array<");
                self.annot(e);
                self.w(">");
            }
            Ty::Tup(es) => {
                self.w("(");
                for (i, e) in es.iter().enumerate() {
                    if i > 0 {
                        self.w(", ");
                    }
                    self.annot(e);
                }
                self.w(")");
            }
            Ty::Fn(ps, r) => {
                if ps.len() == 1 && !matches!(ps[0], Ty::Fn(..) | Ty::Tup(..)) {
                    self.annot(&ps[0]);
                } else {
                    self.w("(");
                    for (i, e) in ps.iter().enumerate() {
                        if i > 0 {
                            self.w(", ");
                        }
                        self.annot(e);
                    }
                    self.w(")");
                }
                self.w(" -> ");
                self.annot(r);
            }
            Ty::Struct(i) => {
                let (n, d) = (self.structs[*i].name.clone(), self.structs[*i].decl.clone());
                self.ident(&n, Some(d), "type-name");
            }
            Ty::Enum(i) => {
                let (n, d) = (self.enums[*i].name.clone(), self.enums[*i].decl.clone());
                self.ident(&n, Some(d), "type-name");
            }
        }
    }

    fn base_ty(&mut self) -> Ty {
        self.rng.pick(&BASE).clone()
    }
    fn any_ty(&mut self, depth: u32) -> Ty {
        match self.rng.below(if depth <= 2 { 12 } else { 6 }) {
            0..=5 => self.base_ty(),
            6 => Ty::Arr(Box::new(if self.rng.chance(1, 2) { Ty::Int } else { Ty::Str })),
            7 => Ty::Tup(vec![self.base_ty(), self.base_ty()]),
            8 => {
                let n = self.rng.below(3) as usize;
                Ty::Fn((0..n).map(|_| self.base_ty()).collect(), Box::new(self.base_ty()))
            }
            9 if !self.vis_structs.is_empty() => Ty::Struct(*self.rng.pick(&self.vis_structs.clone())),
            10 if !self.vis_enums.is_empty() => Ty::Enum(*self.rng.pick(&self.vis_enums.clone())),
            _ => Ty::Int,
        }
    }

    /// parameter types: nothing that needs a type name of another file
    fn sig_ty(&mut self) -> Ty {
        match self.rng.below(10) {
            0 => Ty::Arr(Box::new(if self.rng.chance(1, 2) { Ty::Int } else { Ty::Str })),
            1 => Ty::Tup(vec![self.base_ty(), self.base_ty()]),
            2 => Ty::Fn(vec![Ty::Int], Box::new(self.base_ty())),
            _ => self.base_ty(),
        }
    }

    /// innermost-first view of the variables that can be named directly (shadowed ones removed)
    fn visible(&self) -> Vec<Var> {
        let mut seen: Vec<String> = vec![];
        let mut out = vec![];
        for sc in self.scopes.iter().rev() {
            for v in sc.iter().rev() {
                if v.alias.is_some() {
                    out.push(v.clone());
                    continue;
                }
                if !seen.contains(&v.name) {
                    seen.push(v.name.clone());
                    out.push(v.clone());
                }
            }
        }
        // an alias that is itself shadowed by a variable of the same name cannot be used
        out.retain(|v| match &v.alias {
            Some((a, _)) => !seen.contains(a),
            None => true,
        });
        out
    }
    fn bind(&mut self, name: &str, ty: Ty, decl: DeclRef, mutable: bool) {
        self.scopes.last_mut().unwrap().push(Var { name: name.to_string(), ty, decl, mutable, alias: None, params: vec![] });
    }

    fn use_var(&mut self, v: &Var) {
        if let Some((alias, adecl)) = &v.alias {
            self.feat("use:qualified");
            self.ident(alias, Some(adecl.clone()), "alias-use");
            self.w(".");
            self.ident(&v.name, Some(v.decl.clone()), "qualified-use");
            return;
        }
        self.feat(if v.decl.file != self.cur_idx { "use:imported" } else { "use:local" });
        let (lo, hi) = self.ident(&v.name, Some(v.decl.clone()), "use");
        let t = v.ty.clone();
        self.probe(lo, hi, &t, "variable");
    }

    fn literal(&mut self, t: &Ty, depth: u32) {
        let lo = self.pos();
        match t {
            Ty::Int => {
                let n = self.rng.below(100);
                self.w(&n.to_string());
            }
            Ty::Bool => {
                let b = self.rng.chance(1, 2);
                self.w(if b { "true" } else { "false" })
            }
            Ty::Str => {
                if self.opts.non_ascii && self.rng.chance(1, 3) {
                    self.feat("non-ascii-literal");
                    let l = *self.rng.pick(&["\"héllo\"", "\"日本\"", "\"a😀b\""]);
                    self.w(l);
                } else {
                    let l = *self.rng.pick(&["\"s\"", "\"\"", "\"ab c\""]);
                    self.w(l);
                }
            }
            Ty::Float => {
                let n = self.rng.below(50);
                self.w(&format!("{n}.5"));
            }
            Ty::Void => {
                self.println(depth);
                return;
            }
            Ty::Arr(e) => {
                self.feat("array-literal");
                self.w("[");
                let n = 1 + self.rng.below(3);
                for i in 0..n {
                    if i > 0 {
                        self.w(", ");
                    }
                    self.expr(e, depth + 1);
                }
                self.w("]");
                let hi = self.pos();
                self.probe(lo, lo + 1, t, "array-bracket");
                self.probe(hi - 1, hi, t, "array-bracket");
                return;
            }
            Ty::Tup(es) => {
                self.feat("tuple-literal");
                self.w("(");
                for (i, e) in es.iter().enumerate() {
                    if i > 0 {
                        self.w(", ");
                    }
                    self.expr(e, depth + 1);
                }
                self.w(")");
                let hi = self.pos();
                self.probe(lo, lo + 1, t, "tuple-paren");
                self.probe(hi - 1, hi, t, "tuple-paren");
                return;
            }
            Ty::Fn(ps, r) => {
                self.lambda(ps, r, depth);
                return;
            }
            Ty::Struct(i) => {
                self.feat("struct-ctor");
                let sd = self.structs[*i].clone();
                self.ident(&sd.name, Some(sd.decl.clone()), "ctor-use");
                let p0 = self.pos();
                self.w("(");
                let params: Vec<(Option<String>, Ty, bool)> = sd.fields.iter().map(|(n, ft, _)| (Some(n.clone()), ft.clone(), false)).collect();
                self.call_args(&params, depth);
                self.w(")");
                let hi = self.pos();
                self.probe(p0, p0 + 1, t, "call-paren");
                self.probe(hi - 1, hi, t, "call-paren");
                return;
            }
            Ty::Enum(i) => {
                let ed = self.enums[*i].clone();
                let vi = self.rng.below(ed.variants.len() as u64) as usize;
                let (vn, vts, vd) = ed.variants[vi].clone();
                let vnames = ed.vnames[vi].clone();
                if self.dot_ok && self.rng.chance(2, 3) {
                    self.feat("variant:leading-dot");
                    // the whole `.Name` expression answers for the variant
                    let l = self.pos();
                    self.w(".");
                    self.w(&vn);
                    let h = self.pos();
                    self.cur.occs.push(Occ { lo: l, hi: h, name: vn.clone(), decl: Some(vd.clone()), what: "variant-dot" });
                } else {
                    self.feat("variant:qualified");
                    self.ident(&ed.name, Some(ed.decl.clone()), "enum-name-use");
                    self.w(".");
                    self.ident(&vn, Some(vd.clone()), "variant-use");
                }
                if !vts.is_empty() {
                    let p0 = self.pos();
                    self.w("(");
                    let params: Vec<(Option<String>, Ty, bool)> =
                        vts.iter().enumerate().map(|(k, ft)| (vnames.as_ref().map(|ns| ns[k].clone()), ft.clone(), false)).collect();
                    self.call_args(&params, depth);
                    self.w(")");
                    let hi = self.pos();
                    self.probe(p0, p0 + 1, t, "call-paren");
                    self.probe(hi - 1, hi, t, "call-paren");
                }
                return;
            }
        }
        let hi = self.pos();
        self.probe(lo, hi, t, "literal");
    }

    /// the arguments of a call, positional, named (`label = value`), mixed, in or out of declaration order, trailing
    /// defaulted ones possibly left out; every value is an expression of the parameter's type written in place
    fn call_args(&mut self, params: &[(Option<String>, Ty, bool)], depth: u32) {
        let all_named = !params.is_empty() && params.iter().all(|p| p.0.is_some());
        let mut n = params.len();
        while n > 0 && params[n - 1].2 && self.rng.chance(1, 2) {
            self.feat("call:default-omitted");
            n -= 1;
        }
        let style = if all_named { self.rng.below(4) } else { 0 };
        // number of leading positional arguments
        let npos = match style {
            0 => n,
            1 | 2 => 0,
            _ => self.rng.below(n as u64 + 1) as usize,
        };
        let mut order: Vec<usize> = (0..n).collect();
        if style == 2 && n > 1 {
            self.feat("call:named-reordered");
            order.reverse();
        }
        for (k, &i) in order.iter().enumerate() {
            if k > 0 {
                self.w(", ");
            }
            let (name, ty, _) = &params[i];
            if i >= npos {
                if let Some(name) = name {
                    self.feat("call:named-arg");
                    self.ident(name, None, "arg-label");
                    self.w(" = ");
                }
            }
            self.expr_typed(ty, depth + 1);
        }
    }

    fn println(&mut self, depth: u32) {
        self.feat("use:prelude");
        self.ident("println", Some(DeclRef { file: PRELUDE_FILE, lo: 0, hi: 0, variant: false }), "prelude-use");
        let p0 = self.pos();
        self.w("(");
        let t = self.base_ty();
        self.expr(&t, depth + 1);
        self.w(")");
        let hi = self.pos();
        self.probe(p0, p0 + 1, &Ty::Void, "call-paren");
        self.probe(hi - 1, hi, &Ty::Void, "call-paren");
    }

    fn lambda(&mut self, ps: &[Ty], r: &Ty, depth: u32) {
        self.feat("lambda");
        let ft = Ty::Fn(ps.to_vec(), Box::new(r.clone()));
        let lo = self.pos();
        self.w("(");
        let saved_base = self.closure_base;
        self.closure_base = self.scopes.len();
        self.scopes.push(vec![]);
        for (i, p) in ps.iter().enumerate() {
            if i > 0 {
                self.w(", ");
            }
            let name = *self.rng.pick(&VARS);
            // two parameters of one lambda must differ
            let name = if self.scopes.last().unwrap().iter().any(|v| v.name == name) { format!("{name}{i}") } else { name.to_string() };
            let (l, h) = self.ident(&name, None, "param-decl");
            self.probe(l, h, p, "param-decl");
            self.w(": ");
            self.annot(p);
            let d = self.here(l, h);
            self.bind(&name, p.clone(), d, false);
        }
        self.w(")");
        let h0 = self.pos();
        self.probe(lo, lo + 1, &ft, "lambda-paren");
        self.probe(h0 - 1, h0, &ft, "lambda-paren");
        self.w(" -> ");
        if self.rng.chance(1, 3) && depth < 3 && *r != Ty::Void {
            self.feat("lambda:block-body");
            self.block_expr(r, depth + 1);
        } else {
            self.expr(r, depth + 1);
        }
        self.scopes.pop();
        self.closure_base = saved_base;
    }

    /// `{ stmts; expr }` with its own scope
    fn block_expr(&mut self, t: &Ty, depth: u32) {
        self.feat("block");
        self.w("{");
        self.ind += 1;
        self.scopes.push(vec![]);
        let n = self.rng.below(3) as usize;
        self.stmts(n, depth + 1);
        self.nl();
        self.expr(t, depth + 1);
        self.scopes.pop();
        self.ind -= 1;
        self.nl();
        self.w("}");
    }

    /// forms that can stand as an operand without parentheses
    fn atom(&mut self, t: &Ty, depth: u32) {
        self.budget -= 1;
        let vis = self.visible();
        let same: Vec<&Var> = vis.iter().filter(|v| &v.ty == t).collect();
        let typed_ctx = self.typed_ctx;
        self.typed_ctx = false;
        let callable: Vec<&Var> = vis.iter().filter(|v| matches!(&v.ty, Ty::Fn(_, r) if **r == *t) && (v.alias.is_none() || typed_ctx)).collect();
        let structs: Vec<(&Var, usize)> = vis
            .iter()
            .filter(|v| v.alias.is_none())
            .filter_map(|v| match &v.ty {
                Ty::Struct(i) if self.structs[*i].fields.iter().any(|f| &f.1 == t) => Some((v, *i)),
                _ => None,
            })
            .collect();
        let arrays: Vec<&Var> = vis.iter().filter(|v| v.alias.is_none() && matches!(&v.ty, Ty::Arr(e) if **e == *t)).collect();
        let methods: Vec<(&Var, usize)> = vis
            .iter()
            .filter(|v| v.alias.is_none() && *t == Ty::Int)
            .filter_map(|v| match &v.ty {
                Ty::Struct(i) if self.structs[*i].method.is_some() && self.structs[*i].decl.file == self.cur_idx => Some((v, *i)),
                _ => None,
            })
            .collect();
        let deep = depth >= 4 || self.budget <= 0;
        let k = self.rng.below(10);
        let own_method: Option<usize> = self.vis_structs.iter().copied().find(|i| self.structs[*i].method.is_some() && self.structs[*i].decl.file == self.cur_idx);
        if let (Some(si), true, false, true) = (own_method, *t == Ty::Int, deep, k == 9) {
            // method call on a freshly constructed value: `Pt(..).mth(k = …, w = …)`
            self.feat("method-call");
            let (mname, _mdecl, mps) = self.structs[si].method.clone().unwrap();
            self.literal(&Ty::Struct(si), depth + 1);
            self.w(".");
            self.ident(&mname, None, "method-name");
            let p0 = self.pos();
            self.w("(");
            let params: Vec<(Option<String>, Ty, bool)> = mps.iter().map(|(n, t)| (Some(n.clone()), t.clone(), false)).collect();
            self.call_args(&params, depth);
            self.w(")");
            let hi = self.pos();
            self.probe(p0, p0 + 1, t, "call-paren");
            self.probe(hi - 1, hi, t, "call-paren");
            return;
        }
        if !same.is_empty() && (k < 4 || deep) {
            let v = (*self.rng.pick(&same)).clone();
            self.use_var(&v);
        } else if !callable.is_empty() && k < 6 && !deep {
            self.feat("call");
            let f = (*self.rng.pick(&callable)).clone();
            self.use_var(&f);
            let p0 = self.pos();
            self.w("(");
            if let Ty::Fn(ps, _) = &f.ty {
                let named = f.alias.is_none() && f.params.len() == ps.len();
                let params: Vec<(Option<String>, Ty, bool)> = ps
                    .iter()
                    .enumerate()
                    .map(|(i, p)| if named { (Some(f.params[i].0.clone()), p.clone(), f.params[i].1) } else { (None, p.clone(), false) })
                    .collect();
                self.call_args(&params, depth);
            }
            self.w(")");
            let hi = self.pos();
            self.probe(p0, p0 + 1, t, "call-paren");
            self.probe(hi - 1, hi, t, "call-paren");
        } else if !methods.is_empty() && k < 9 && !deep && self.rng.chance(1, 2) {
            // method call on a struct value: `p.mth(k = …, w = …)`
            self.feat("method-call");
            let (v, si) = {
                let (v, si) = self.rng.pick(&methods);
                ((*v).clone(), *si)
            };
            let (mname, _mdecl, mps) = self.structs[si].method.clone().unwrap();
            self.use_var(&v);
            self.w(".");
            self.ident(&mname, None, "method-name");
            let p0 = self.pos();
            self.w("(");
            let params: Vec<(Option<String>, Ty, bool)> = mps.iter().map(|(n, t)| (Some(n.clone()), t.clone(), false)).collect();
            self.call_args(&params, depth);
            self.w(")");
            let hi = self.pos();
            self.probe(p0, p0 + 1, t, "call-paren");
            self.probe(hi - 1, hi, t, "call-paren");
        } else if !structs.is_empty() && k < 8 {
            self.feat("field-access");
            let (v, si) = {
                let (v, si) = self.rng.pick(&structs);
                ((*v).clone(), *si)
            };
            let fs: Vec<(String, Ty, DeclRef)> = self.structs[si].fields.iter().filter(|f| &f.1 == t).cloned().collect();
            let (fname, _, fdecl) = self.rng.pick(&fs).clone();
            self.use_var(&v);
            let d0 = self.pos();
            self.w(".");
            let (l, h) = self.ident(&fname, Some(fdecl), "field-use");
            self.probe(d0, d0 + 1, t, "member-dot");
            self.probe(l, h, t, "member-name");
        } else if !arrays.is_empty() && k < 9 {
            self.feat("index-access");
            let v = (*self.rng.pick(&arrays)).clone();
            self.use_var(&v);
            let b0 = self.pos();
            self.w("[");
            self.expr(&Ty::Int, depth + 1);
            self.w("]");
            let hi = self.pos();
            self.probe(b0, b0 + 1, t, "index-bracket");
            self.probe(hi - 1, hi, t, "index-bracket");
        } else if deep || k < 9 || matches!(t, Ty::Void) {
            self.literal(t, depth);
        } else {
            self.w("(");
            self.expr(t, depth + 1);
            self.w(")");
        }
    }

    /// an expression in a position whose type the checker knows beforehand (call argument, annotated let)
    fn expr_typed(&mut self, t: &Ty, depth: u32) {
        if matches!(t, Ty::Enum(_)) && self.rng.chance(1, 2) {
            self.dot_ok = true;
            self.literal(t, depth);
            self.dot_ok = false;
        } else {
            self.dot_ok = false;
            self.typed_ctx = true;
            self.expr_inner(t, depth);
            self.typed_ctx = false;
        }
    }

    pub fn expr(&mut self, t: &Ty, depth: u32) {
        self.dot_ok = false;
        self.typed_ctx = false;
        self.expr_inner(t, depth);
    }

    fn expr_inner(&mut self, t: &Ty, depth: u32) {
        let deep = depth >= 4 || self.budget <= 0;
        if deep || matches!(t, Ty::Void | Ty::Fn(..)) {
            return self.atom(t, depth);
        }
        match self.rng.below(12) {
            0 | 1 | 2 => {
                // binary operator over atoms: every offset between the operands belongs to the operator node
                let (ops, ot): (&[&str], Ty) = match t {
                    Ty::Int => (&["+", "-", "*"], Ty::Int),
                    Ty::Float => (&["+", "*"], Ty::Float),
                    Ty::Str => (&[".."], Ty::Str),
                    Ty::Bool => {
                        if self.rng.chance(1, 2) {
                            (&["and", "or"], Ty::Bool)
                        } else {
                            (&["<", "<=", "==", ">"], Ty::Int)
                        }
                    }
                    _ => return self.atom(t, depth),
                };
                self.feat("binop");
                self.typed_ctx = false;
                let op = *self.rng.pick(ops);
                self.atom(&ot, depth + 1);
                let g0 = self.pos();
                self.w(&format!(" {op} "));
                let g1 = self.pos();
                self.atom(&ot, depth + 1);
                // an operand written in parentheses leaves the parenthesis to the operator node as well
                self.probe(g0, g1, t, "binop-gap");
            }
            3 => {
                self.feat("if-expr");
                self.w("if ");
                self.expr(&Ty::Bool, depth + 1);
                self.w(" ");
                self.block_expr(t, depth + 1);
                self.w(" else ");
                self.block_expr(t, depth + 1);
            }
            4 => self.block_expr(t, depth),
            5 | 6 => self.match_expr(t, depth),
            _ => self.atom(t, depth),
        }
    }

    fn match_expr(&mut self, t: &Ty, depth: u32) {
        let pick = self.rng.below(3);
        let has_enum = !self.vis_enums.is_empty();
        self.w("match ");
        let scrut: Ty = match pick {
            0 if has_enum => Ty::Enum(*self.rng.pick(&self.vis_enums.clone())),
            1 => Ty::Tup(vec![Ty::Int, self.base_ty()]),
            _ => Ty::Int,
        };
        self.atom(&scrut, depth + 1);
        self.w(" {");
        self.ind += 1;
        match &scrut {
            Ty::Enum(i) => {
                self.feat("match:enum");
                let ed = self.enums[*i].clone();
                for (vn, vts, vd) in &ed.variants {
                    self.nl();
                    self.scopes.push(vec![]);
                    let l = self.pos();
                    self.w(".");
                    // the tag identifier of a variant pattern
                    let tl = self.pos();
                    self.w(vn);
                    let th = self.pos();
                    self.cur.occs.push(Occ { lo: tl, hi: th, name: vn.clone(), decl: Some(vd.clone()), what: "variant-pattern" });
                    let _ = l;
                    if !vts.is_empty() {
                        self.w("(");
                        for (k, ft) in vts.iter().enumerate() {
                            if k > 0 {
                                self.w(", ");
                            }
                            self.pat_binding(ft, k);
                        }
                        self.w(")");
                    }
                    self.w(" -> ");
                    self.expr(t, depth + 2);
                    self.scopes.pop();
                }
            }
            Ty::Tup(es) => {
                self.feat("match:tuple");
                let es = es.clone();
                self.nl();
                self.scopes.push(vec![]);
                self.w("(0, ");
                self.pat_binding(&es[1], 0);
                self.w(") -> ");
                self.expr(t, depth + 2);
                self.scopes.pop();
                self.nl();
                self.scopes.push(vec![]);
                self.w("(");
                self.pat_binding(&es[0], 0);
                self.w(", _) -> ");
                self.expr(t, depth + 2);
                self.scopes.pop();
            }
            _ => {
                self.feat("match:int");
                self.nl();
                let n = self.rng.below(10);
                self.w(&format!("{n} -> "));
                self.scopes.push(vec![]);
                self.expr(t, depth + 2);
                self.scopes.pop();
                self.nl();
                self.scopes.push(vec![]);
                self.pat_binding(&Ty::Int, 0);
                self.w(" -> ");
                self.expr(t, depth + 2);
                self.scopes.pop();
            }
        }
        self.ind -= 1;
        self.nl();
        self.w("}");
    }

    /// a binding pattern: declares a variable in the current scope
    fn pat_binding(&mut self, t: &Ty, k: usize) {
        let name = *self.rng.pick(&VARS);
        let name = if self.scopes.last().unwrap().iter().any(|v| v.name == name) { format!("{name}{k}") } else { name.to_string() };
        let (l, h) = self.ident(&name, None, "arm-binding-decl");
        let d = self.here(l, h);
        self.bind(&name, t.clone(), d, false);
    }

    pub fn stmts(&mut self, n: usize, depth: u32) {
        for _ in 0..n {
            self.nl();
            self.stmt(depth);
        }
    }

    fn stmt(&mut self, depth: u32) {
        self.budget -= 1;
        let deep = depth >= 3 || self.budget <= 0;
        match self.rng.below(if deep { 6 } else { 15 }) {
            0 | 1 | 2 => {
                // let / var, optionally annotated; the right-hand side is resolved before the name is bound
                let mutable = self.rng.chance(1, 4);
                let t = self.any_ty(depth);
                let name = *self.rng.pick(&VARS);
                self.feat(if self.visible().iter().any(|v| v.name == name) { "let:shadowing" } else { "let:fresh" });
                self.w(if mutable { "var " } else { "let " });
                let (l, h) = self.ident(name, None, "binding-decl");
                self.probe(l, h, &t, "binding-decl");
                let annotated = self.rng.chance(1, 3) && !matches!(t, Ty::Fn(..));
                if annotated {
                    self.feat("let:annotated");
                    self.w(": ");
                    self.annot(&t);
                }
                self.w(" = ");
                if annotated { self.expr_typed(&t, depth + 1) } else { self.expr(&t, depth + 1) }
                let d = self.here(l, h);
                self.bind(name, t, d, mutable);
            }
            3 => {
                self.feat("let:tuple-pattern");
                let t = Ty::Tup(vec![self.base_ty(), self.base_ty()]);
                self.w("let (");
                let mut binds = vec![];
                if let Ty::Tup(es) = &t {
                    for (k, e) in es.iter().enumerate() {
                        if k > 0 {
                            self.w(", ");
                        }
                        let name = format!("{}{}", self.rng.pick(&VARS), if k == 0 { "" } else { "2" });
                        let (l, h) = self.ident(&name, None, "tuple-binding-decl");
                        binds.push((name, e.clone(), self.here(l, h)));
                    }
                }
                self.w(")");
                // the hover search tests a `let` pattern as a whole
                let ph = self.pos();
                self.probe(ph - 1, ph, &t, "let-pattern");
                self.w(" = ");
                self.expr(&t, depth + 1);
                for (n, e, d) in binds {
                    self.bind(&n, e, d, false);
                }
            }
            4 => {
                // assignment to a visible `var`
                let vis = self.visible();
                let base = self.closure_base.min(self.scopes.len());
                let muts: Vec<&Var> = vis
                    .iter()
                    .filter(|v| v.mutable && v.alias.is_none() && self.scopes[base..].iter().any(|sc| sc.iter().any(|x| x.decl == v.decl)))
                    .collect();
                if muts.is_empty() {
                    return self.println(depth);
                }
                self.feat("assign");
                let v = (*self.rng.pick(&muts)).clone();
                self.use_var(&v);
                self.w(" = ");
                self.expr(&v.ty, depth + 1);
            }
            5 => self.println(depth),
            6 => {
                self.feat("block-stmt");
                self.w("{");
                self.ind += 1;
                self.scopes.push(vec![]);
                let n = 1 + self.rng.below(3) as usize;
                self.stmts(n, depth + 1);
                self.scopes.pop();
                self.ind -= 1;
                self.nl();
                self.w("}");
            }
            7 => {
                self.feat("if-stmt");
                self.w("if ");
                self.expr(&Ty::Bool, depth + 1);
                self.w(" {");
                self.ind += 1;
                self.scopes.push(vec![]);
                let n = 1 + self.rng.below(2) as usize;
                self.stmts(n, depth + 1);
                self.scopes.pop();
                self.ind -= 1;
                self.nl();
                self.w("}");
                if self.rng.chance(1, 2) {
                    self.w(" else {");
                    self.ind += 1;
                    self.scopes.push(vec![]);
                    self.stmts(1, depth + 1);
                    self.scopes.pop();
                    self.ind -= 1;
                    self.nl();
                    self.w("}");
                }
            }
            8 => {
                self.feat("while");
                self.w("while ");
                self.expr(&Ty::Bool, depth + 1);
                self.w(" {");
                self.ind += 1;
                self.scopes.push(vec![]);
                let n = 1 + self.rng.below(2) as usize;
                self.stmts(n, depth + 1);
                self.scopes.pop();
                self.ind -= 1;
                self.nl();
                self.w("}");
            }
            9 | 10 => {
                // for: the iterable is resolved outside, the variable and the body in a scope of their own
                self.feat("for");
                let et = if self.rng.chance(1, 2) { Ty::Int } else { Ty::Str };
                self.w("for ");
                let name = *self.rng.pick(&VARS);
                let (l, h) = self.ident(name, None, "binding-decl");
                self.probe(l, h, &et, "binding-decl");
                self.w(" in ");
                self.atom(&Ty::Arr(Box::new(et.clone())), depth + 1);
                self.w(" {");
                self.ind += 1;
                self.scopes.push(vec![]);
                let d = self.here(l, h);
                self.bind(name, et, d, false);
                let n = 1 + self.rng.below(2) as usize;
                self.stmts(n, depth + 1);
                self.scopes.pop();
                self.ind -= 1;
                self.nl();
                self.w("}");
            }
            11 => {
                // match as a statement: arms are void expressions
                self.feat("match-stmt");
                self.match_expr(&Ty::Void, depth + 1);
            }
            12 if self.opts.task_blocks => {
                // repaired behaviour (D45): the searches descend into the task body
                self.feat("task-block");
                self.w("task {");
                self.ind += 1;
                let saved_base = self.closure_base;
                self.closure_base = self.scopes.len();
                self.scopes.push(vec![]);
                let n = 1 + self.rng.below(2) as usize;
                self.stmts(n, depth + 1);
                self.scopes.pop();
                self.closure_base = saved_base;
                self.ind -= 1;
                self.nl();
                self.w("}");
            }
            _ => {
                let t = self.any_ty(depth);
                self.w("let ");
                let name = *self.rng.pick(&VARS);
                let (l, h) = self.ident(name, None, "binding-decl");
                self.probe(l, h, &t, "binding-decl");
                self.w(" = ");
                self.expr(&t, depth + 1);
                let d = self.here(l, h);
                self.bind(name, t, d, false);
            }
        }
    }

    /// one file: type definitions, functions (all visible to every body, also before their definition),
    /// then — for the main file — top-level statements (not visible inside function bodies).
    fn file(&mut self, idx: usize, name: &str, fn_names: &[&str], type_names: (&str, &str), imports: Vec<Var>, import_line: Option<(String, Vec<(usize, usize, String)>)>, top: usize) -> (Vec<Var>, Vec<usize>, Vec<usize>) {
        self.cur = FileOut { name: name.to_string(), ..Default::default() };
        self.cur_idx = idx;
        self.ind = 0;
        if let Some((line, occs)) = import_line {
            for (lo, hi, n) in occs {
                self.cur.occs.push(Occ { lo, hi, name: n, decl: None, what: "import-path" });
            }
            self.w(&line);
            self.w("\n");
        }
        if self.opts.non_ascii && self.rng.chance(1, 2) {
            self.feat("non-ascii-comment");
            self.w("// ünïcödé → comment\n");
        }
        // a struct and an enum of this file
        let mut my_structs = vec![];
        let mut my_enums = vec![];
        if self.rng.chance(3, 4) {
            self.feat("struct-def");
            self.w("type ");
            let (l, h) = self.ident(type_names.0, None, "struct-decl");
            let decl = self.here(l, h);
            self.w(" = { ");
            let mut fields = vec![];
            let nf = 1 + self.rng.below(3);
            for k in 0..nf {
                if k > 0 {
                    self.w(", ");
                }
                let fname = ["x", "y", "fa", "fb"][k as usize];
                let (fl, fh) = self.ident(fname, None, "field-decl");
                self.w(": ");
                let ft = self.base_ty();
                self.annot(&ft);
                fields.push((fname.to_string(), ft, self.here(fl, fh)));
            }
            self.w(" }\n");
            self.structs.push(StructD { name: type_names.0.to_string(), decl, fields, method: None });
            my_structs.push(self.structs.len() - 1);
            self.vis_structs.push(self.structs.len() - 1);
            if self.rng.chance(2, 3) {
                // an extension method with labelled parameters
                self.feat("method-def");
                let si = self.structs.len() - 1;
                let mname = if idx == 0 { "mth" } else { "mthl" };
                self.w("extend ");
                let (sn, sdecl) = (self.structs[si].name.clone(), self.structs[si].decl.clone());
                self.ident(&sn, Some(sdecl), "type-name");
                self.w(" {\n  fn ");
                let (ml, mh) = self.ident(mname, None, "method-decl");
                self.w("(");
                self.scopes = vec![vec![], vec![]];
                let (sl, sh) = self.ident("self", None, "param-decl");
                let sd = self.here(sl, sh);
                self.bind("self", Ty::Struct(si), sd, false);
                let mps = vec![("k".to_string(), Ty::Int), ("w".to_string(), self.base_ty())];
                for (pn, pt) in &mps {
                    self.w(", ");
                    let (pl, ph) = self.ident(pn, None, "param-decl");
                    self.probe(pl, ph, pt, "param-decl");
                    self.w(": ");
                    self.annot(pt);
                    let d = self.here(pl, ph);
                    self.bind(pn, pt.clone(), d, false);
                }
                self.w(") -> int {");
                self.ind = 2;
                self.scopes.push(vec![]);
                self.budget = 12;
                self.nl();
                self.expr(&Ty::Int, 2);
                self.ind = 0;
                self.w("\n  }\n}\n");
                self.scopes.clear();
                let md = self.here(ml, mh);
                self.structs[si].method = Some((mname.to_string(), md, mps));
            }
        }
        if self.rng.chance(3, 4) {
            self.feat("enum-def");
            self.w("type ");
            let (l, h) = self.ident(type_names.1, None, "enum-decl");
            let decl = self.here(l, h);
            self.w(" = ");
            let mut variants = vec![];
            let mut vnames: Vec<Option<Vec<String>>> = vec![];
            let nv = 2 + self.rng.below(2);
            for k in 0..nv {
                if k > 0 {
                    self.w(" | ");
                }
                let vname = format!("{}{}", ["Va", "Vb", "Vc"][k as usize], if idx == 0 { "" } else { "L" });
                let (vl, _) = self.ident(&vname, None, "variant-decl");
                let nts = self.rng.below(3) as usize;
                let ts: Vec<Ty> = (0..nts).map(|_| self.base_ty()).collect();
                let named = !ts.is_empty() && self.rng.chance(1, 2);
                if !ts.is_empty() {
                    self.w("(");
                    for (j, t) in ts.iter().enumerate() {
                        if j > 0 {
                            self.w(", ");
                        }
                        if named {
                            self.ident(["p0", "p1", "p2"][j], None, "variant-field-decl");
                            self.w(": ");
                        }
                        self.annot(t);
                    }
                    self.w(")");
                }
                let vh = self.pos();
                vnames.push(if named { Some((0..ts.len()).map(|j| ["p0", "p1", "p2"][j].to_string()).collect()) } else { None });
                variants.push((vname, ts, DeclRef { file: idx, lo: vl, hi: vh, variant: true }));
            }
            self.w("\n");
            self.enums.push(EnumD { name: type_names.1.to_string(), decl, variants, vnames });
            my_enums.push(self.enums.len() - 1);
            self.vis_enums.push(self.enums.len() - 1);
        }
        // function signatures first: every function of the file is visible in every body
        struct Sig {
            name: String,
            ps: Vec<(String, Ty)>,
            /// the last `ndef` parameters have a literal default value
            ndef: usize,
            ret: Ty,
        }
        let mut sigs = vec![];
        for fname in fn_names {
            let np = self.rng.below(3) as usize;
            let mut ps: Vec<(String, Ty)> = vec![];
            for i in 0..np {
                let n = *self.rng.pick(&VARS);
                let n = if ps.iter().any(|p| p.0 == n) { format!("{n}{i}") } else { n.to_string() };
                let t = self.sig_ty();
                ps.push((n, t));
            }
            let ret = self.base_ty();
            let mut ndef = 0;
            while ndef < ps.len() && BASE.contains(&ps[ps.len() - 1 - ndef].1) && self.rng.chance(1, 3) {
                ndef += 1;
            }
            sigs.push(Sig { name: fname.to_string(), ps, ndef, ret });
        }
        // the text positions of the function names are known only when written: write, then patch the scope
        let mut file_scope: Vec<Var> = imports;
        let base_len = file_scope.len();
        for s in &sigs {
            file_scope.push(Var {
                name: s.name.clone(), ty: Ty::Fn(s.ps.iter().map(|p| p.1.clone()).collect(), Box::new(s.ret.clone())),
                decl: DeclRef { file: idx, lo: 0, hi: 0, variant: false }, mutable: false, alias: None,
                params: s.ps.iter().enumerate().map(|(i, p)| (p.0.clone(), i + s.ndef >= s.ps.len())).collect(),
            });
        }
        // pre-compute name positions by a dry layout: function headers are written in order, bodies after
        // each header, so positions of later functions depend on earlier bodies; resolve by two passes
        let snapshot = (self.cur.clone(), self.rng.clone(), self.feats.len(), self.budget);
        let mut positions: Vec<(usize, usize)> = vec![(0, 0); sigs.len()];
        for pass in 0..2 {
            if pass == 1 {
                self.cur = snapshot.0.clone();
                *self.rng = snapshot.1.clone();
                self.feats.truncate(snapshot.2);
                self.budget = snapshot.3;
                for (k, p) in positions.iter().enumerate() {
                    file_scope[base_len + k].decl = DeclRef { file: idx, lo: p.0, hi: p.1, variant: false };
                }
            }
            for (k, s) in sigs.iter().enumerate() {
                self.feat("fn-def");
                let kw = self.pos();
                self.w("fn ");
                // nothing typed is under the cursor on the keyword and the parentheses of the header
                self.cur.probes.push(TyProbe { lo: kw, hi: kw + 3, ty: NO_TYPE.to_string(), what: "fn-header" });
                let fty = file_scope[base_len + k].ty.clone();
                let (l, h) = self.ident(&s.name, None, "fn-decl");
                self.probe(l, h, &fty, "fn-name");
                positions[k] = (l, h);
                let op = self.pos();
                self.w("(");
                self.cur.probes.push(TyProbe { lo: op, hi: op + 1, ty: NO_TYPE.to_string(), what: "fn-header" });
                self.scopes = vec![file_scope.clone(), vec![]];
                self.closure_base = 0;
                for (i, (pn, pt)) in s.ps.iter().enumerate() {
                    if i > 0 {
                        self.w(", ");
                    }
                    let (pl, ph) = self.ident(pn, None, "param-decl");
                    self.probe(pl, ph, pt, "param-decl");
                    self.w(": ");
                    self.annot(pt);
                    if i + s.ndef >= s.ps.len() {
                        self.feat("param-default");
                        self.w(" = ");
                        self.literal(pt, 3);
                    }
                    let d = self.here(pl, ph);
                    self.bind(pn, pt.clone(), d, false);
                }
                let cp = self.pos();
                self.w(") -> ");
                self.cur.probes.push(TyProbe { lo: cp, hi: cp + 5, ty: NO_TYPE.to_string(), what: "fn-header" });
                self.annot(&s.ret);
                self.w(" {");
                self.ind = 1;
                self.scopes.push(vec![]);
                self.budget = 25;
                let n = self.rng.below(4) as usize;
                self.stmts(n, 1);
                self.nl();
                self.expr(&s.ret, 1);
                self.ind = 0;
                self.nl();
                self.w("}\n");
            }
        }
        // top-level statements
        self.scopes = vec![file_scope.clone()];
        self.budget = 40;
        for _ in 0..top {
            self.stmt(0);
            self.w("\n");
        }
        let exported: Vec<Var> = file_scope[base_len..].to_vec();
        (exported, my_structs, my_enums)
    }

    pub fn program(mut self) -> Prog {
        let mut prog = Prog::default();
        let with_lib = self.rng.chance(2, 3);
        let mut imports: Vec<Var> = vec![];
        let mut import_line = None;
        let mut lib_out = None;
        if with_lib {
            let (exported, ss, es) = self.file(1, "lib1", &["h1", "h2"], ("Lp", "Le"), vec![], None, 0);
            lib_out = Some(self.cur.clone());
            self.vis_structs.clear();
            self.vis_enums.clear();
            match self.rng.below(4) {
                0 => {
                    self.feat("import:glob");
                    import_line = Some(("use lib1".to_string(), vec![(4, 8, "lib1".to_string())]));
                    imports = exported;
                    self.vis_structs = ss;
                    self.vis_enums = es;
                }
                1 => {
                    self.feat("import:inclusion");
                    import_line = Some(("use lib1.(h1)".to_string(), vec![(4, 8, "lib1".to_string()), (10, 12, "h1".to_string())]));
                    imports = exported.into_iter().filter(|v| v.name == "h1").collect();
                }
                2 => {
                    self.feat("import:exclusion");
                    import_line = Some(("use lib1 except (h1)".to_string(), vec![(4, 8, "lib1".to_string()), (17, 19, "h1".to_string())]));
                    imports = exported.into_iter().filter(|v| v.name != "h1").collect();
                    self.vis_structs = ss;
                    self.vis_enums = es;
                }
                _ => {
                    self.feat("import:alias");
                    import_line = Some(("use lib1 as lb".to_string(), vec![(4, 8, "lib1".to_string()), (12, 14, "lb".to_string())]));
                    let ad = DeclRef { file: 0, lo: 12, hi: 14, variant: false };
                    imports = exported
                        .into_iter()
                        .map(|mut v| {
                            v.alias = Some(("lb".to_string(), ad.clone()));
                            v
                        })
                        .collect();
                }
            }
        }
        let top = 3 + self.rng.below(8) as usize;
        self.file(0, "main", &["f1", "f2", "g1"], ("Pt", "Sh"), imports, import_line, top);
        prog.files.push(self.cur.clone());
        if let Some(l) = lib_out {
            prog.files.push(l);
        }
        prog.feats = self.feats;
        prog
    }
}
