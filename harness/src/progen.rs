//! Typed program generator shared by the C01/C02/C03/C19/C23 harnesses (included with `#[path]`).
//! It owns its AST: every program is rendered both as Abra source text (fully parenthesised, so the
//! precedence table plays no role) and as a space-separated S-expression that the Lean reference
//! interpreter `Abra.Sem` parses (lean/AbraModel/Drv/Sem.lean) — the real parser/resolver/checker are
//! not involved on the model side.
//!
//! Tiers: 0 = F0 (ints, bools, locals, operators, if/else, blocks, let/var, assignment forms, while,
//! break/continue, println), 1 = F1 (+ tuples, structs, enums, match, arrays, for, strings),
//! 2 = F2 (+ functions, recursion, return, option/result, `?`/`!`), 3 = F3 (+ lambdas, captures).
#![allow(dead_code)]
use vh::Rng;

#[derive(Clone, Debug, PartialEq)]
pub enum Ty {
    Int,
    Bool,
    Str,
    Unit,
    Tuple(Vec<Ty>),
    Struct(usize),
    Enum(usize),
    Array(Box<Ty>),
    Opt(Box<Ty>),
    Res(Box<Ty>), // result<T, string>
    Fn(Vec<Ty>, Box<Ty>),
    /// only inside the ANNOTATION of a `let`: printed as the wildcard `_` (docs: generics.md); the payload is the type it stands for
    Hole(Box<Ty>),
}

#[derive(Clone, Copy, Debug, PartialEq)]
pub enum UnOp {
    Neg,
    Not,
}
#[derive(Clone, Copy, Debug, PartialEq)]
pub enum BinOp {
    Add,
    Sub,
    Mul,
    Div,
    Mod,
    Pow,
    Lt,
    Le,
    Gt,
    Ge,
    Eq,
    Ne,
    And,
    Or,
    Concat,
}
#[derive(Clone, Copy, Debug, PartialEq)]
pub enum AsgOp {
    Set,
    Add,
    Sub,
    Mul,
    Div,
    Mod,
}

#[derive(Clone, Debug, PartialEq)]
pub enum Pat {
    Wild,
    Bind(String),
    Int(i64),
    Bool(bool),
    Str(String),
    Unit,
    Tuple(Vec<Pat>),
    Struct(String, Vec<Pat>),
    Variant(String, Vec<Pat>),
}

#[derive(Clone, Debug, PartialEq)]
pub enum Expr {
    Int(i64),
    Bool(bool),
    Str(String),
    Unit,
    Var(String),
    Un(UnOp, Box<Expr>),
    Bin(BinOp, Box<Expr>, Box<Expr>),
    /// branches are always `Block`s
    If(Box<Expr>, Box<Expr>, Box<Expr>),
    Block(Vec<Stmt>),
    Print(Box<Expr>),
    Tuple(Vec<Expr>),
    Mk(String, Vec<Expr>),
    Field(Box<Expr>, String),
    /// (type prefix used in the source text, constructor, arguments)
    Variant(String, String, Vec<Expr>),
    Match(Box<Expr>, Vec<(Pat, Expr)>),
    Array(Vec<Expr>),
    Index(Box<Expr>, Box<Expr>),
    Len(Box<Expr>),
    Push(Box<Expr>, Box<Expr>),
    Pop(Box<Expr>),
    Call(String, Vec<Expr>),
    CallV(Box<Expr>, Vec<Expr>),
    Lam(Vec<(String, Ty)>, Box<Expr>),
    /// a top-level function used as a value (`let f = gv0`, `[gv0, gv0][1](4)`)
    FnRef(String),
    /// a struct name used as a value: its constructor function
    CtorRef(String),
    Try(Box<Expr>),
    Unwrap(Box<Expr>),
    /// `task { … }` (body is a `Block`); only produced by the nesting stream (no reference semantics)
    Task(Box<Expr>),
}

#[derive(Clone, Debug, PartialEq)]
pub enum Stmt {
    /// (mutable, pattern, annotation, initialiser)
    Let(bool, Pat, Option<Ty>, Expr),
    Assign(String, AsgOp, Expr),
    AssignField(Expr, String, AsgOp, Expr),
    AssignIndex(Expr, Expr, AsgOp, Expr),
    Expr(Expr),
    While(Expr, Vec<Stmt>),
    For(Pat, Expr, Vec<Stmt>),
    Break,
    Continue,
    Ret(Expr),
}

#[derive(Clone, Debug)]
pub struct StructDef {
    pub name: String,
    pub fields: Vec<(String, Ty)>,
}
#[derive(Clone, Debug)]
pub struct EnumDef {
    pub name: String,
    pub ctors: Vec<(String, Vec<Ty>)>,
}
#[derive(Clone, Debug)]
pub struct FnDef {
    pub name: String,
    pub params: Vec<(String, Ty)>,
    pub ret: Ty,
    pub body: Expr,
}
#[derive(Clone, Debug)]
pub struct Program {
    pub structs: Vec<StructDef>,
    pub enums: Vec<EnumDef>,
    pub fns: Vec<FnDef>,
    pub main: Vec<Stmt>,
    /// type of the final expression statement of `main` when there is one
    pub final_ty: Option<Ty>,
}

// ------------------------------------------------------------------------------------------------
// rendering: Abra source
// ------------------------------------------------------------------------------------------------
pub fn ty_src(t: &Ty, p: &Program) -> String {
    match t {
        Ty::Int => "int".into(),
        Ty::Bool => "bool".into(),
        Ty::Str => "string".into(),
        Ty::Unit => "void".into(),
        Ty::Hole(_) => "_".into(),
        Ty::Tuple(ts) => format!("({})", ts.iter().map(|t| ty_src(t, p)).collect::<Vec<_>>().join(", ")),
        Ty::Struct(i) => p.structs[*i].name.clone(),
        Ty::Enum(i) => p.enums[*i].name.clone(),
        Ty::Array(t) => format!("array<{}>", ty_src(t, p)),
        Ty::Opt(t) => format!("option<{}>", ty_src(t, p)),
        Ty::Res(t) => format!("result<{}, string>", ty_src(t, p)),
        // `(T) -> U` does not parse (parse_type returns the parenthesised type early): one argument is `T -> U`
        Ty::Fn(a, r) if a.len() == 1 => format!("{} -> {}", ty_src(&a[0], p), ty_src(r, p)),
        Ty::Fn(a, r) => format!("({}) -> {}", a.iter().map(|t| ty_src(t, p)).collect::<Vec<_>>().join(", "), ty_src(r, p)),
    }
}

fn un_src(o: UnOp) -> &'static str {
    match o {
        UnOp::Neg => "-",
        UnOp::Not => "not ",
    }
}
pub fn bin_src(o: BinOp) -> &'static str {
    match o {
        BinOp::Add => "+",
        BinOp::Sub => "-",
        BinOp::Mul => "*",
        BinOp::Div => "/",
        BinOp::Mod => "%",
        BinOp::Pow => "^",
        BinOp::Lt => "<",
        BinOp::Le => "<=",
        BinOp::Gt => ">",
        BinOp::Ge => ">=",
        BinOp::Eq => "==",
        BinOp::Ne => "!=",
        BinOp::And => "and",
        BinOp::Or => "or",
        BinOp::Concat => "..",
    }
}
fn asg_src(o: AsgOp) -> &'static str {
    match o {
        AsgOp::Set => "=",
        AsgOp::Add => "+=",
        AsgOp::Sub => "-=",
        AsgOp::Mul => "*=",
        AsgOp::Div => "/=",
        AsgOp::Mod => "%=",
    }
}

pub fn pat_src(p: &Pat) -> String {
    match p {
        Pat::Wild => "_".into(),
        Pat::Bind(x) => x.clone(),
        Pat::Int(n) => format!("{n}"),
        Pat::Bool(b) => format!("{b}"),
        Pat::Str(s) => format!("{s:?}"),
        Pat::Unit => "nil".into(),
        Pat::Tuple(ps) => format!("({})", ps.iter().map(pat_src).collect::<Vec<_>>().join(", ")),
        Pat::Struct(n, ps) => format!("{n}({})", ps.iter().map(pat_src).collect::<Vec<_>>().join(", ")),
        Pat::Variant(c, ps) => {
            if ps.is_empty() {
                format!(".{c}")
            } else {
                format!(".{c}({})", ps.iter().map(pat_src).collect::<Vec<_>>().join(", "))
            }
        }
    }
}

fn ind(n: usize) -> String {
    "  ".repeat(n)
}

fn block_src(ss: &[Stmt], p: &Program, lvl: usize) -> String {
    if ss.is_empty() {
        return "{ }".into();
    }
    let mut s = String::from("{\n");
    for st in ss {
        s.push_str(&stmt_src(st, p, lvl + 1));
    }
    s.push_str(&ind(lvl));
    s.push('}');
    s
}

pub fn expr_src(e: &Expr, p: &Program, lvl: usize) -> String {
    let list = |es: &[Expr]| es.iter().map(|e| expr_src(e, p, lvl)).collect::<Vec<_>>().join(", ");
    match e {
        Expr::Int(n) => {
            if *n < 0 {
                format!("({n})")
            } else {
                format!("{n}")
            }
        }
        Expr::Bool(b) => format!("{b}"),
        Expr::Str(s) => format!("{s:?}"),
        Expr::Unit => "nil".into(),
        Expr::Var(x) => x.clone(),
        Expr::Un(o, a) => format!("({}({}))", un_src(*o), expr_src(a, p, lvl)),
        Expr::Bin(o, a, b) => format!("({} {} {})", expr_src(a, p, lvl), bin_src(*o), expr_src(b, p, lvl)),
        Expr::If(c, t, f) => {
            let (Expr::Block(ts), Expr::Block(fs)) = (&**t, &**f) else { panic!("if branches must be blocks") };
            format!("(if {} {} else {})", expr_src(c, p, lvl), block_src(ts, p, lvl), block_src(fs, p, lvl))
        }
        Expr::Block(ss) => block_src(ss, p, lvl),
        Expr::Print(a) => format!("println({})", expr_src(a, p, lvl)),
        Expr::Tuple(es) => format!("({})", list(es)),
        Expr::Mk(n, es) => format!("{n}({})", list(es)),
        Expr::Field(o, f) => format!("{}.{f}", expr_src(o, p, lvl)),
        Expr::Variant(pre, c, es) => {
            if es.is_empty() {
                format!("{pre}.{c}")
            } else {
                format!("{pre}.{c}({})", list(es))
            }
        }
        Expr::Match(s, arms) => {
            let mut o = format!("(match {} {{\n", expr_src(s, p, lvl));
            for (pt, body) in arms {
                o.push_str(&format!("{}{} -> {}\n", ind(lvl + 1), pat_src(pt), expr_src(body, p, lvl + 1)));
            }
            o.push_str(&ind(lvl));
            o.push_str("})");
            o
        }
        Expr::Array(es) => format!("[{}]", list(es)),
        Expr::Index(a, i) => format!("{}[{}]", expr_src(a, p, lvl), expr_src(i, p, lvl)),
        Expr::Len(a) => format!("{}.len()", expr_src(a, p, lvl)),
        Expr::Push(a, v) => format!("{}.push({})", expr_src(a, p, lvl), expr_src(v, p, lvl)),
        Expr::Pop(a) => format!("{}.pop()", expr_src(a, p, lvl)),
        Expr::Call(f, es) => format!("{f}({})", list(es)),
        Expr::CallV(f, es) => format!("{}({})", expr_src(f, p, lvl), list(es)),
        Expr::Lam(ps, body) => format!(
            "(({}) -> {})",
            ps.iter().map(|(x, t)| format!("{x}: {}", ty_src(t, p))).collect::<Vec<_>>().join(", "),
            expr_src(body, p, lvl)
        ),
        Expr::FnRef(f) | Expr::CtorRef(f) => f.clone(),
        Expr::Try(a) => format!("{}?", expr_src(a, p, lvl)),
        Expr::Unwrap(a) => format!("{}!", expr_src(a, p, lvl)),
        Expr::Task(b) => format!("task {}", expr_src(b, p, lvl)),
    }
}

pub fn stmt_src(s: &Stmt, p: &Program, lvl: usize) -> String {
    let i = ind(lvl);
    match s {
        Stmt::Let(m, pt, ann, e) => format!(
            "{i}{} {}{} = {}\n",
            if *m { "var" } else { "let" },
            pat_src(pt),
            ann.as_ref().map(|t| format!(": {}", ty_src(t, p))).unwrap_or_default(),
            expr_src(e, p, lvl)
        ),
        Stmt::Assign(x, o, e) => format!("{i}{x} {} {}\n", asg_src(*o), expr_src(e, p, lvl)),
        Stmt::AssignField(ob, f, o, e) => format!("{i}{}.{f} {} {}\n", expr_src(ob, p, lvl), asg_src(*o), expr_src(e, p, lvl)),
        Stmt::AssignIndex(a, ix, o, e) => {
            format!("{i}{}[{}] {} {}\n", expr_src(a, p, lvl), expr_src(ix, p, lvl), asg_src(*o), expr_src(e, p, lvl))
        }
        Stmt::Expr(e) => format!("{i}{}\n", expr_src(e, p, lvl)),
        Stmt::While(c, b) => format!("{i}while {} {}\n", expr_src(c, p, lvl), block_src(b, p, lvl)),
        Stmt::For(pt, it, b) => format!("{i}for {} in {} {}\n", pat_src(pt), expr_src(it, p, lvl), block_src(b, p, lvl)),
        Stmt::Break => format!("{i}break\n"),
        Stmt::Continue => format!("{i}continue\n"),
        Stmt::Ret(e) => {
            if *e == Expr::Unit {
                format!("{i}return\n")
            } else {
                format!("{i}return {}\n", expr_src(e, p, lvl))
            }
        }
    }
}

pub fn program_src(p: &Program) -> String {
    let mut s = String::new();
    for d in &p.structs {
        s.push_str(&format!("type {} = {{\n", d.name));
        for (f, t) in &d.fields {
            s.push_str(&format!("  {f}: {}\n", ty_src(t, p)));
        }
        s.push_str("}\n");
    }
    for d in &p.enums {
        s.push_str(&format!("type {} =\n", d.name));
        for (c, ts) in &d.ctors {
            if ts.is_empty() {
                s.push_str(&format!("  | {c}\n"));
            } else {
                s.push_str(&format!("  | {c}({})\n", ts.iter().map(|t| ty_src(t, p)).collect::<Vec<_>>().join(", ")));
            }
        }
    }
    for f in &p.fns {
        let Expr::Block(b) = &f.body else { panic!("fn body must be a block") };
        s.push_str(&format!(
            "fn {}({}) -> {} {}\n",
            f.name,
            f.params.iter().map(|(x, t)| format!("{x}: {}", ty_src(t, p))).collect::<Vec<_>>().join(", "),
            ty_src(&f.ret, p),
            block_src(b, p, 0)
        ));
    }
    for st in &p.main {
        s.push_str(&stmt_src(st, p, 0));
    }
    s
}

// ------------------------------------------------------------------------------------------------
// rendering: S-expression for the Lean driver
// ------------------------------------------------------------------------------------------------
fn hexs(s: &str) -> String {
    vh::hex(s.as_bytes())
}
fn un_sx(o: UnOp) -> &'static str {
    match o {
        UnOp::Neg => "neg",
        UnOp::Not => "not",
    }
}
pub fn bin_sx(o: BinOp) -> &'static str {
    match o {
        BinOp::Add => "add",
        BinOp::Sub => "sub",
        BinOp::Mul => "mul",
        BinOp::Div => "div",
        BinOp::Mod => "mod",
        BinOp::Pow => "pow",
        BinOp::Lt => "lt",
        BinOp::Le => "le",
        BinOp::Gt => "gt",
        BinOp::Ge => "ge",
        BinOp::Eq => "eq",
        BinOp::Ne => "ne",
        BinOp::And => "and",
        BinOp::Or => "or",
        BinOp::Concat => "concat",
    }
}
fn asg_sx(o: AsgOp) -> &'static str {
    match o {
        AsgOp::Set => "set",
        AsgOp::Add => "add",
        AsgOp::Sub => "sub",
        AsgOp::Mul => "mul",
        AsgOp::Div => "div",
        AsgOp::Mod => "mod",
    }
}
pub fn pat_sx(p: &Pat) -> String {
    let list = |ps: &[Pat]| ps.iter().map(pat_sx).collect::<Vec<_>>().join(" ");
    match p {
        Pat::Wild => "( pwild )".into(),
        Pat::Bind(x) => format!("( pbind {x} )"),
        Pat::Int(n) => format!("( pint {n} )"),
        Pat::Bool(b) => format!("( pbool {b} )"),
        Pat::Str(s) => format!("( pstr {} )", hexs(s)),
        Pat::Unit => "( punit )".into(),
        Pat::Tuple(ps) => format!("( ptuple {} )", list(ps)),
        Pat::Struct(n, ps) => format!("( pstruct {n} {} )", list(ps)),
        Pat::Variant(c, ps) => format!("( pvariant {c} {} )", list(ps)),
    }
}
pub fn expr_sx(e: &Expr) -> String {
    let list = |es: &[Expr]| es.iter().map(expr_sx).collect::<Vec<_>>().join(" ");
    match e {
        Expr::Int(n) => format!("( int {n} )"),
        Expr::Bool(b) => format!("( bool {b} )"),
        Expr::Str(s) => format!("( str {} )", hexs(s)),
        Expr::Unit => "( unit )".into(),
        Expr::Var(x) => format!("( var {x} )"),
        Expr::Un(o, a) => format!("( un {} {} )", un_sx(*o), expr_sx(a)),
        Expr::Bin(o, a, b) => format!("( bin {} {} {} )", bin_sx(*o), expr_sx(a), expr_sx(b)),
        Expr::If(c, t, f) => format!("( if {} {} {} )", expr_sx(c), expr_sx(t), expr_sx(f)),
        Expr::Block(ss) => format!("( block {} )", ss.iter().map(stmt_sx).collect::<Vec<_>>().join(" ")),
        Expr::Print(a) => format!("( print {} )", expr_sx(a)),
        Expr::Tuple(es) => format!("( tuple {} )", list(es)),
        Expr::Mk(n, es) => format!("( mk {n} {} )", list(es)),
        Expr::Field(o, f) => format!("( field {} {f} )", expr_sx(o)),
        Expr::Variant(_, c, es) => format!("( variant {c} {} )", list(es)),
        Expr::Match(s, arms) => format!(
            "( match {} {} )",
            expr_sx(s),
            arms.iter().map(|(p, b)| format!("( arm {} {} )", pat_sx(p), expr_sx(b))).collect::<Vec<_>>().join(" ")
        ),
        Expr::Array(es) => format!("( array {} )", list(es)),
        Expr::Index(a, i) => format!("( index {} {} )", expr_sx(a), expr_sx(i)),
        Expr::Len(a) => format!("( len {} )", expr_sx(a)),
        Expr::Push(a, v) => format!("( push {} {} )", expr_sx(a), expr_sx(v)),
        Expr::Pop(a) => format!("( pop {} )", expr_sx(a)),
        Expr::Call(f, es) => format!("( call {f} {} )", list(es)),
        Expr::CallV(f, es) => format!("( callv {} {} )", expr_sx(f), list(es)),
        Expr::Lam(ps, b) => format!("( lam ( params {} ) {} )", ps.iter().map(|(x, _)| x.clone()).collect::<Vec<_>>().join(" "), expr_sx(b)),
        Expr::FnRef(f) => format!("( fnref {f} )"),
        Expr::CtorRef(f) => format!("( mkref {f} )"),
        Expr::Try(a) => format!("( try {} )", expr_sx(a)),
        Expr::Unwrap(a) => format!("( unwrap {} )", expr_sx(a)),
        Expr::Task(b) => format!("( task {} )", expr_sx(b)),
    }
}
pub fn stmt_sx(s: &Stmt) -> String {
    match s {
        Stmt::Let(_, p, _, e) => format!("( let {} {} )", pat_sx(p), expr_sx(e)),
        Stmt::Assign(x, o, e) => format!("( assign {x} {} {} )", asg_sx(*o), expr_sx(e)),
        Stmt::AssignField(ob, f, o, e) => format!("( assignf {} {f} {} {} )", expr_sx(ob), asg_sx(*o), expr_sx(e)),
        Stmt::AssignIndex(a, i, o, e) => format!("( assigni {} {} {} {} )", expr_sx(a), expr_sx(i), asg_sx(*o), expr_sx(e)),
        Stmt::Expr(e) => format!("( expr {} )", expr_sx(e)),
        Stmt::While(c, b) => format!("( while {} {} )", expr_sx(c), b.iter().map(stmt_sx).collect::<Vec<_>>().join(" ")),
        Stmt::For(p, it, b) => format!("( for {} {} {} )", pat_sx(p), expr_sx(it), b.iter().map(stmt_sx).collect::<Vec<_>>().join(" ")),
        Stmt::Break => "( break )".into(),
        Stmt::Continue => "( continue )".into(),
        Stmt::Ret(e) => format!("( ret {} )", expr_sx(e)),
    }
}
pub fn program_sx(p: &Program) -> String {
    let structs = p
        .structs
        .iter()
        .map(|d| format!("( struct {} {} )", d.name, d.fields.iter().map(|(f, _)| f.clone()).collect::<Vec<_>>().join(" ")))
        .collect::<Vec<_>>()
        .join(" ");
    let fns = p
        .fns
        .iter()
        .map(|f| {
            format!(
                "( fn {} ( params {} ) {} )",
                f.name,
                f.params.iter().map(|(x, _)| x.clone()).collect::<Vec<_>>().join(" "),
                expr_sx(&f.body)
            )
        })
        .collect::<Vec<_>>()
        .join(" ");
    let main = p.main.iter().map(stmt_sx).collect::<Vec<_>>().join(" ");
    let s = format!("( prog ( structs {structs} ) ( fns {fns} ) ( main {main} ) )");
    // single spaces only
    s.split_whitespace().collect::<Vec<_>>().join(" ")
}

// ------------------------------------------------------------------------------------------------
// generation
// ------------------------------------------------------------------------------------------------
#[derive(Clone, Debug)]
pub struct Var {
    pub name: String,
    pub ty: Ty,
    pub mutable: bool,
    /// loop counters: never assigned by generated statements
    pub protected: bool,
}

#[derive(Clone, Debug)]
pub struct GenOpts {
    pub tier: u8,
    /// target number of top-level statements
    pub stmts: usize,
    /// node budget for the whole program
    pub budget: i32,
    /// keep `break`/`continue` at operand depth 0 (the historical DepthSafe restriction: D21, repaired by 0c43abd).
    /// Off by default: `break`/`continue` appear while operands of the enclosing loop are pending.
    pub depth_safe: bool,
    /// nested lambdas may capture variables from beyond their enclosing lambda (D16)
    pub deep_capture: bool,
    /// probability (percent) of large integer literals (overflow paths)
    pub big_ints: u64,
    /// keep `let` out of match scrutinees and captured variables out of scrutinees inside lambdas (N1/N2)
    pub avoid_scrutinee_bugs: bool,
    /// never assign to a void variable (N3: the right-hand side would not be evaluated)
    pub avoid_void_assign: bool,
    /// inside a lambda, field/index assignment only through the lambda's own variables (N5)
    pub avoid_captured_target: bool,
    /// a unit block never ends with `if c { return e } else { }` (N6: the value of such an `if` is typed
    /// `never` and binding it faults the VM)
    pub avoid_never_value: bool,
    /// `for` binders never shadow (N4: the binding leaks into the enclosing scope)
    pub avoid_for_shadow: bool,
    /// `?` on an option<void> (success path leaves a dummy on the stack until D71 is fixed)
    pub avoid_void_try: bool,
    /// more lambda-typed variables and more calls through them (C19 stream)
    pub lambda_boost: bool,
    /// no variable of type void (every binder owns a slot: the analysis tie compares slot counts)
    pub no_unit_vars: bool,
    /// more `?` / `!` and more option/result functions (C23 stream)
    pub try_boost: bool,
    /// allow `task`-free nesting stress (functions/lambdas/loops) — used by the C03 stream
    pub nesting: bool,
}

impl Default for GenOpts {
    fn default() -> Self {
        GenOpts { tier: 0, stmts: 8, budget: 60, depth_safe: false, deep_capture: true, big_ints: 3, avoid_scrutinee_bugs: false, avoid_void_assign: false, avoid_for_shadow: false, avoid_captured_target: false, avoid_never_value: false, try_boost: false, avoid_void_try: false, lambda_boost: false, no_unit_vars: false, nesting: false }
    }
}

pub struct Gen<'a> {
    pub rng: &'a mut Rng,
    pub o: GenOpts,
    pub prog: Program,
    scopes: Vec<Vec<Var>>,
    next_id: usize,
    loop_depth: usize,
    /// pending operands between here and the enclosing loop (or function) entry
    depth: usize,
    ret_ty: Option<Ty>,
    /// index into `scopes`: variables in scopes below this belong to an enclosing function (captured)
    capture_floor: usize,
    /// scopes at or above this index are visible (function bodies do not see `main`'s variables)
    visible_floor: usize,
    lambda_depth: usize,
    in_for_arr: usize,
    budget: i32,
    cur_fn: Option<usize>,
    /// the expression being generated is directly the initialiser of an annotated `let`
    typed_ctx: bool,
    /// generating a match scrutinee (see `avoid_scrutinee_bugs`)
    scrut_mode: bool,
    /// (name, params, ret) of the function being generated and the number of self calls still allowed
    self_sig: Option<(String, Vec<(String, Ty)>, Ty)>,
    self_calls_left: u32,
    pub feature_hist: std::collections::BTreeMap<&'static str, u64>,
}

/// does the expression contain a `return` outside lambdas?
pub fn contains_ret(e: &Expr) -> bool {
    fn in_stmts(ss: &[Stmt]) -> bool {
        ss.iter().any(|s| match s {
            Stmt::Ret(_) => true,
            Stmt::Let(_, _, _, e) | Stmt::Assign(_, _, e) | Stmt::Expr(e) => contains_ret(e),
            Stmt::AssignField(a, _, _, e) => contains_ret(a) || contains_ret(e),
            Stmt::AssignIndex(a, i, _, e) => contains_ret(a) || contains_ret(i) || contains_ret(e),
            Stmt::While(c, b) | Stmt::For(_, c, b) => contains_ret(c) || in_stmts(b),
            Stmt::Break | Stmt::Continue => false,
        })
    }
    match e {
        Expr::If(c, t, f) => contains_ret(c) || contains_ret(t) || contains_ret(f),
        Expr::Block(ss) => in_stmts(ss),
        Expr::Match(s, arms) => contains_ret(s) || arms.iter().any(|(_, b)| contains_ret(b)),
        Expr::Un(_, a) | Expr::Print(a) | Expr::Try(a) | Expr::Unwrap(a) | Expr::Len(a) | Expr::Pop(a) | Expr::Field(a, _) => contains_ret(a),
        Expr::Bin(_, a, b) | Expr::Index(a, b) | Expr::Push(a, b) => contains_ret(a) || contains_ret(b),
        Expr::Tuple(es) | Expr::Mk(_, es) | Expr::Variant(_, _, es) | Expr::Array(es) | Expr::Call(_, es) => es.iter().any(contains_ret),
        Expr::CallV(f, es) => contains_ret(f) || es.iter().any(contains_ret),
        _ => false,
    }
}

pub fn helper_suffix(t: &Ty) -> &'static str {
    match t {
        Ty::Int => "int",
        Ty::Str => "str",
        _ => "unit",
    }
}

const NAMES_STR: [&str; 6] = ["a", "bc", "x y", "Q", "", "z9"];

impl<'a> Gen<'a> {
    pub fn new(rng: &'a mut Rng, o: GenOpts) -> Self {
        let budget = o.budget;
        Gen {
            rng,
            o,
            prog: Program { structs: vec![], enums: vec![], fns: vec![], main: vec![], final_ty: None },
            scopes: vec![vec![]],
            next_id: 0,
            loop_depth: 0,
            depth: 0,
            ret_ty: None,
            capture_floor: 0,
            visible_floor: 0,
            lambda_depth: 0,
            in_for_arr: 0,
            budget,
            cur_fn: None,
            typed_ctx: false,
            scrut_mode: false,
            self_sig: None,
            self_calls_left: 0,
            feature_hist: Default::default(),
        }
    }

    fn hit(&mut self, k: &'static str) {
        *self.feature_hist.entry(k).or_insert(0) += 1;
    }
    fn tier(&self) -> u8 {
        self.o.tier
    }
    fn fresh(&mut self, pre: &str) -> String {
        self.next_id += 1;
        format!("{pre}{}", self.next_id)
    }
    /// a name for a new binding: fresh, or (shadowing) the name of a visible variable
    fn binder_name(&mut self) -> String {
        if self.rng.chance(1, 6) {
            let vs: Vec<String> = self.visible().iter().filter(|v| !v.protected).map(|v| v.name.clone()).collect();
            if !vs.is_empty() {
                self.hit("shadow");
                return self.rng.pick(&vs).clone();
            }
        }
        self.fresh("v")
    }
    /// visible variables, innermost first; shadowed ones removed
    fn visible(&self) -> Vec<Var> {
        let mut out: Vec<Var> = vec![];
        for sc in self.scopes[self.visible_floor..].iter().rev() {
            for v in sc.iter().rev() {
                if !out.iter().any(|w| w.name == v.name) {
                    out.push(v.clone());
                }
            }
        }
        out
    }
    /// is the visible binding of `name` one of the current function's own (not a capture)?
    fn is_own(&self, name: &str) -> bool {
        for (i, sc) in self.scopes.iter().enumerate().rev() {
            if i < self.visible_floor {
                break;
            }
            if sc.iter().any(|v| v.name == name) {
                return i >= self.capture_floor;
            }
        }
        false
    }
    fn vars_of(&self, ty: &Ty) -> Vec<Var> {
        let own_only = self.scrut_mode && self.lambda_depth > 0;
        self.visible().into_iter().filter(|v| &v.ty == ty && (!own_only || self.is_own(&v.name))).collect()
    }
    fn declare(&mut self, name: &str, ty: Ty, mutable: bool, protected: bool) {
        self.scopes.last_mut().unwrap().push(Var { name: name.to_string(), ty, mutable, protected });
    }
    fn push_scope(&mut self) {
        self.scopes.push(vec![]);
    }
    fn pop_scope(&mut self) {
        self.scopes.pop();
    }

    // ------------------------------------------------------------------ types
    fn scalar(&mut self) -> Ty {
        if self.tier() == 0 {
            return if self.rng.chance(2, 3) { Ty::Int } else { Ty::Bool };
        }
        match self.rng.below(10) {
            0..=4 => Ty::Int,
            5..=6 => Ty::Bool,
            _ => Ty::Str,
        }
    }
    fn elem_ty(&mut self) -> Ty {
        if !self.o.no_unit_vars && self.rng.chance(1, 12) { Ty::Unit } else { self.scalar() }
    }
    /// a type for a new variable
    fn var_ty(&mut self) -> Ty {
        let t = self.tier();
        if t == 0 {
            return self.scalar();
        }
        let r = if (self.o.nesting || self.o.lambda_boost) && t >= 3 && self.rng.chance(1, 3) { 98 } else { self.rng.below(100) };
        if t >= 3 && self.rng.chance(1, 10) {
            // function values and arrays of them (`fs[i](x)`)
            let f = self.fn_ty();
            return if self.rng.chance(1, 2) { Ty::Array(Box::new(f)) } else { f };
        }
        match r {
            0..=44 => self.scalar(),
            45..=54 => {
                let n = 2 + self.rng.below(2) as usize;
                Ty::Tuple((0..n).map(|_| self.elem_ty()).collect())
            }
            55..=64 if !self.prog.structs.is_empty() => Ty::Struct(self.rng.below(self.prog.structs.len() as u64) as usize),
            65..=72 if !self.prog.enums.is_empty() => Ty::Enum(self.rng.below(self.prog.enums.len() as u64) as usize),
            73..=86 => {
                let e = match self.rng.below(8) {
                    _ if t >= 3 && self.rng.chance(1, 5) => self.fn_ty(),
                    0..=4 => Ty::Int,
                    5 => Ty::Str,
                    6 => Ty::Bool,
                    _ if self.o.no_unit_vars => Ty::Int,
                    _ => Ty::Unit,
                };
                Ty::Array(Box::new(e))
            }
            87..=93 if t >= 2 => {
                let e = match self.rng.below(6) {
                    0..=3 => Ty::Int,
                    4 => Ty::Str,
                    _ if self.o.no_unit_vars => Ty::Int,
                    _ => Ty::Unit,
                };
                Ty::Opt(Box::new(e))
            }
            94..=96 if t >= 2 => Ty::Res(Box::new(Ty::Int)),
            97..=99 if t >= 3 => self.fn_ty(),
            _ if self.o.no_unit_vars => Ty::Int,
            _ => Ty::Unit,
        }
    }
    fn fn_ty(&mut self) -> Ty {
        if self.tier() >= 3 && self.rng.chance(2, 5) {
            let mut sigs: Vec<Ty> = vec![];
            for f in &self.prog.fns {
                if f.name.starts_with("gv") {
                    sigs.push(Ty::Fn(f.params.iter().map(|(_, t)| t.clone()).collect(), Box::new(f.ret.clone())));
                }
            }
            for (i, d) in self.prog.structs.iter().enumerate() {
                sigs.push(Ty::Fn(d.fields.iter().map(|(_, t)| t.clone()).collect(), Box::new(Ty::Struct(i))));
            }
            if !sigs.is_empty() {
                return self.rng.pick(&sigs).clone();
            }
        }
        let n = 1 + self.rng.below(2) as usize;
        let mut args: Vec<Ty> = (0..n).map(|_| self.scalar()).collect();
        if !self.o.no_unit_vars && self.rng.chance(1, 4) {
            let pos = self.rng.below(args.len() as u64 + 1) as usize;
            args.insert(pos, Ty::Unit);
        }
        let ret = self.scalar();
        Ty::Fn(args, Box::new(ret))
    }

    // ------------------------------------------------------------------ literals
    fn int_lit(&mut self) -> i64 {
        if self.rng.below(100) < self.o.big_ints {
            *self.rng.pick(&[i64::MAX, i64::MIN, i64::MAX - 1, 1 << 62, -(1 << 62), 3037000500, 4294967296, 1 << 32])
        } else {
            match self.rng.below(10) {
                0 => 0,
                1 => 1,
                2 => -1,
                3..=7 => self.rng.range(-9, 20),
                _ => self.rng.range(-1000, 1000),
            }
        }
    }
    fn str_lit(&mut self) -> String {
        self.rng.pick(&NAMES_STR).to_string()
    }

    fn spend(&mut self, n: i32) -> bool {
        self.budget -= n;
        self.budget > 0
    }

    // ------------------------------------------------------------------ expressions
    /// expression of type `ty`; `d` bounds the nesting
    pub fn expr(&mut self, ty: &Ty, d: u32) -> Expr {
        let typed = self.typed_ctx;
        self.typed_ctx = false;
        let e = self.expr_inner(ty, d, typed);
        self.typed_ctx = false;
        e
    }

    fn expr_inner(&mut self, ty: &Ty, d: u32, typed: bool) -> Expr {
        self.spend(1);
        let leaf = d == 0 || self.budget <= 0;
        if typed && matches!(ty, Ty::Array(_) | Ty::Opt(_) | Ty::Res(_)) && self.rng.chance(1, 2) {
            // constructor directly under the annotation
            self.typed_ctx = true;
            return self.ctor(ty, d);
        }
        // `{ if c { break } else { }; e }` as an operand: the operands pushed so far have to be dropped by the jump
        if !self.o.depth_safe && self.loop_depth > 0 && self.depth > 0 && *ty != Ty::Unit && self.budget > 4 && self.rng.chance(1, 10) {
            let c = self.expr(&Ty::Bool, 1);
            let jump = if self.rng.chance(1, 2) { Stmt::Break } else { Stmt::Continue };
            self.hit("jump_in_operand");
            let v = self.expr(ty, d.saturating_sub(1));
            return Expr::Block(vec![Stmt::Expr(Expr::If(Box::new(c), Box::new(Expr::Block(vec![jump])), Box::new(Expr::Block(vec![])))), Stmt::Expr(v)]);
        }
        // common to all types: variable, if, block, match, call, lambda call, index, field
        if !leaf && *ty != Ty::Unit {
            let r = self.rng.below(100);
            if r < 8 {
                return self.if_expr(ty, d);
            }
            if r < 13 {
                return self.block_expr(ty, d);
            }
            if r < 17 && self.tier() >= 1 && !self.scrut_mode {
                if let Some(e) = self.match_expr(ty, d) {
                    return e;
                }
            }
            if r < 27 && self.tier() >= 2 {
                if let Some(e) = self.call_expr(ty, d) {
                    return e;
                }
            }
            if (r < 37 || (self.o.lambda_boost && r < 60)) && self.tier() >= 3 {
                if let Some(e) = self.callv_expr(ty, d) {
                    return e;
                }
            }
            if r < 40 && self.tier() >= 1 {
                if let Some(e) = self.project_expr(ty, d) {
                    return e;
                }
            }
            if (r < 45 || (self.o.try_boost && r < 75)) && self.tier() >= 2 {
                if let Some(e) = self.try_unwrap_expr(ty, d) {
                    return e;
                }
            }
        }
        let vars = self.vars_of(ty);
        if !vars.is_empty() && self.rng.chance(if leaf { 3 } else { 1 }, 4) {
            return Expr::Var(self.rng.pick(&vars).name.clone());
        }
        self.ctor(ty, d)
    }

    /// literal / operator / constructor forms of type `ty`
    fn ctor(&mut self, ty: &Ty, d: u32) -> Expr {
        let leaf = d == 0 || self.budget <= 0;
        match ty {
            Ty::Int => {
                if leaf || self.rng.chance(1, 3) {
                    return Expr::Int(self.int_lit());
                }
                match self.rng.below(12) {
                    0 => {
                        self.hit("neg");
                        // compiled as `0 - e`: the 0 is already pushed while `e` runs
                        self.depth += 1;
                        let a = self.expr(&Ty::Int, d.saturating_sub(1));
                        self.depth -= 1;
                        Expr::Un(UnOp::Neg, Box::new(a))
                    }
                    1 if self.tier() >= 1 => {
                        let own_only = self.scrut_mode && self.lambda_depth > 0;
                        let arrs: Vec<Var> = self.visible().into_iter().filter(|v| matches!(v.ty, Ty::Array(_)) && (!own_only || self.is_own(&v.name))).collect();
                        if arrs.is_empty() {
                            Expr::Int(self.int_lit())
                        } else {
                            self.hit("len");
                            Expr::Len(Box::new(Expr::Var(self.rng.pick(&arrs).name.clone())))
                        }
                    }
                    _ => {
                        let op = *self.rng.pick(&[BinOp::Add, BinOp::Add, BinOp::Sub, BinOp::Sub, BinOp::Mul, BinOp::Mul, BinOp::Div, BinOp::Mod, BinOp::Pow]);
                        let a = self.expr(&Ty::Int, d.saturating_sub(1));
                        self.depth += 1;
                        let b = match op {
                            BinOp::Pow => Expr::Int(self.rng.below(5) as i64),
                            BinOp::Div | BinOp::Mod if self.rng.chance(5, 6) => {
                                let mut k = self.rng.range(-4, 9);
                                if k == 0 {
                                    k = 2;
                                }
                                Expr::Int(k)
                            }
                            _ => self.expr(&Ty::Int, d.saturating_sub(1)),
                        };
                        self.depth -= 1;
                        self.hit("arith");
                        Expr::Bin(op, Box::new(a), Box::new(b))
                    }
                }
            }
            Ty::Bool => {
                if leaf || self.rng.chance(1, 5) {
                    return Expr::Bool(self.rng.chance(1, 2));
                }
                match self.rng.below(10) {
                    0 => {
                        self.hit("not");
                        Expr::Un(UnOp::Not, Box::new(self.expr(&Ty::Bool, d.saturating_sub(1))))
                    }
                    1 | 2 => {
                        let op = if self.rng.chance(1, 2) { BinOp::And } else { BinOp::Or };
                        let a = self.expr(&Ty::Bool, d.saturating_sub(1));
                        let b = self.expr(&Ty::Bool, d.saturating_sub(1));
                        self.hit("andor");
                        Expr::Bin(op, Box::new(a), Box::new(b))
                    }
                    5 | 6 if self.tier() >= 1 => self.strcmp_expr(d),
                    3 | 4 => {
                        let t = if self.tier() >= 1 && self.rng.chance(1, 3) {
                            if self.rng.chance(1, 3) { Ty::Tuple(vec![Ty::Int, Ty::Str]) } else { Ty::Str }
                        } else if self.rng.chance(1, 4) {
                            Ty::Bool
                        } else {
                            Ty::Int
                        };
                        let op = if self.rng.chance(1, 2) { BinOp::Eq } else { BinOp::Ne };
                        let a = self.expr(&t, d.saturating_sub(1));
                        self.depth += 1;
                        let b = self.expr(&t, d.saturating_sub(1));
                        self.depth -= 1;
                        self.hit("eq");
                        Expr::Bin(op, Box::new(a), Box::new(b))
                    }
                    _ => {
                        let op = *self.rng.pick(&[BinOp::Lt, BinOp::Le, BinOp::Gt, BinOp::Ge]);
                        let a = self.expr(&Ty::Int, d.saturating_sub(1));
                        self.depth += 1;
                        let b = self.expr(&Ty::Int, d.saturating_sub(1));
                        self.depth -= 1;
                        self.hit("cmp");
                        Expr::Bin(op, Box::new(a), Box::new(b))
                    }
                }
            }
            Ty::Str => {
                if leaf || self.rng.chance(1, 2) {
                    return Expr::Str(self.str_lit());
                }
                let ta = self.printable_ty();
                let tb = self.printable_ty();
                let a = self.expr(&ta, d.saturating_sub(1));
                self.depth += 1;
                let b = self.expr(&tb, d.saturating_sub(1));
                self.depth -= 1;
                self.hit("concat");
                Expr::Bin(BinOp::Concat, Box::new(a), Box::new(b))
            }
            Ty::Unit => {
                if leaf || self.rng.chance(1, 3) {
                    return Expr::Unit;
                }
                match self.rng.below(3) {
                    0 => self.print_expr(d),
                    1 => self.if_expr(ty, d),
                    _ => self.block_expr(ty, d),
                }
            }
            Ty::Tuple(ts) => {
                let mut es = vec![];
                let d0 = self.depth;
                for t in ts.clone() {
                    es.push(self.expr(&t, d.saturating_sub(1)));
                    if t != Ty::Unit {
                        self.depth = d0 + 1;
                    }
                }
                self.depth = d0;
                self.hit("tuple");
                Expr::Tuple(es)
            }
            Ty::Struct(i) => {
                let def = self.prog.structs[*i].clone();
                let mut es = vec![];
                let d0 = self.depth;
                for (_, t) in &def.fields {
                    es.push(self.expr(t, d.saturating_sub(1)));
                    if *t != Ty::Unit {
                        self.depth = d0 + 1;
                    }
                }
                self.depth = d0;
                self.hit("struct");
                Expr::Mk(def.name, es)
            }
            Ty::Enum(i) => {
                let def = self.prog.enums[*i].clone();
                let (c, ts) = self.rng.pick(&def.ctors).clone();
                let mut es = vec![];
                let d0 = self.depth;
                for t in &ts {
                    es.push(self.expr(t, d.saturating_sub(1)));
                    self.depth = d0 + 1;
                }
                self.depth = d0;
                self.hit("enum");
                Expr::Variant(def.name, c, es)
            }
            Ty::Array(t) => {
                // an empty literal needs an annotation to be typed: only `let x: array<T> = []` has one
                let n = if self.typed_ctx && self.rng.chance(1, 4) { 0 } else { 1 + self.rng.below(3) as usize };
                self.typed_ctx = false;
                let mut es = vec![];
                let d0 = self.depth;
                for _ in 0..n {
                    es.push(self.expr(t, d.saturating_sub(1)));
                    if **t != Ty::Unit {
                        self.depth = d0 + 1;
                    }
                }
                self.depth = d0;
                self.hit("array");
                Expr::Array(es)
            }
            Ty::Opt(t) => {
                self.hit("option");
                if self.rng.chance(1, 3) {
                    // a bare `option.none` has no payload type: only an annotated `let` may hold it
                    if self.typed_ctx && self.rng.chance(1, 2) {
                        Expr::Variant("option".into(), "none".into(), vec![])
                    } else {
                        Expr::Call(format!("none_{}", helper_suffix(t)), vec![])
                    }
                } else {
                    Expr::Variant("option".into(), "some".into(), vec![self.expr(t, d.saturating_sub(1))])
                }
            }
            Ty::Res(t) => {
                self.hit("result");
                let typed = self.typed_ctx && self.rng.chance(1, 2);
                self.typed_ctx = false;
                if self.rng.chance(1, 3) {
                    let m = Expr::Str(self.str_lit());
                    if typed { Expr::Variant("result".into(), "err".into(), vec![m]) } else { Expr::Call("err_int".into(), vec![m]) }
                } else {
                    let v = self.expr(t, d.saturating_sub(1));
                    if typed { Expr::Variant("result".into(), "ok".into(), vec![v]) } else { Expr::Call("ok_int".into(), vec![v]) }
                }
            }
            Ty::Fn(args, ret) => {
                // a named function / a struct constructor of exactly this type as the value
                let mut named: Vec<Expr> = vec![];
                if self.tier() >= 3 {
                    for f in &self.prog.fns {
                        if f.name.starts_with("gv") && **ret == f.ret && f.params.iter().map(|(_, t)| t).eq(args.iter()) {
                            named.push(Expr::FnRef(f.name.clone()));
                        }
                    }
                    if let Ty::Struct(i) = &**ret {
                        let d = &self.prog.structs[*i];
                        if d.fields.iter().map(|(_, t)| t).eq(args.iter()) {
                            named.push(Expr::CtorRef(d.name.clone()));
                        }
                    }
                }
                if !named.is_empty() && self.rng.chance(3, 5) {
                    let e = self.rng.pick(&named).clone();
                    self.hit(if matches!(e, Expr::FnRef(_)) { "fn_value" } else { "ctor_value" });
                    return e;
                }
                self.lambda(&args.clone(), &ret.clone(), d)
            }
            Ty::Hole(t) => self.ctor(&t.clone(), d),
        }
    }

    /// a string operand for a comparison: one half of a designed pair, or any string expression
    fn str_pair(&mut self, d: u32) -> (Expr, Expr) {
        // equal, proper prefix either way, common prefix then smaller / greater byte, no common prefix, empty
        const PAIRS: [(&str, &str); 10] = [
            ("abc", "abc"), ("ab", "abc"), ("abc", "ab"), ("abc", "abd"), ("abd", "abc"), ("abcx", "abdy"),
            ("x", "abc"), ("", "a"), ("a", ""), ("", ""),
        ];
        let (a, b) = *self.rng.pick(&PAIRS);
        let lit = |s: &str| Expr::Str(s.to_string());
        match self.rng.below(5) {
            0 => {
                let a2 = self.expr(&Ty::Str, d.saturating_sub(1));
                self.depth += 1;
                let b2 = self.expr(&Ty::Str, d.saturating_sub(1));
                self.depth -= 1;
                (a2, b2)
            }
            // operands built on the operand stack: concatenations of the halves
            1 => (Expr::Bin(BinOp::Concat, Box::new(lit(a)), Box::new(lit(""))), Expr::Bin(BinOp::Concat, Box::new(lit("")), Box::new(lit(b)))),
            _ => (lit(a), lit(b)),
        }
    }

    fn strcmp_expr(&mut self, d: u32) -> Expr {
        let op = *self.rng.pick(&[BinOp::Lt, BinOp::Le, BinOp::Gt, BinOp::Ge, BinOp::Ge, BinOp::Eq, BinOp::Ne]);
        let (a, b) = self.str_pair(d);
        self.hit("strcmp");
        Expr::Bin(op, Box::new(a), Box::new(b))
    }

    fn printable_ty(&mut self) -> Ty {
        match self.rng.below(10) {
            0..=3 => Ty::Str,
            4..=6 => Ty::Int,
            7 => Ty::Bool,
            8 => Ty::Unit,
            _ => Ty::Tuple(vec![Ty::Int, Ty::Bool]),
        }
    }

    fn print_expr(&mut self, d: u32) -> Expr {
        let t = if self.tier() == 0 {
            if self.rng.chance(2, 3) { Ty::Int } else { Ty::Bool }
        } else {
            match self.rng.below(12) {
                0..=3 => Ty::Int,
                4 => Ty::Bool,
                5..=6 => Ty::Str,
                7 => Ty::Unit,
                8 => Ty::Tuple(vec![Ty::Int, self.elem_ty()]),
                9 => Ty::Array(Box::new(if self.rng.chance(1, 5) { Ty::Unit } else { Ty::Int })),
                10 if self.tier() >= 2 => Ty::Opt(Box::new(Ty::Int)),
                11 if self.tier() >= 2 => Ty::Res(Box::new(Ty::Int)),
                _ => Ty::Int,
            }
        };
        self.hit("print");
        Expr::Print(Box::new(self.expr(&t, d.saturating_sub(1))))
    }

    fn if_expr(&mut self, ty: &Ty, d: u32) -> Expr {
        let c = self.expr(&Ty::Bool, d.saturating_sub(1));
        let t = self.block_expr(ty, d);
        let f = self.block_expr(ty, d);
        self.hit("if");
        Expr::If(Box::new(c), Box::new(t), Box::new(f))
    }

    /// `{ stmts; e }` of type `ty` (for Unit: statements only, or a trailing unit expression)
    fn block_expr(&mut self, ty: &Ty, d: u32) -> Expr {
        self.push_scope();
        let n = if self.budget > 10 && !self.scrut_mode { self.rng.below(3) as usize } else { 0 };
        let mut ss = vec![];
        for _ in 0..n {
            self.stmt(d.saturating_sub(1), &mut ss);
        }
        if *ty != Ty::Unit {
            ss.push(Stmt::Expr(self.expr(ty, d.saturating_sub(1))));
        } else if self.rng.chance(1, 3) {
            ss.push(Stmt::Expr(self.expr(ty, d.saturating_sub(1))));
        } else if ss.is_empty() && self.rng.chance(1, 2) {
            ss.push(Stmt::Expr(self.print_expr(d)));
        }
        // a block whose last statement is a `let`/assignment is void; one that ends with an
        // expression statement has that expression's type: make sure a Unit block does not end with
        // a valued expression statement
        if *ty == Ty::Unit {
            if let Some(Stmt::Expr(e)) = ss.last() {
                if !self.is_unit_expr(e) || (self.o.avoid_never_value && contains_ret(e)) {
                    ss.push(Stmt::Expr(Expr::Unit));
                }
            }
        }
        self.pop_scope();
        self.hit("block");
        Expr::Block(ss)
    }

    /// conservative: is this expression statically of type void?
    fn is_unit_expr(&self, e: &Expr) -> bool {
        match e {
            Expr::Unit | Expr::Print(_) | Expr::Push(..) => true,
            Expr::If(_, t, _) => self.is_unit_expr(t),
            Expr::Block(ss) => match ss.last() {
                None => true,
                Some(Stmt::Expr(e)) => self.is_unit_expr(e),
                Some(_) => true,
            },
            _ => false,
        }
    }

    fn scrutinee(&mut self, ty: &Ty, d: u32) -> Expr {
        let saved = self.scrut_mode;
        self.scrut_mode = self.scrut_mode || self.o.avoid_scrutinee_bugs;
        let e = self.expr(ty, d);
        self.scrut_mode = saved;
        e
    }

    fn match_expr(&mut self, ty: &Ty, d: u32) -> Option<Expr> {
        // scrutinee: int, bool, tuple, enum, option/result
        let choice = self.rng.below(9);
        let d1 = d.saturating_sub(1);
        match choice {
            0 => {
                let s = self.scrutinee(&Ty::Int, d1);
                let k = 1 + self.rng.below(3);
                let mut arms = vec![];
                let mut used = vec![];
                for _ in 0..k {
                    let n = self.rng.range(0, 6);
                    if used.contains(&n) {
                        continue;
                    }
                    used.push(n);
                    arms.push((Pat::Int(n), self.arm_body(ty, d1, &[])));
                }
                if self.rng.chance(1, 2) {
                    let x = self.binder_name();
                    arms.push((Pat::Bind(x.clone()), self.arm_body(ty, d1, &[(x, Ty::Int)])));
                } else {
                    arms.push((Pat::Wild, self.arm_body(ty, d1, &[])));
                }
                self.hit("match_int");
                Some(Expr::Match(Box::new(s), arms))
            }
            1 => {
                let s = self.scrutinee(&Ty::Bool, d1);
                let first = self.rng.chance(1, 2);
                let arms = vec![(Pat::Bool(first), self.arm_body(ty, d1, &[])), (Pat::Bool(!first), self.arm_body(ty, d1, &[]))];
                self.hit("match_bool");
                Some(Expr::Match(Box::new(s), arms))
            }
            2 => {
                let t = Ty::Tuple(vec![Ty::Int, Ty::Bool]);
                let s = self.scrutinee(&t, d1);
                let x = self.binder_name();
                let y = self.fresh("v");
                let arms = vec![
                    (Pat::Tuple(vec![Pat::Int(self.rng.range(0, 3)), Pat::Wild]), self.arm_body(ty, d1, &[])),
                    (Pat::Tuple(vec![Pat::Bind(x.clone()), Pat::Bool(true)]), self.arm_body(ty, d1, &[(x.clone(), Ty::Int)])),
                    (Pat::Tuple(vec![Pat::Bind(x.clone()), Pat::Bind(y.clone())]), self.arm_body(ty, d1, &[(x, Ty::Int), (y, Ty::Bool)])),
                ];
                self.hit("match_tuple");
                Some(Expr::Match(Box::new(s), arms))
            }
            3 if !self.prog.enums.is_empty() => {
                let i = self.rng.below(self.prog.enums.len() as u64) as usize;
                let def = self.prog.enums[i].clone();
                let s = self.scrutinee(&Ty::Enum(i), d1);
                let mut arms = vec![];
                let wild_from = if self.rng.chance(1, 4) { 1 + self.rng.below(def.ctors.len() as u64) as usize } else { usize::MAX };
                for (k, (c, ts)) in def.ctors.iter().enumerate() {
                    if k >= wild_from {
                        arms.push((Pat::Wild, self.arm_body(ty, d1, &[])));
                        break;
                    }
                    // a refutable arm first, so that the full arm below is reached through a failed comparison
                    if ts.len() >= 2 && matches!(ts[0], Ty::Int | Ty::Bool) && self.rng.chance(1, 2) {
                        let mut ps: Vec<Pat> = ts.iter().map(|_| Pat::Wild).collect();
                        ps[0] = if ts[0] == Ty::Int { Pat::Int(self.rng.below(3) as i64) } else { Pat::Bool(self.rng.chance(1, 2)) };
                        arms.push((Pat::Variant(c.clone(), ps), self.arm_body(ty, d1, &[])));
                    }
                    let mut ps = vec![];
                    let mut binds = vec![];
                    for t in ts {
                        if self.rng.chance(1, 4) {
                            ps.push(Pat::Wild);
                        } else {
                            let x = self.fresh("v");
                            ps.push(Pat::Bind(x.clone()));
                            binds.push((x, t.clone()));
                        }
                    }
                    arms.push((Pat::Variant(c.clone(), ps), self.arm_body(ty, d1, &binds)));
                }
                self.hit("match_enum");
                Some(Expr::Match(Box::new(s), arms))
            }
            4 if self.tier() >= 2 => {
                let pt = if self.rng.chance(2, 3) { Ty::Int } else { Ty::Str };
                let s = self.scrutinee(&Ty::Opt(Box::new(pt.clone())), d1);
                let x = self.binder_name();
                let mut arms = vec![
                    (Pat::Variant("some".into(), vec![Pat::Bind(x.clone())]), self.arm_body(ty, d1, &[(x, pt)])),
                    (Pat::Variant("none".into(), vec![]), self.arm_body(ty, d1, &[])),
                ];
                if self.rng.chance(1, 2) {
                    arms.swap(0, 1);
                }
                self.hit("match_option");
                Some(Expr::Match(Box::new(s), arms))
            }
            5 if self.tier() >= 2 => {
                let s = self.scrutinee(&Ty::Res(Box::new(Ty::Int)), d1);
                let x = self.binder_name();
                let y = self.fresh("v");
                let arms = vec![
                    (Pat::Variant("ok".into(), vec![Pat::Bind(x.clone())]), self.arm_body(ty, d1, &[(x, Ty::Int)])),
                    (Pat::Variant("err".into(), vec![Pat::Bind(y.clone())]), self.arm_body(ty, d1, &[(y, Ty::Str)])),
                ];
                self.hit("match_result");
                Some(Expr::Match(Box::new(s), arms))
            }
            6 | 7 if !self.o.no_unit_vars => {
                // product with void components (no stack slot): an earlier arm fails on a refutable sub-pattern of an
                // earlier component, a later arm is taken
                let shapes: [&[Ty]; 7] = [
                    &[Ty::Int, Ty::Unit],
                    &[Ty::Int, Ty::Str, Ty::Unit],
                    &[Ty::Unit, Ty::Int, Ty::Bool],
                    &[Ty::Int, Ty::Unit, Ty::Unit],
                    &[Ty::Bool, Ty::Unit],
                    &[Ty::Int, Ty::Unit, Ty::Str],
                    &[Ty::Unit, Ty::Unit, Ty::Int, Ty::Unit],
                ];
                let ts: Vec<Ty> = self.rng.pick(&shapes).to_vec();
                let s = self.scrutinee(&Ty::Tuple(ts.clone()), d1.max(1));
                let mut arms = vec![];
                // the key component carries a distinct literal in every refutable arm (no redundant arm)
                let key = ts.iter().position(|t| matches!(t, Ty::Int | Ty::Bool)).unwrap_or(0);
                let narms = if ts[key] == Ty::Bool { 1 } else { 2 + self.rng.below(2) };
                for j in 0..narms {
                    let mut ps = vec![];
                    for (i, t) in ts.iter().enumerate() {
                        ps.push(match t {
                            Ty::Int if i == key => Pat::Int(j as i64),
                            Ty::Bool if i == key => Pat::Bool(self.rng.chance(1, 2)),
                            Ty::Str if self.rng.chance(1, 3) => Pat::Str(self.str_lit()),
                            Ty::Bool if self.rng.chance(1, 3) => Pat::Bool(self.rng.chance(1, 2)),
                            Ty::Unit if self.rng.chance(1, 3) => Pat::Unit,
                            _ => Pat::Wild,
                        });
                    }
                    arms.push((Pat::Tuple(ps), self.arm_body(ty, d1, &[])));
                }
                let mut ps = vec![];
                let mut binds = vec![];
                for t in &ts {
                    if self.rng.chance(1, 2) {
                        ps.push(Pat::Wild);
                    } else {
                        let x = self.fresh("v");
                        ps.push(Pat::Bind(x.clone()));
                        binds.push((x, t.clone()));
                    }
                }
                arms.push((Pat::Tuple(ps), self.arm_body(ty, d1, &binds)));
                self.hit("match_product_void");
                Some(Expr::Match(Box::new(s), arms))
            }
            8 if !self.prog.structs.is_empty() => {
                let i = self.rng.below(self.prog.structs.len() as u64) as usize;
                let def = self.prog.structs[i].clone();
                if !def.fields.iter().any(|(_, t)| matches!(t, Ty::Int | Ty::Bool)) {
                    return None;
                }
                let s = self.scrutinee(&Ty::Struct(i), d1.max(1));
                let mut arms = vec![];
                let key = def.fields.iter().position(|(_, t)| matches!(t, Ty::Int | Ty::Bool)).unwrap();
                let narms = if def.fields[key].1 == Ty::Bool { 1 } else { 2 };
                for j in 0..narms {
                    let ps = def
                        .fields
                        .iter()
                        .enumerate()
                        .map(|(i, (_, t))| match t {
                            Ty::Int if i == key => Pat::Int(j as i64),
                            Ty::Bool if i == key => Pat::Bool(self.rng.chance(1, 2)),
                            Ty::Unit if self.rng.chance(1, 3) => Pat::Unit,
                            _ => Pat::Wild,
                        })
                        .collect();
                    arms.push((Pat::Struct(def.name.clone(), ps), self.arm_body(ty, d1, &[])));
                }
                arms.push((Pat::Struct(def.name.clone(), def.fields.iter().map(|_| Pat::Wild).collect()), self.arm_body(ty, d1, &[])));
                self.hit("match_struct");
                Some(Expr::Match(Box::new(s), arms))
            }
            _ => None,
        }
    }

    fn arm_body(&mut self, ty: &Ty, d: u32, binds: &[(String, Ty)]) -> Expr {
        self.push_scope();
        for (x, t) in binds {
            self.declare(x, t.clone(), false, false);
        }
        let e = if self.rng.chance(1, 3) { self.block_expr(ty, d) } else { self.expr(ty, d) };
        self.pop_scope();
        // a bare `if`/`match` arm body is fine; literals etc. too
        e
    }

    fn call_expr(&mut self, ty: &Ty, d: u32) -> Option<Expr> {
        // only functions defined before the current one (or the current one through `self_call`)
        let limit = self.cur_fn.unwrap_or(self.prog.fns.len());
        let cands: Vec<usize> = (0..limit.min(self.prog.fns.len())).filter(|i| &self.prog.fns[*i].ret == ty && ["fn", "gv", "fw"].iter().any(|p| self.prog.fns[*i].name.starts_with(p))).collect();
        // recursion: `f(n - 1, …)` inside f's own body, below the `n <= 0` guard
        if let Some((name, params, ret)) = self.self_sig.clone() {
            if &ret == ty && self.self_calls_left > 0 && self.lambda_depth == 0 && (cands.is_empty() || self.rng.chance(1, 2)) {
                self.self_calls_left -= 1;
                let budget = format!("n{}", &name[2..]);
                let mut args = vec![];
                let d0 = self.depth;
                for (x, t) in params.iter() {
                    if *x == budget {
                        args.push(Expr::Bin(BinOp::Sub, Box::new(Expr::Var(budget.clone())), Box::new(Expr::Int(1))));
                    } else if *t == Ty::Unit {
                        args.push(Expr::Unit);
                    } else {
                        args.push(self.expr(t, d.saturating_sub(1)));
                    }
                    if *t != Ty::Unit {
                        self.depth = d0 + 1;
                    }
                }
                self.depth = d0;
                self.hit("call_recursive");
                return Some(Expr::Call(name, args));
            }
        }
        if cands.is_empty() {
            return None;
        }
        let f = self.prog.fns[*self.rng.pick(&cands)].clone();
        let mut args = vec![];
        let d0 = self.depth;
        let budget = format!("n{}", &f.name[2..]);
        for (x, t) in f.params.iter() {
            // the parameter `n<k>` of every generated function is its recursion budget
            if *x == budget {
                args.push(Expr::Int(self.rng.below(4) as i64));
            } else if *t == Ty::Unit && self.rng.chance(3, 4) {
                args.push(Expr::Unit);
            } else {
                args.push(self.expr(t, d.saturating_sub(1)));
            }
            if *t != Ty::Unit {
                self.depth = d0 + 1;
            }
        }
        self.depth = d0;
        self.hit("call");
        Some(Expr::Call(f.name, args))
    }

    fn callv_expr(&mut self, ty: &Ty, d: u32) -> Option<Expr> {
        let own_only = self.scrut_mode && self.lambda_depth > 0;
        let is_fn = |t: &Ty| matches!(t, Ty::Fn(_, r) if &**r == ty);
        let cands: Vec<Var> = self
            .visible()
            .into_iter()
            .filter(|v| (is_fn(&v.ty) || matches!(&v.ty, Ty::Array(e) if is_fn(e))) && (!own_only || self.is_own(&v.name)))
            .collect();
        if cands.is_empty() {
            return None;
        }
        let v = self.rng.pick(&cands).clone();
        let (fty, indexed) = match &v.ty {
            Ty::Array(e) => ((**e).clone(), true),
            t => (t.clone(), false),
        };
        let Ty::Fn(ats, _) = &fty else { unreachable!() };
        let mut args = vec![];
        let d0 = self.depth;
        for t in ats {
            args.push(if *t == Ty::Unit { Expr::Unit } else { self.expr(t, d.saturating_sub(1)) });
            if *t != Ty::Unit {
                self.depth = d0 + 1;
            }
        }
        self.depth = d0;
        if indexed {
            // `fs[i](args)`: the result of an index expression called directly (D91); arguments first, then the callee
            self.hit("call_indexed");
            let ix = Expr::Int(if self.rng.chance(5, 6) { 0 } else { self.rng.below(3) as i64 });
            return Some(Expr::CallV(Box::new(Expr::Index(Box::new(Expr::Var(v.name)), Box::new(ix))), args));
        }
        self.hit("call_lambda");
        Some(Expr::CallV(Box::new(Expr::Var(v.name)), args))
    }

    /// field access / array index / pop producing `ty`
    fn project_expr(&mut self, ty: &Ty, d: u32) -> Option<Expr> {
        let own_only = self.scrut_mode && self.lambda_depth > 0;
        let vis: Vec<Var> = self.visible().into_iter().filter(|v| !own_only || self.is_own(&v.name)).collect();
        let mut opts: Vec<Expr> = vec![];
        for v in &vis {
            match &v.ty {
                Ty::Struct(i) => {
                    for (f, t) in &self.prog.structs[*i].fields {
                        if t == ty {
                            opts.push(Expr::Field(Box::new(Expr::Var(v.name.clone())), f.clone()));
                        }
                    }
                }
                Ty::Array(t) if &**t == ty => {
                    opts.push(Expr::Index(Box::new(Expr::Var(v.name.clone())), Box::new(Expr::Unit)));
                    if self.rng.chance(1, 4) {
                        opts.push(Expr::Pop(Box::new(Expr::Var(v.name.clone()))));
                    }
                }
                _ => {}
            }
        }
        if opts.is_empty() {
            return None;
        }
        let e = self.rng.pick(&opts).clone();
        Some(match e {
            Expr::Index(a, _) => {
                self.depth += 1;
                let i = if self.rng.chance(3, 4) { Expr::Int(self.rng.below(3) as i64) } else { self.expr(&Ty::Int, d.saturating_sub(1)) };
                self.depth -= 1;
                self.hit("index");
                Expr::Index(a, Box::new(i))
            }
            Expr::Pop(a) => {
                self.hit("pop");
                Expr::Pop(a)
            }
            e => {
                self.hit("field");
                e
            }
        })
    }

    fn try_unwrap_expr(&mut self, ty: &Ty, d: u32) -> Option<Expr> {
        if !matches!(ty, Ty::Int | Ty::Str | Ty::Unit) {
            return None;
        }
        let d1 = d.saturating_sub(1);
        // `?` is available when the enclosing function returns a compatible type
        let can_try_opt = matches!(self.ret_ty, Some(Ty::Opt(_))) && self.lambda_depth == 0;
        let can_try_res = matches!(self.ret_ty, Some(Ty::Res(_))) && self.lambda_depth == 0 && *ty == Ty::Int;
        let r = self.rng.below(10);
        if can_try_opt && r < 5 && !(self.o.avoid_void_try && *ty == Ty::Unit) {
            self.hit("try_option");
            let inner = self.opt_source(&Ty::Opt(Box::new(ty.clone())), d1);
            return Some(Expr::Try(Box::new(inner)));
        }
        if can_try_res && r < 7 {
            self.hit("try_result");
            let inner = self.opt_source(&Ty::Res(Box::new(Ty::Int)), d1);
            return Some(Expr::Try(Box::new(inner)));
        }
        if r < 9 {
            // unwrap: mostly on values that are present
            let t = if *ty == Ty::Int && self.rng.chance(1, 3) { Ty::Res(Box::new(Ty::Int)) } else { Ty::Opt(Box::new(ty.clone())) };
            self.hit("unwrap");
            let inner = if self.rng.chance(if self.o.try_boost { 15 } else { 3 }, if self.o.try_boost { 16 } else { 4 }) {
                match &t {
                    Ty::Opt(p) => Expr::Variant("option".into(), "some".into(), vec![self.expr(p, d1)]),
                    _ => Expr::Call("ok_int".into(), vec![self.expr(&Ty::Int, d1)]),
                }
            } else {
                self.opt_source(&t, d1)
            };
            return Some(Expr::Unwrap(Box::new(inner)));
        }
        None
    }

    /// an option/result valued expression that is not a bare constructor when possible
    fn opt_source(&mut self, t: &Ty, d: u32) -> Expr {
        if let Some(e) = self.call_expr(t, d) {
            return e;
        }
        let vars = self.vars_of(t);
        if !vars.is_empty() && self.rng.chance(1, 2) {
            return Expr::Var(self.rng.pick(&vars).name.clone());
        }
        // parenthesised constructor / if
        if self.rng.chance(1, 2) { self.if_expr(t, d.max(1)) } else { self.expr(t, d) }
    }

    fn lambda(&mut self, args: &[Ty], ret: &Ty, d: u32) -> Expr {
        let params: Vec<(String, Ty)> = args.iter().map(|t| (self.fresh("p"), t.clone())).collect();
        // save the function context
        let saved = (self.loop_depth, self.depth, self.ret_ty.clone(), self.capture_floor, self.visible_floor, self.in_for_arr);
        let saved_scrut = self.scrut_mode;
        self.scrut_mode = false;
        self.loop_depth = 0;
        self.depth = 0;
        self.in_for_arr = 0;
        if self.lambda_depth >= 1 && !self.o.deep_capture {
            // nested lambda: sees only the enclosing lambda's own variables (D16 shape excluded)
            self.visible_floor = self.capture_floor;
        }
        self.scopes.push(vec![]);
        self.capture_floor = self.scopes.len() - 1;
        self.lambda_depth += 1;
        for (x, t) in &params {
            self.declare(x, t.clone(), false, false);
        }
        let body = if self.rng.chance(1, 2) { self.block_expr(ret, d.max(1)) } else { self.expr(ret, d.saturating_sub(1).max(1)) };
        self.lambda_depth -= 1;
        self.scopes.pop();
        (self.loop_depth, self.depth, self.ret_ty, self.capture_floor, self.visible_floor, self.in_for_arr) = saved;
        self.scrut_mode = saved_scrut;
        self.hit(if self.lambda_depth >= 1 { "lambda_nested" } else { "lambda" });
        Expr::Lam(params, Box::new(body))
    }

    // ------------------------------------------------------------------ statements
    /// append one generated statement (a `while` also emits its counter declaration first)
    pub fn stmt(&mut self, d: u32, out: &mut Vec<Stmt>) {
        let s = self.stmt1(d, out);
        out.push(s);
    }

    fn stmt1(&mut self, d: u32, out: &mut Vec<Stmt>) -> Stmt {
        self.spend(1);
        let r = self.rng.below(100);
        let t = self.tier();
        if self.budget <= 0 {
            return Stmt::Expr(self.print_expr(0));
        }
        match r {
            0..=21 => self.let_stmt(d),
            22..=36 => self.assign_stmt(d).unwrap_or_else(|| self.let_stmt(d)),
            37..=50 => Stmt::Expr(self.print_expr(d.max(1))),
            51..=58 => {
                self.hit("if_stmt");
                Stmt::Expr(self.if_expr(&Ty::Unit, d.max(1)))
            }
            59..=66 if d > 0 => self.while_stmt(d, out),
            67..=72 if d > 0 && t >= 1 => self.for_stmt(d),
            73..=78 if self.loop_depth > 0 && (self.depth == 0 || !self.o.depth_safe) => {
                if self.rng.chance(1, 2) {
                    self.hit("break");
                    Stmt::Break
                } else {
                    self.hit("continue");
                    Stmt::Continue
                }
            }
            79..=83 if t >= 1 => self.mutate_stmt(d).unwrap_or_else(|| self.let_stmt(d)),
            84..=87 if self.ret_ty.is_some() && self.lambda_depth == 0 => {
                let rt = self.ret_ty.clone().unwrap();
                self.hit("return");
                // `return` inside an `if` so that the rest stays reachable
                let c = self.expr(&Ty::Bool, 1);
                let e = self.expr(&rt, d.saturating_sub(1));
                Stmt::Expr(Expr::If(Box::new(c), Box::new(Expr::Block(vec![Stmt::Ret(e)])), Box::new(Expr::Block(vec![]))))
            }
            88..=91 => {
                // expression statement with a value (popped)
                let ty = self.scalar();
                self.hit("expr_stmt");
                Stmt::Expr(self.expr(&ty, d.max(1)))
            }
            92..=94 => {
                self.hit("block_stmt");
                Stmt::Expr(self.block_expr(&Ty::Unit, d.max(1)))
            }
            95..=99 if self.o.nesting && d > 0 => self.task_stmt(d),
            _ => self.let_stmt(d),
        }
    }

    /// `task { … }`: a separate function (like a lambda without parameters): sees the enclosing variables
    /// as captured copies, cannot assign them, cannot break out of an enclosing loop
    fn task_stmt(&mut self, d: u32) -> Stmt {
        let saved = (self.loop_depth, self.depth, self.ret_ty.clone(), self.capture_floor, self.visible_floor, self.in_for_arr);
        let saved_scrut = self.scrut_mode;
        self.scrut_mode = false;
        self.loop_depth = 0;
        self.depth = 0;
        self.in_for_arr = 0;
        self.ret_ty = None;
        self.scopes.push(vec![]);
        self.capture_floor = self.scopes.len() - 1;
        self.lambda_depth += 1;
        let body = self.block_expr(&Ty::Unit, d.max(1));
        self.lambda_depth -= 1;
        self.scopes.pop();
        (self.loop_depth, self.depth, self.ret_ty, self.capture_floor, self.visible_floor, self.in_for_arr) = saved;
        self.scrut_mode = saved_scrut;
        self.hit("task");
        Stmt::Expr(Expr::Task(Box::new(body)))
    }

    fn let_stmt(&mut self, d: u32) -> Stmt {
        let ty = self.var_ty();
        let annotated = matches!(&ty, Ty::Array(_) | Ty::Opt(_) | Ty::Res(_) | Ty::Fn(..)) || self.rng.chance(1, 6);
        // wildcard annotation (`array<_>`, `(_, string)`, `_`): the initialiser then has to be typed by itself
        let holes = annotated && self.tier() >= 1 && self.rng.chance(1, 4);
        self.typed_ctx = annotated && !holes;
        let e = self.expr(&ty, d.max(1));
        // destructuring let for tuples / structs
        if let Ty::Tuple(ts) = &ty {
            if self.rng.chance(1, 2) {
                let mut ps = vec![];
                let mut decls = vec![];
                for t in ts {
                    if self.rng.chance(1, 5) {
                        ps.push(Pat::Wild);
                    } else {
                        let x = self.fresh("v");
                        ps.push(Pat::Bind(x.clone()));
                        decls.push((x, t.clone()));
                    }
                }
                for (x, t) in decls {
                    self.declare(&x, t, false, false);
                }
                self.hit("let_tuple");
                return Stmt::Let(false, Pat::Tuple(ps), None, e);
            }
        }
        if let Ty::Struct(i) = &ty {
            if self.rng.chance(1, 3) {
                let def = self.prog.structs[*i].clone();
                let mut ps = vec![];
                for (_, t) in &def.fields {
                    let x = self.fresh("v");
                    ps.push(Pat::Bind(x.clone()));
                    self.declare(&x, t.clone(), false, false);
                }
                self.hit("let_struct");
                return Stmt::Let(false, Pat::Struct(def.name, ps), None, e);
            }
        }
        let mutable = self.rng.chance(1, 2);
        let x = self.binder_name();
        self.declare(&x, ty.clone(), mutable, false);
        self.hit(if mutable { "var" } else { "let" });
        // annotate when inference has nothing to go on
        let ann = if holes {
            self.hit("hole_annotation");
            Some(self.holeify(&ty))
        } else if annotated {
            Some(ty.clone())
        } else {
            None
        };
        Stmt::Let(mutable, Pat::Bind(x), ann, e)
    }

    /// replace a component of `t` (or all of it) by the wildcard
    fn holeify(&mut self, t: &Ty) -> Ty {
        let h = |t: &Ty| Ty::Hole(Box::new(t.clone()));
        match t {
            Ty::Array(e) if self.rng.chance(3, 4) => Ty::Array(Box::new(h(e))),
            Ty::Opt(e) if self.rng.chance(3, 4) => Ty::Opt(Box::new(h(e))),
            Ty::Res(e) if self.rng.chance(3, 4) => Ty::Res(Box::new(h(e))),
            Ty::Tuple(ts) if self.rng.chance(3, 4) => {
                let k = self.rng.below(ts.len() as u64) as usize;
                Ty::Tuple(ts.iter().enumerate().map(|(i, t)| if i == k || self.rng.chance(1, 3) { h(t) } else { t.clone() }).collect())
            }
            Ty::Fn(a, r) if self.rng.chance(3, 4) => {
                if self.rng.chance(1, 2) || a.is_empty() {
                    Ty::Fn(a.clone(), Box::new(h(r)))
                } else {
                    let k = self.rng.below(a.len() as u64) as usize;
                    Ty::Fn(a.iter().enumerate().map(|(i, t)| if i == k { h(t) } else { t.clone() }).collect(), r.clone())
                }
            }
            t => h(t),
        }
    }

    fn assign_stmt(&mut self, d: u32) -> Option<Stmt> {
        let no_unit = self.o.avoid_void_assign;
        let vs: Vec<Var> = self.visible().into_iter().filter(|v| v.mutable && !v.protected && self.is_own(&v.name) && !(no_unit && v.ty == Ty::Unit)).collect();
        if vs.is_empty() {
            return None;
        }
        let v = self.rng.pick(&vs).clone();
        if v.ty == Ty::Int && self.rng.chance(1, 2) {
            let op = *self.rng.pick(&[AsgOp::Add, AsgOp::Sub, AsgOp::Mul, AsgOp::Div, AsgOp::Mod]);
            self.depth += 1;
            let e = match op {
                AsgOp::Div | AsgOp::Mod if self.rng.chance(5, 6) => Expr::Int(self.rng.range(1, 7)),
                _ => self.expr(&Ty::Int, d.max(1)),
            };
            self.depth -= 1;
            self.hit("assign_compound");
            return Some(Stmt::Assign(v.name, op, e));
        }
        let e = self.expr(&v.ty, d.max(1));
        self.hit("assign");
        Some(Stmt::Assign(v.name, AsgOp::Set, e))
    }

    /// field / index assignment, push, pop on existing objects (reference semantics)
    fn mutate_stmt(&mut self, d: u32) -> Option<Stmt> {
        let vis = self.visible();
        let own_only = self.o.avoid_captured_target && self.lambda_depth > 0;
        let mut cands: Vec<Var> = vis.into_iter().filter(|v| matches!(v.ty, Ty::Struct(_) | Ty::Array(_)) && (!own_only || self.is_own(&v.name))).collect();
        if cands.is_empty() {
            return None;
        }
        let v = cands.swap_remove(self.rng.below(cands.len() as u64) as usize);
        let d1 = d.saturating_sub(1).max(1);
        match &v.ty {
            Ty::Struct(i) => {
                let def = self.prog.structs[*i].clone();
                let (f, t) = self.rng.pick(&def.fields).clone();
                if t == Ty::Unit && self.o.no_unit_vars {
                    return None;
                }
                if t == Ty::Int && self.rng.chance(1, 2) {
                    let op = *self.rng.pick(&[AsgOp::Add, AsgOp::Sub, AsgOp::Mul]);
                    self.depth += 1;
                    let e = self.expr(&Ty::Int, d1);
                    self.depth -= 1;
                    self.hit("field_compound");
                    Some(Stmt::AssignField(Expr::Var(v.name), f, op, e))
                } else {
                    // the right-hand side runs first, then the object expression; a void field stores nothing
                    let e = self.expr(&t, d1);
                    self.hit(if t == Ty::Unit { "field_assign_void" } else { "field_assign" });
                    let obj = if self.rng.chance(1, 4) {
                        if t != Ty::Unit {
                            self.depth += 1;
                        }
                        let o = self.expr(&v.ty, d1);
                        if t != Ty::Unit {
                            self.depth -= 1;
                        }
                        self.hit("field_assign_object_expr");
                        o
                    } else {
                        Expr::Var(v.name)
                    };
                    Some(Stmt::AssignField(obj, f, AsgOp::Set, e))
                }
            }
            Ty::Array(t) => {
                let t = (**t).clone();
                match self.rng.below(4) {
                    0 if self.in_for_arr == 0 => {
                        self.depth += 1;
                        let e = self.expr(&t, d1);
                        self.depth -= 1;
                        self.hit("push");
                        Some(Stmt::Expr(Expr::Push(Box::new(Expr::Var(v.name)), Box::new(e))))
                    }
                    1 if t != Ty::Unit => {
                        self.hit("pop_stmt");
                        Some(Stmt::Expr(Expr::Pop(Box::new(Expr::Var(v.name)))))
                    }
                    _ if t != Ty::Unit => {
                        let ix = Expr::Int(self.rng.below(3) as i64);
                        if t == Ty::Int && self.rng.chance(1, 2) {
                            let op = *self.rng.pick(&[AsgOp::Add, AsgOp::Sub, AsgOp::Mul]);
                            self.depth += 2;
                            let e = self.expr(&Ty::Int, d1);
                            self.depth -= 2;
                            self.hit("index_compound");
                            Some(Stmt::AssignIndex(Expr::Var(v.name), ix, op, e))
                        } else {
                            self.depth += 2;
                            let e = self.expr(&t, d1);
                            self.depth -= 2;
                            self.hit("index_assign");
                            Some(Stmt::AssignIndex(Expr::Var(v.name), ix, AsgOp::Set, e))
                        }
                    }
                    _ => None,
                }
            }
            _ => None,
        }
    }

    fn while_stmt(&mut self, d: u32, out: &mut Vec<Stmt>) -> Stmt {
        // the counter lives in the enclosing scope, is bumped first thing in the body and is never
        // assigned otherwise: every generated loop terminates
        let c = self.fresh("c");
        self.declare(&c, Ty::Int, true, true);
        let k = 1 + self.rng.below(4) as i64;
        let mut cond = Expr::Bin(BinOp::Lt, Box::new(Expr::Var(c.clone())), Box::new(Expr::Int(k)));
        if self.rng.chance(1, 3) {
            let extra = self.expr(&Ty::Bool, 1);
            cond = Expr::Bin(BinOp::And, Box::new(cond), Box::new(extra));
        }
        // a `break`/`continue` in the condition refers to the ENCLOSING loop (both the checker and the code generator
        // enter the loop only after the condition): legal only when there is one
        if self.o.nesting && self.loop_depth > 0 && self.rng.chance(1, 3) {
            let c = self.expr(&Ty::Bool, 1);
            let jump = if self.rng.chance(1, 2) { Stmt::Break } else { Stmt::Continue };
            self.hit("jump_in_while_cond");
            cond = Expr::Block(vec![
                Stmt::Expr(Expr::If(Box::new(c), Box::new(Expr::Block(vec![jump])), Box::new(Expr::Block(vec![])))),
                Stmt::Expr(cond),
            ]);
        }
        let saved = (self.loop_depth, self.depth);
        self.loop_depth += 1;
        self.depth = 0;
        self.push_scope();
        let mut body = vec![Stmt::Assign(c.clone(), AsgOp::Add, Expr::Int(1))];
        let n = 1 + self.rng.below(3) as usize;
        for _ in 0..n {
            self.stmt(d - 1, &mut body);
        }
        self.pop_scope();
        (self.loop_depth, self.depth) = saved;
        self.hit("while");
        out.push(Stmt::Let(true, Pat::Bind(c), None, Expr::Int(0)));
        Stmt::While(cond, body)
    }

    fn for_stmt(&mut self, d: u32) -> Stmt {
        let over_arr = self.rng.chance(1, 2);
        let (it, elem_ty) = if over_arr {
            let arrs: Vec<Var> = self.visible().into_iter().filter(|v| matches!(&v.ty, Ty::Array(t) if **t != Ty::Unit)).collect();
            if !arrs.is_empty() && self.rng.chance(2, 3) {
                let v = self.rng.pick(&arrs).clone();
                let Ty::Array(t) = &v.ty else { unreachable!() };
                (Expr::Var(v.name.clone()), (**t).clone())
            } else {
                let t = if self.rng.chance(2, 3) { Ty::Int } else { Ty::Str };
                (self.expr(&Ty::Array(Box::new(t.clone())), 1), t)
            }
        } else {
            (Expr::Int(self.rng.below(4) as i64), Ty::Int)
        };
        let it = if self.o.nesting && self.loop_depth > 0 && self.rng.chance(1, 4) {
            let c = self.expr(&Ty::Bool, 1);
            let jump = if self.rng.chance(1, 2) { Stmt::Break } else { Stmt::Continue };
            self.hit("jump_in_for_iterable");
            Expr::Block(vec![Stmt::Expr(Expr::If(Box::new(c), Box::new(Expr::Block(vec![jump])), Box::new(Expr::Block(vec![])))), Stmt::Expr(it)])
        } else {
            it
        };
        let saved = (self.loop_depth, self.depth, self.in_for_arr);
        self.loop_depth += 1;
        self.depth = 0;
        if over_arr {
            self.in_for_arr += 1;
        }
        self.push_scope();
        let pat = if self.rng.chance(1, 6) {
            Pat::Wild
        } else {
            let x = if self.o.avoid_for_shadow { self.fresh("v") } else { self.binder_name() };
            self.declare(&x, elem_ty, false, true);
            Pat::Bind(x)
        };
        let n = 1 + self.rng.below(3) as usize;
        let mut body = vec![];
        for _ in 0..n {
            self.stmt(d - 1, &mut body);
        }
        self.pop_scope();
        (self.loop_depth, self.depth, self.in_for_arr) = saved;
        self.hit(if over_arr { "for_array" } else { "for_int" });
        Stmt::For(pat, it, body)
    }

    // ------------------------------------------------------------------ whole programs
    fn gen_defs(&mut self) {
        let ns = 1 + self.rng.below(2) as usize;
        for k in 0..ns {
            let nf = 1 + self.rng.below(3) as usize;
            let mut fields = vec![];
            for j in 0..nf {
                let t = if !self.o.no_unit_vars && self.rng.chance(1, 10) { Ty::Unit } else if self.rng.chance(1, 8) { Ty::Array(Box::new(Ty::Int)) } else { self.scalar() };
                fields.push((format!("f{j}"), t));
            }
            if !self.o.no_unit_vars && self.rng.chance(1, 4) {
                fields.push((format!("f{nf}"), Ty::Unit));
            }
            self.prog.structs.push(StructDef { name: format!("St{k}"), fields });
        }
        let ne = 1 + self.rng.below(2) as usize;
        for k in 0..ne {
            let nc = 2 + self.rng.below(2) as usize;
            let mut ctors = vec![];
            for j in 0..nc {
                let na = self.rng.below(3) as usize;
                let mut ats: Vec<Ty> = (0..na).map(|_| self.scalar()).collect();
                // multi-field variants with void components (e.g. `Cc(bool, void)`)
                if !self.o.no_unit_vars && !ats.is_empty() && self.rng.chance(1, 3) {
                    let pos = self.rng.below(ats.len() as u64 + 1) as usize;
                    ats.insert(pos, Ty::Unit);
                }
                ctors.push((format!("K{k}x{j}"), ats));
            }
            self.prog.enums.push(EnumDef { name: format!("En{k}"), ctors });
        }
    }

    fn gen_fn(&mut self, k: usize) {
        let name = format!("fn{k}");
        let n = format!("n{k}");
        let mut params = vec![(n.clone(), Ty::Int)];
        let np = self.rng.below(3) as usize;
        for _ in 0..np {
            let t = if self.rng.chance(2, 3) { self.scalar() } else { self.var_ty() };
            if t == Ty::Unit {
                continue;
            }
            params.push((self.fresh("a"), t));
        }
        // void-typed parameters occupy no argument slot: first, middle, last position, several
        if !self.o.no_unit_vars && self.rng.chance(2, 5) {
            let nv = 1 + self.rng.below(2) as usize;
            for _ in 0..nv {
                let pos = self.rng.below(params.len() as u64 + 1) as usize;
                params.insert(pos, (self.fresh("u"), Ty::Unit));
            }
            self.hit("void_param");
        }
        let ret = match if self.o.try_boost { 6 + self.rng.below(5) } else { self.rng.below(12) } {
            0..=4 => self.scalar(),
            5 => Ty::Unit,
            6..=8 => Ty::Opt(Box::new(if self.rng.chance(3, 4) { Ty::Int } else { Ty::Str })),
            9..=10 => Ty::Res(Box::new(Ty::Int)),
            _ => Ty::Tuple(vec![Ty::Int, Ty::Bool]),
        };
        self.scopes = vec![vec![]];
        self.capture_floor = 0;
        self.visible_floor = 0;
        self.loop_depth = 0;
        self.depth = 0;
        self.lambda_depth = 0;
        self.cur_fn = Some(self.prog.fns.len());
        self.ret_ty = Some(ret.clone());
        self.budget = self.o.budget / 2;
        for (x, t) in params.iter() {
            self.declare(x, t.clone(), false, *x == n);
        }
        // base case first (no recursion), then the body
        self.self_sig = None;
        let base = self.expr(&ret, 1);
        let mut body = vec![Stmt::Expr(Expr::If(
            Box::new(Expr::Bin(BinOp::Le, Box::new(Expr::Var(n.clone())), Box::new(Expr::Int(0)))),
            Box::new(Expr::Block(vec![Stmt::Ret(base)])),
            Box::new(Expr::Block(vec![])),
        ))];
        self.self_sig = Some((name.clone(), params.clone(), ret.clone()));
        self.self_calls_left = 2;
        let ns = self.rng.below(4) as usize;
        for _ in 0..ns {
            self.stmt(2, &mut body);
        }
        if ret != Ty::Unit || self.rng.chance(1, 2) {
            body.push(Stmt::Expr(self.expr(&ret, 2)));
        } else if let Some(Stmt::Expr(e)) = body.last() {
            if !self.is_unit_expr(e) {
                body.push(Stmt::Expr(Expr::Unit));
            }
        }
        self.self_sig = None;
        self.cur_fn = None;
        self.ret_ty = None;
        self.prog.fns.push(FnDef { name, params, ret, body: Expr::Block(body) });
    }

    /// a function without recursion budget (`gv<k>`: used as a VALUE and called by name; `fw0`: >= 32 parameters)
    fn gen_leaf_fn(&mut self, name: String, np: usize) {
        let mut params: Vec<(String, Ty)> = vec![];
        for _ in 0..np {
            let t = self.scalar();
            params.push((self.fresh("a"), t));
        }
        if !self.o.no_unit_vars && self.rng.chance(1, 3) {
            let nv = 1 + self.rng.below(2) as usize;
            for _ in 0..nv {
                let pos = self.rng.below(params.len() as u64 + 1) as usize;
                params.insert(pos, (self.fresh("u"), Ty::Unit));
            }
        }
        let ret = self.scalar();
        self.scopes = vec![vec![]];
        self.capture_floor = 0;
        self.visible_floor = 0;
        self.loop_depth = 0;
        self.depth = 0;
        self.lambda_depth = 0;
        self.cur_fn = Some(self.prog.fns.len());
        self.ret_ty = Some(ret.clone());
        self.budget = (self.o.budget / 3).max(12);
        self.self_sig = None;
        // protected: never shadowed, the result expression below mentions them by name
        for (x, t) in params.iter() {
            self.declare(x, t.clone(), false, true);
        }
        let mut body = vec![];
        let ns = self.rng.below(3) as usize;
        for _ in 0..ns {
            self.stmt(1, &mut body);
        }
        self.budget = self.budget.max(8);
        // the result mentions parameters from both ends of the list
        let tail = self.expr(&ret, 2);
        let first = params.iter().find(|(_, t)| *t == ret).map(|(x, _)| Expr::Var(x.clone()));
        let last = params.iter().rev().find(|(_, t)| *t == ret).map(|(x, _)| Expr::Var(x.clone()));
        let fin = match (&ret, first, last) {
            (Ty::Int, Some(a), Some(b)) => Expr::Bin(BinOp::Add, Box::new(Expr::Bin(BinOp::Sub, Box::new(a), Box::new(b))), Box::new(tail)),
            (Ty::Str, Some(a), Some(b)) => Expr::Bin(BinOp::Concat, Box::new(Expr::Bin(BinOp::Concat, Box::new(a), Box::new(b))), Box::new(tail)),
            (Ty::Bool, Some(a), Some(b)) => Expr::Bin(BinOp::Or, Box::new(Expr::Bin(BinOp::And, Box::new(a), Box::new(b))), Box::new(tail)),
            _ => tail,
        };
        body.push(Stmt::Expr(fin));
        self.cur_fn = None;
        self.ret_ty = None;
        self.prog.fns.push(FnDef { name, params, ret, body: Expr::Block(body) });
    }

    pub fn program(mut self) -> (Program, std::collections::BTreeMap<&'static str, u64>) {
        if self.tier() >= 1 {
            self.gen_defs();
        }
        if self.tier() >= 3 {
            let ng = self.rng.below(3) as usize;
            for k in 0..ng {
                let np = 1 + self.rng.below(2) as usize;
                self.gen_leaf_fn(format!("gv{k}"), np);
            }
        }
        let mut wide: Option<FnDef> = None;
        if self.tier() >= 2 {
            if self.rng.chance(1, 5) {
                // more than CallData::MAX_NARGS = 31 parameters: the call goes through a function object
                let n = 32 + self.rng.below(6) as usize;
                self.gen_leaf_fn("fw0".into(), n);
                wide = self.prog.fns.last().cloned();
                self.hit("wide_fn");
            }
            let nf = 1 + self.rng.below(3) as usize;
            for k in 0..nf {
                self.gen_fn(k);
            }
            // typed constructors (a bare `option.none` / `result.ok(v)` cannot be typed without context)
            for t in [Ty::Int, Ty::Str, Ty::Unit] {
                self.prog.fns.push(FnDef {
                    name: format!("none_{}", helper_suffix(&t)),
                    params: vec![],
                    ret: Ty::Opt(Box::new(t)),
                    body: Expr::Block(vec![Stmt::Expr(Expr::Variant("option".into(), "none".into(), vec![]))]),
                });
            }
            self.prog.fns.push(FnDef {
                name: "ok_int".into(),
                params: vec![("v".into(), Ty::Int)],
                ret: Ty::Res(Box::new(Ty::Int)),
                body: Expr::Block(vec![Stmt::Expr(Expr::Variant("result".into(), "ok".into(), vec![Expr::Var("v".into())]))]),
            });
            self.prog.fns.push(FnDef {
                name: "err_int".into(),
                params: vec![("m".into(), Ty::Str)],
                ret: Ty::Res(Box::new(Ty::Int)),
                body: Expr::Block(vec![Stmt::Expr(Expr::Variant("result".into(), "err".into(), vec![Expr::Var("m".into())]))]),
            });
        }
        self.scopes = vec![vec![]];
        self.capture_floor = 0;
        self.visible_floor = 0;
        self.loop_depth = 0;
        self.depth = 0;
        self.lambda_depth = 0;
        self.budget = self.o.budget;
        let mut main = vec![];
        if let Some(f) = wide {
            // the wide function is called at least once, with operands already pending when its arguments are pushed
            let b = self.budget;
            let mut args = vec![];
            self.depth = 1;
            for (_, t) in &f.params {
                args.push(if *t == Ty::Unit { Expr::Unit } else { self.expr(t, 0) });
            }
            self.depth = 0;
            self.budget = b;
            let x = self.fresh("v");
            let call = Expr::Call(f.name.clone(), args);
            let init = match &f.ret {
                Ty::Int => Expr::Bin(BinOp::Add, Box::new(Expr::Int(1)), Box::new(call)),
                Ty::Str => Expr::Bin(BinOp::Concat, Box::new(Expr::Str("w".into())), Box::new(call)),
                _ => call,
            };
            main.push(Stmt::Let(false, Pat::Bind(x.clone()), None, init));
            self.declare(&x, f.ret.clone(), false, false);
        }
        let n = self.o.stmts;
        for _ in 0..n {
            if self.budget <= 0 {
                break;
            }
            self.stmt(3, &mut main);
        }
        // final expression: int / bool / string (observable through `Runtime::top`) or none
        if self.rng.chance(5, 6) {
            let t = self.scalar();
            self.budget = self.budget.max(6);
            main.push(Stmt::Expr(self.expr(&t, 2)));
            self.prog.final_ty = Some(t);
        } else {
            self.prog.final_ty = None;
            // make sure the last statement is not a valued expression
            main.push(Stmt::Expr(Expr::Print(Box::new(Expr::Int(0)))));
        }
        self.prog.main = main;
        (self.prog, self.feature_hist)
    }
}

pub fn generate(rng: &mut Rng, o: GenOpts) -> (Program, std::collections::BTreeMap<&'static str, u64>) {
    Gen::new(rng, o).program()
}

// ------------------------------------------------------------------------------------------------
// shrinking: candidate programs that are one step smaller
// ------------------------------------------------------------------------------------------------
fn shrink_stmts(ss: &[Stmt], out: &mut Vec<Vec<Stmt>>) {
    // drop one statement
    for i in 0..ss.len() {
        let mut v = ss.to_vec();
        v.remove(i);
        out.push(v);
    }
    // shrink inside one statement
    for i in 0..ss.len() {
        let mut alts: Vec<Stmt> = vec![];
        shrink_stmt(&ss[i], &mut alts);
        for a in alts {
            let mut v = ss.to_vec();
            v[i] = a;
            out.push(v);
        }
        // splice the body of a loop / block / if in place of the statement
        let inner: Vec<Vec<Stmt>> = match &ss[i] {
            Stmt::While(_, b) | Stmt::For(_, _, b) => vec![b.clone()],
            Stmt::Expr(Expr::Block(b)) => vec![b.clone()],
            Stmt::Expr(Expr::If(_, t, f)) => match (&**t, &**f) {
                (Expr::Block(t), Expr::Block(f)) => vec![t.clone(), f.clone()],
                _ => vec![],
            },
            _ => vec![],
        };
        for b in inner {
            let mut v = ss[..i].to_vec();
            v.extend(b);
            v.extend_from_slice(&ss[i + 1..]);
            out.push(v);
        }
    }
}

fn shrink_stmt(s: &Stmt, out: &mut Vec<Stmt>) {
    let with_e = |e: &Expr, f: &dyn Fn(Expr) -> Stmt, out: &mut Vec<Stmt>| {
        let mut es = vec![];
        shrink_expr(e, &mut es);
        for x in es {
            out.push(f(x));
        }
    };
    match s {
        Stmt::Let(m, p, a, e) => with_e(e, &|x| Stmt::Let(*m, p.clone(), a.clone(), x), out),
        Stmt::Assign(v, o, e) => with_e(e, &|x| Stmt::Assign(v.clone(), *o, x), out),
        Stmt::AssignField(ob, f, o, e) => with_e(e, &|x| Stmt::AssignField(ob.clone(), f.clone(), *o, x), out),
        Stmt::AssignIndex(a, i, o, e) => with_e(e, &|x| Stmt::AssignIndex(a.clone(), i.clone(), *o, x), out),
        Stmt::Expr(e) => with_e(e, &|x| Stmt::Expr(x), out),
        Stmt::While(c, b) => {
            let mut bs = vec![];
            shrink_stmts(b, &mut bs);
            for x in bs {
                out.push(Stmt::While(c.clone(), x));
            }
            with_e(c, &|x| Stmt::While(x, b.clone()), out);
        }
        Stmt::For(p, it, b) => {
            let mut bs = vec![];
            shrink_stmts(b, &mut bs);
            for x in bs {
                out.push(Stmt::For(p.clone(), it.clone(), x));
            }
            with_e(it, &|x| Stmt::For(p.clone(), x, b.clone()), out);
        }
        Stmt::Ret(e) => with_e(e, &|x| Stmt::Ret(x), out),
        Stmt::Break | Stmt::Continue => {}
    }
}

fn shrink_expr(e: &Expr, out: &mut Vec<Expr>) {
    let b = |x: Expr| Box::new(x);
    let sub = |x: &Expr| {
        let mut v = vec![];
        shrink_expr(x, &mut v);
        v
    };
    let list = |es: &[Expr], mk: &dyn Fn(Vec<Expr>) -> Expr, out: &mut Vec<Expr>| {
        for i in 0..es.len() {
            for x in sub(&es[i]) {
                let mut v = es.to_vec();
                v[i] = x;
                out.push(mk(v));
            }
        }
    };
    match e {
        Expr::Int(n) => {
            if *n != 0 {
                out.push(Expr::Int(0));
                if n.unsigned_abs() > 1 {
                    out.push(Expr::Int(n / 2));
                    out.push(Expr::Int(if *n > 0 { 1 } else { -1 }));
                }
            }
        }
        Expr::Bool(_) | Expr::Unit | Expr::Var(_) | Expr::FnRef(_) | Expr::CtorRef(_) => {}
        Expr::Str(s) => {
            if !s.is_empty() {
                out.push(Expr::Str(String::new()));
            }
        }
        Expr::Un(o, a) => {
            out.push((**a).clone());
            for x in sub(a) {
                out.push(Expr::Un(*o, b(x)));
            }
        }
        Expr::Bin(o, l, r) => {
            // same-typed operands can replace the whole expression
            if matches!(o, BinOp::Add | BinOp::Sub | BinOp::Mul | BinOp::Div | BinOp::Mod | BinOp::Pow | BinOp::And | BinOp::Or) {
                out.push((**l).clone());
                out.push((**r).clone());
            }
            for x in sub(l) {
                out.push(Expr::Bin(*o, b(x), r.clone()));
            }
            for x in sub(r) {
                out.push(Expr::Bin(*o, l.clone(), b(x)));
            }
        }
        Expr::If(c, t, f) => {
            out.push((**t).clone());
            out.push((**f).clone());
            for x in sub(c) {
                out.push(Expr::If(b(x), t.clone(), f.clone()));
            }
            // the branches of an `if` stay blocks
            for x in sub(t) {
                if matches!(x, Expr::Block(_)) {
                    out.push(Expr::If(c.clone(), b(x), f.clone()));
                }
            }
            for x in sub(f) {
                if matches!(x, Expr::Block(_)) {
                    out.push(Expr::If(c.clone(), t.clone(), b(x)));
                }
            }
        }
        Expr::Block(ss) => {
            if let [Stmt::Expr(x)] = ss.as_slice() {
                out.push(x.clone());
            }
            let mut bs = vec![];
            shrink_stmts(ss, &mut bs);
            for x in bs {
                out.push(Expr::Block(x));
            }
        }
        Expr::Print(a) => {
            for x in sub(a) {
                out.push(Expr::Print(b(x)));
            }
        }
        Expr::Tuple(es) => list(es, &|v| Expr::Tuple(v), out),
        Expr::Mk(n, es) => list(es, &|v| Expr::Mk(n.clone(), v), out),
        Expr::Variant(p, c, es) => list(es, &|v| Expr::Variant(p.clone(), c.clone(), v), out),
        Expr::Array(es) => {
            for i in 0..es.len() {
                let mut v = es.clone();
                v.remove(i);
                out.push(Expr::Array(v));
            }
            list(es, &|v| Expr::Array(v), out)
        }
        Expr::Call(f, es) => list(es, &|v| Expr::Call(f.clone(), v), out),
        Expr::CallV(f, es) => list(es, &|v| Expr::CallV(f.clone(), v), out),
        Expr::Field(o, f) => {
            for x in sub(o) {
                out.push(Expr::Field(b(x), f.clone()));
            }
        }
        Expr::Match(s, arms) => {
            for (_, body) in arms {
                out.push(body.clone());
            }
            for x in sub(s) {
                out.push(Expr::Match(b(x), arms.clone()));
            }
            for i in 0..arms.len() {
                for x in sub(&arms[i].1) {
                    let mut v = arms.clone();
                    v[i].1 = x;
                    out.push(Expr::Match(s.clone(), v));
                }
            }
        }
        Expr::Index(a, i) => {
            for x in sub(i) {
                out.push(Expr::Index(a.clone(), b(x)));
            }
            for x in sub(a) {
                out.push(Expr::Index(b(x), i.clone()));
            }
        }
        Expr::Len(a) => {
            for x in sub(a) {
                out.push(Expr::Len(b(x)));
            }
        }
        Expr::Push(a, v) => {
            for x in sub(v) {
                out.push(Expr::Push(a.clone(), b(x)));
            }
        }
        Expr::Pop(_) => {}
        Expr::Lam(ps, body) => {
            for x in sub(body) {
                out.push(Expr::Lam(ps.clone(), b(x)));
            }
        }
        Expr::Try(a) => {
            for x in sub(a) {
                out.push(Expr::Try(b(x)));
            }
        }
        Expr::Unwrap(a) => {
            for x in sub(a) {
                out.push(Expr::Unwrap(b(x)));
            }
        }
        Expr::Task(a) => {
            for x in sub(a) {
                if matches!(x, Expr::Block(_)) {
                    out.push(Expr::Task(b(x)));
                }
            }
        }
    }
}

/// programs one shrinking step away from `p` (may be ill-typed: callers discard rejected ones)
/// candidates of `shrink_candidates_raw`; a panic in the shrinker itself never takes the harness down (the failing
/// program is then reported unshrunk)
pub fn shrink_candidates(p: &Program) -> Vec<Program> {
    std::panic::catch_unwind(std::panic::AssertUnwindSafe(|| shrink_candidates_raw(p))).unwrap_or_default()
}

fn shrink_candidates_raw(p: &Program) -> Vec<Program> {
    let mut out = vec![];
    let mut mains = vec![];
    shrink_stmts(&p.main, &mut mains);
    for m in mains {
        let mut q = p.clone();
        // the final-value observation only makes sense while the last statement is unchanged
        if m.last() != p.main.last() {
            q.final_ty = None;
        }
        q.main = m;
        out.push(q);
    }
    for i in 0..p.fns.len() {
        let mut q = p.clone();
        q.fns.remove(i);
        out.push(q);
        let mut bodies = vec![];
        shrink_expr(&p.fns[i].body, &mut bodies);
        for b in bodies {
            if matches!(b, Expr::Block(_)) {
                let mut q = p.clone();
                q.fns[i].body = b;
                out.push(q);
            }
        }
    }
    out
}

// ------------------------------------------------------------------------------------------------
// resolution: the generator's AST with every variable use replaced by the id of its binder
// (S-expression for the `analysis` driver, lean/AbraModel/Drv/Analysis.lean)
// ------------------------------------------------------------------------------------------------
pub struct Resolver {
    env: Vec<(String, usize)>,
    next: usize,
    pub calls: Vec<String>,
}

impl Resolver {
    pub fn new() -> Self {
        Resolver { env: vec![], next: 1, calls: vec![] }
    }
    fn fresh(&mut self, name: &str) -> usize {
        let id = self.next;
        self.next += 1;
        self.env.push((name.to_string(), id));
        id
    }
    fn fresh_hidden(&mut self) -> usize {
        let id = self.next;
        self.next += 1;
        id
    }
    fn lookup(&self, name: &str) -> Option<usize> {
        self.env.iter().rev().find(|(n, _)| n == name).map(|(_, i)| *i)
    }
    fn pat_names(p: &Pat, out: &mut Vec<String>) {
        match p {
            Pat::Bind(x) => out.push(x.clone()),
            Pat::Tuple(ps) | Pat::Struct(_, ps) | Pat::Variant(_, ps) => ps.iter().for_each(|p| Self::pat_names(p, out)),
            _ => {}
        }
    }
    fn bind_pat(&mut self, p: &Pat) -> String {
        let mut names = vec![];
        Self::pat_names(p, &mut names);
        let ids: Vec<String> = names.iter().map(|n| self.fresh(n).to_string()).collect();
        format!("( ids {} )", ids.join(" "))
    }
    fn op(&mut self, es: &[&Expr]) -> String {
        let parts: Vec<String> = es.iter().map(|e| self.expr(e)).collect();
        format!("( op {} )", parts.join(" "))
    }
    pub fn expr(&mut self, e: &Expr) -> String {
        match e {
            Expr::Int(_) | Expr::Bool(_) | Expr::Str(_) | Expr::Unit => "( lit )".into(),
            Expr::Var(x) => match self.lookup(x) {
                Some(i) => format!("( var {i} )"),
                None => "( lit )".into(),
            },
            Expr::Un(_, a) | Expr::Print(a) | Expr::Len(a) | Expr::Pop(a) | Expr::Try(a) | Expr::Unwrap(a) | Expr::Field(a, _) => self.op(&[a]),
            Expr::Bin(_, a, b) | Expr::Index(a, b) | Expr::Push(a, b) => self.op(&[a, b]),
            Expr::Tuple(es) | Expr::Mk(_, es) | Expr::Variant(_, _, es) | Expr::Array(es) => self.op(&es.iter().collect::<Vec<_>>()),
            Expr::Call(f, es) => {
                self.calls.push(f.clone());
                self.op(&es.iter().collect::<Vec<_>>())
            }
            Expr::CallV(f, es) => {
                let mut v: Vec<&Expr> = es.iter().collect();
                v.push(f);
                self.op(&v)
            }
            Expr::If(c, t, f) => format!("( if {} {} {} )", self.expr(c), self.expr(t), self.expr(f)),
            Expr::Block(ss) => {
                let n = self.env.len();
                let parts: Vec<String> = ss.iter().map(|s| self.stmt(s)).collect();
                self.env.truncate(n);
                format!("( block {} )", parts.join(" "))
            }
            Expr::Match(s, arms) => {
                let sc = self.expr(s);
                let mut parts = vec![];
                for (p, body) in arms {
                    let n = self.env.len();
                    let ids = self.bind_pat(p);
                    let b = self.expr(body);
                    self.env.truncate(n);
                    parts.push(format!("( arm {ids} {b} )"));
                }
                format!("( match {sc} {} )", parts.join(" "))
            }
            Expr::Lam(ps, body) => {
                let n = self.env.len();
                let ids: Vec<String> = ps.iter().map(|(x, _)| self.fresh(x).to_string()).collect();
                let b = self.expr(body);
                self.env.truncate(n);
                format!("( lam ( params {} ) {b} )", ids.join(" "))
            }
            Expr::Task(body) => format!("( task {} )", self.expr(body)),
            // a named function / constructor as a value captures nothing and owns no slot
            Expr::FnRef(f) => {
                self.calls.push(f.clone());
                "( lit )".into()
            }
            Expr::CtorRef(_) => "( lit )".into(),
        }
    }
    pub fn stmt(&mut self, s: &Stmt) -> String {
        match s {
            Stmt::Let(_, p, _, e) => {
                let r = self.expr(e);
                let ids = self.bind_pat(p);
                format!("( let {ids} {r} )")
            }
            Stmt::Assign(x, _, e) => {
                let r = self.expr(e);
                match self.lookup(x) {
                    Some(i) => format!("( assignv {i} {r} )"),
                    None => format!("( expr {r} )"),
                }
            }
            Stmt::AssignField(o, _, op, e) => {
                // a compound form keeps the object in a hidden temporary that owns a slot
                let temps = if *op != AsgOp::Set { format!("{}", self.fresh_hidden()) } else { String::new() };
                let t = self.op(&[o]);
                format!("( assignp ( ids {temps} ) {t} {} )", self.expr(e))
            }
            Stmt::AssignIndex(a, i, op, e) => {
                let temps = if *op != AsgOp::Set { format!("{} {}", self.fresh_hidden(), self.fresh_hidden()) } else { String::new() };
                let t = self.op(&[a, i]);
                format!("( assignp ( ids {temps} ) {t} {} )", self.expr(e))
            }
            Stmt::Expr(e) => format!("( expr {} )", self.expr(e)),
            Stmt::While(c, b) => {
                let rc = self.expr(c);
                let n = self.env.len();
                let parts: Vec<String> = b.iter().map(|s| self.stmt(s)).collect();
                self.env.truncate(n);
                format!("( while {rc} {} )", parts.join(" "))
            }
            Stmt::For(p, it, b) => {
                let ri = self.expr(it);
                let n = self.env.len();
                let ids = self.bind_pat(p);
                let parts: Vec<String> = b.iter().map(|s| self.stmt(s)).collect();
                self.env.truncate(n);
                format!("( for {ids} {ri} {} )", parts.join(" "))
            }
            Stmt::Break => "( break )".into(),
            Stmt::Continue => "( continue )".into(),
            Stmt::Ret(e) => format!("( ret {} )", self.expr(e)),
        }
    }
}

/// `analysis` request for a program: `main` and every function reachable from it by calls
pub fn analysis_request(p: &Program) -> String {
    let mut bodies: Vec<String> = vec![];
    let mut r = Resolver::new();
    let main = r.expr(&Expr::Block(p.main.clone()));
    bodies.push(format!("( body ( params ) {main} )"));
    let mut todo: Vec<String> = std::mem::take(&mut r.calls);
    let mut done: Vec<String> = vec![];
    while let Some(f) = todo.pop() {
        if done.contains(&f) {
            continue;
        }
        done.push(f.clone());
        if let Some(fd) = p.fns.iter().find(|d| d.name == f) {
            let mut r = Resolver::new();
            r.next = 100_000 * done.len();
            let ids: Vec<String> = fd.params.iter().map(|(x, _)| r.fresh(x).to_string()).collect();
            let b = r.expr(&fd.body);
            bodies.push(format!("( body ( params {} ) {b} )", ids.join(" ")));
            todo.extend(r.calls);
        }
    }
    let s = format!("analysis ( bodies {} )", bodies.join(" "));
    s.split_whitespace().collect::<Vec<_>>().join(" ")
}

/// `loopctx` request: does the checker model accept the program's use of break/continue (and captured assignment)?
pub fn loopctx_request(p: &Program) -> String {
    analysis_request(p).replacen("analysis", "loopctx", 1)
}

/// the same observable read off the real unoptimised assembly: for every `make_closure n` / `spawn_task n L`
/// the pair n : (operand of the `push_nil` that opens the function's code), sorted
pub fn closures_of_assembly(lines: &[String]) -> String {
    let t: Vec<&str> = lines.iter().map(|l| l.trim()).collect();
    let label_pos = |name: &str| t.iter().position(|l| l.strip_suffix(':') == Some(name));
    let nlocals = |name: &str| -> Option<usize> {
        let i = label_pos(name)?;
        t[i + 1..].iter().find(|l| !l.ends_with(':')).and_then(|l| l.strip_prefix("push_nil ")).and_then(|n| n.parse().ok())
    };
    let mut pairs: Vec<(usize, usize)> = vec![];
    for (i, l) in t.iter().enumerate() {
        if let Some(n) = l.strip_prefix("make_closure ") {
            let n: usize = n.parse().unwrap_or(0);
            // push_addr sits n lines (the loads) above
            if i >= n + 1 {
                if let Some(name) = t[i - n - 1].strip_prefix("push_addr ") {
                    // only lambdas: named functions used as values are not generated by the streams
                    if name.starts_with("<lambda>") {
                        if let Some(m) = nlocals(name) {
                            pairs.push((n, m));
                        }
                    }
                }
            }
        } else if let Some(rest) = l.strip_prefix("spawn_task ") {
            let mut it = rest.splitn(2, ' ');
            if let (Some(n), Some(name)) = (it.next(), it.next()) {
                if let (Ok(n), Some(m)) = (n.parse::<usize>(), nlocals(name)) {
                    pairs.push((n, m));
                }
            }
        }
    }
    pairs.sort();
    pairs.iter().map(|(c, l)| format!("{c}:{l}")).collect::<Vec<_>>().join(" ")
}

// ------------------------------------------------------------------------------------------------
// running: the real implementation and the Lean model
// ------------------------------------------------------------------------------------------------
pub mod run {
    use super::*;
    use abra_core::vm::Runtime;
    use std::io::Write;
    use std::panic::{AssertUnwindSafe, catch_unwind};
    use vh::{Outcome, RunOpts, drive, panic_msg, provider};

    pub const MODEL_EXE: &str = "/verif/lean/.lake/build/bin/abra_model";
    pub const FUEL: u64 = 4000;

    #[derive(Clone, Debug, PartialEq)]
    pub struct Real {
        /// `done <final> <hex out>` | `error:<kind> - <hex out>` | `timeout` | `rejected` | `crash <msg>`
        pub answer: String,
        pub accepted: bool,
        pub detail: String,
    }

    pub fn final_compared(p: &Program) -> bool {
        matches!(p.final_ty, Some(Ty::Int) | Some(Ty::Bool) | Some(Ty::Str))
    }

    /// compile + run the real implementation; the final value is read from `Runtime::top` when the
    /// program ends with an int/bool/string expression
    pub fn run_real(src: &str, final_ty: &Option<Ty>, budgets: &[u32], max_steps: u64) -> Real {
        let prog = match catch_unwind(AssertUnwindSafe(|| abra_core::compile_bytecode("main.abra", provider(src, &[])))) {
            Err(p) => return Real { answer: format!("crash compile {}", one_line(&panic_msg(p))), accepted: true, detail: String::new() },
            Ok(Err(e)) => return Real { answer: "rejected".into(), accepted: false, detail: e.to_string() },
            Ok(Ok(p)) => p,
        };
        let mut rt = match catch_unwind(AssertUnwindSafe(|| Runtime::new(prog))) {
            Ok(rt) => rt,
            Err(p) => return Real { answer: format!("crash run {}", one_line(&panic_msg(p))), accepted: true, detail: String::new() },
        };
        let mut out = String::new();
        let opts = RunOpts { budgets: budgets.to_vec(), max_steps, files: vec![] };
        let r = catch_unwind(AssertUnwindSafe(|| drive(&mut rt, &opts, &mut out)));
        match r {
            Err(p) => {
                std::mem::forget(rt);
                Real { answer: format!("crash run {}", one_line(&panic_msg(p))), accepted: true, detail: String::new() }
            }
            Ok((o, et, _)) => {
                let hex = vh::hex(out.as_bytes());
                let answer = match o {
                    Outcome::Done => {
                        let fin = match final_ty {
                            Some(Ty::Int) => catch_unwind(AssertUnwindSafe(|| format!("int:{}", rt.top().get_int(rt.main())))).unwrap_or("int:?".into()),
                            Some(Ty::Bool) => catch_unwind(AssertUnwindSafe(|| format!("bool:{}", rt.top().get_bool(rt.main()) as u8))).unwrap_or("bool:?".into()),
                            Some(Ty::Str) => catch_unwind(AssertUnwindSafe(|| format!("str:{}", vh::hex(rt.top().view_string(rt.main()).as_bytes())))).unwrap_or("str:?".into()),
                            _ => "-".into(),
                        };
                        format!("done {fin} {hex}")
                    }
                    Outcome::Error(k) => format!("error:{k} - {hex}"),
                    Outcome::Timeout => "timeout".into(),
                    o => format!("other {}", o.tag()),
                };
                Real { answer, accepted: true, detail: et }
            }
        }
    }

    pub fn one_line(s: &str) -> String {
        s.replace(['\n', '\t', '\r'], " ").chars().take(160).collect()
    }

    pub fn sem_request(p: &Program, tag: &str) -> String {
        format!("sem {FUEL} {} {} #{tag}", if final_compared(p) { "final" } else { "nofinal" }, program_sx(p))
    }

    /// ask the compiled Lean model (the same executable `check` uses) for its answers
    pub fn model_batch(reqs: &[String]) -> Vec<String> {
        if reqs.is_empty() {
            return vec![];
        }
        let mut child = std::process::Command::new(MODEL_EXE)
            .stdin(std::process::Stdio::piped())
            .stdout(std::process::Stdio::piped())
            .spawn()
            .expect("model driver not built");
        let mut stdin = child.stdin.take().unwrap();
        let data = reqs.join("\n") + "\n";
        let h = std::thread::spawn(move || {
            let _ = stdin.write_all(data.as_bytes());
        });
        let out = child.wait_with_output().unwrap();
        let _ = h.join();
        let text = String::from_utf8_lossy(&out.stdout).to_string();
        let mut v: Vec<String> = text.lines().map(|l| l.to_string()).collect();
        v.resize(reqs.len(), "model-died".into());
        v
    }

    pub const BUDGET_SETS: [&[u32]; 4] = [&[1000], &[1], &[2, 3, 7], &[100]];
    pub const MAX_STEPS: u64 = 3_000_000;

    /// run under every budget set; the first answer and the list of all answers (crash texts without
    /// their traceback, whose line can differ with the slicing)
    pub fn real_all_budgets(src: &str, final_ty: &Option<Ty>) -> (Real, Vec<String>) {
        let mut answers = vec![];
        let mut first: Option<Real> = None;
        for b in BUDGET_SETS {
            let mut r = run_real(src, final_ty, b, MAX_STEPS);
            if !r.accepted || r.answer.starts_with("crash compile") {
                return (r, vec![]);
            }
            if let Some(i) = r.answer.find("[traceback]") {
                r.answer.truncate(i);
            }
            answers.push(r.answer.clone());
            if first.is_none() {
                first = Some(r);
            }
        }
        (first.unwrap(), answers)
    }

    /// is `p` still a failing program (accepted, and the implementation differs from the model)?
    pub fn still_fails(p: &Program) -> Option<(String, String)> {
        let src = program_src(p);
        let r = run_real(&src, &p.final_ty, &[1000], MAX_STEPS);
        if !r.accepted {
            return None;
        }
        let m = model_batch(&[sem_request(p, "shrink")]);
        if m[0].starts_with("stuck") || m[0] == "bad-op" || m[0] == "timeout" || m[0] == "model-died" {
            return None;
        }
        if r.answer != m[0] { Some((r.answer, m[0].clone())) } else { None }
    }

    pub fn shrink(p: &Program, mut limit: usize) -> Program {
        let mut cur = p.clone();
        'outer: loop {
            for c in shrink_candidates(&cur) {
                if limit == 0 {
                    break 'outer;
                }
                limit -= 1;
                if still_fails(&c).is_some() {
                    cur = c;
                    continue 'outer;
                }
            }
            break;
        }
        cur
    }

    /// Regression programs for the defects repaired in /repo (D16, D36/D37, D38, D39, D41, N6, N7, D59, D71): each must
    /// behave as the reference says — otherwise it is a failing input (`spec_fail` with the source).  The corresponding
    /// shapes are UNCONDITIONALLY part of the generators' main streams (nothing is gated on the outcome).
    pub fn probe_shapes(ctx: &mut vh::Ctx) -> GenOpts {
        let probes: [(&str, &str, &str); 10] = [
            ("D16 deep-capture", "let k = 10\nlet f = (a: int) -> {\n  let g = (b: int) -> a + b + k\n  g(1)\n}\nprintln(f(5))\n", "16\n"),
            ("D36 let-in-match-scrutinee", "let r = match { let t = 1\n t } {\n 1 -> 10\n _ -> 20\n}\nprintln(r)\n", "10\n"),
            ("D37 capture-only-in-scrutinee", "let k = 1\nlet f = (a: int) -> match k {\n 1 -> a\n _ -> 0\n}\nprintln(f(5))\n", "5\n"),
            ("D38 void-assignment", "var u = nil\nu = println(\"x\")\nprintln(\"y\")\n", "x\ny\n"),
            ("D39 for-binder-shadowing", "let a = 5\nfor a in 3 { }\nprintln(a)\n", "5\n"),
            ("D41 captured-assignment-target", "let arr = [1]\nlet f = (a: int) -> {\n arr[0] = a\n 0\n}\nf(5)\nprintln(arr)\n", "[ 5 ]\n"),
            ("N6 never-typed-if-as-value", "fn g(n: int) -> int {\n  let u = if false { return 0 } else { }\n  1\n}\nprintln(g(0))\n", "1\n"),
            ("N7 let-in-assignment-target", "let arr = [1, 2]\narr[{ let i = 1\n i }] = 5\nprintln(arr)\n", "[ 1, 5 ]\n"),
            ("D59 compound-target-once", "let arr = [1, 2]\nvar c = 0\nfn idx() -> int {\n  println(\"i\")\n  0\n}\narr[idx()] += 4\nprintln(arr)\n", "i\n[ 5, 2 ]\n"),
            ("D71 try-on-void-payload", "fn f(x: option<void>, n: int) -> option<int> {\n  let r = 10 + { x?\n n }\n  option.some(r)\n}\nprintln(f(option.some(nil), 3))\n", "some(13)\n"),
        ];
        for (name, src, expect) in probes {
            let r = vh::run_program(src);
            if r.outcome == Outcome::Done && r.out == expect {
                ctx.count(&format!("regression:{}:ok", name.split(' ').next().unwrap_or(name)));
            } else {
                ctx.count(&format!("regression:{}:FAILS", name.split(' ').next().unwrap_or(name)));
                ctx.spec_fail(format!(
                    "regression of a repaired defect ({name}): outcome {} output {:?}, the reference gives {:?}\n{src}",
                    r.outcome.tag(),
                    r.out,
                    expect
                ));
            }
        }
        GenOpts {
            avoid_void_try: false,
            deep_capture: true,
            avoid_scrutinee_bugs: false,
            avoid_void_assign: false,
            avoid_for_shadow: false,
            avoid_captured_target: false,
            avoid_never_value: false,
            ..Default::default()
        }
    }

    /// the unoptimised assembly (Display form, element 0 of the optimizer trace) of a program
    pub fn real_assembly(src: &str) -> Result<Vec<String>, String> {
        abra_core::verif_asm::start_optimize_trace();
        let r = catch_unwind(AssertUnwindSafe(|| abra_core::compile_bytecode("main.abra", provider(src, &[]))));
        let tr = abra_core::verif_asm::take_optimize_trace_display();
        match r {
            Ok(Ok(_)) => {}
            Ok(Err(_)) => return Err("rejected".into()),
            Err(_) => return Err("crash".into()),
        }
        tr.into_iter().next().ok_or_else(|| "no-trace".to_string())
    }
}
