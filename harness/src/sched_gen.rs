//! Program generators shared by C08–C11 (included with `#[path]`): single-thread programs
//! (arithmetic, loops, strings, arrays, function calls, prints, occasional runtime errors) and
//! producer/consumer programs (≤ 3 tasks, ≤ 3 channels, scalar and heap payloads, one printing thread,
//! every channel with exactly one writer and one reader — the Kahn discipline under which output is
//! schedule independent).
#![allow(dead_code)]
use std::fmt::Write as _;
use vh::Rng;

pub struct Gen<'a> {
    pub rng: &'a mut Rng,
    ints: usize,
    strs: usize,
    arrs: usize,
    fresh: usize,
    pub allow_errors: bool,
    /// kinds of statements produced (for the histogram)
    pub kinds: Vec<&'static str>,
}

const FUNCS: &str = r#"fn add3(a: int, b: int) -> int {
  a + b * 3
}
fn fib(n: int) -> int {
  if n < 2 { n } else { fib(n - 1) + fib(n - 2) }
}
fn strrep(s: string, n: int) -> string {
  var r = ""
  for i in n {
    r = r .. s
  }
  r
}
fn sumto(n: int) -> int {
  var acc = 0
  var i = 0
  while i < n {
    acc = acc + i
    i = i + 1
  }
  acc
}
fn pick(b: bool, x: int, y: int) -> int {
  if b { x } else { y }
}
"#;

impl<'a> Gen<'a> {
    pub fn new(rng: &'a mut Rng) -> Self {
        Gen { rng, ints: 0, strs: 0, arrs: 0, fresh: 0, allow_errors: true, kinds: vec![] }
    }
    fn int_atom(&mut self) -> String {
        if self.ints > 0 && self.rng.chance(2, 3) {
            format!("v{}", self.rng.below(self.ints as u64))
        } else {
            format!("{}", self.rng.range(0, 20))
        }
    }
    pub fn int_expr(&mut self, depth: u32) -> String {
        if depth == 0 || self.rng.chance(1, 3) {
            return self.int_atom();
        }
        let a = self.int_expr(depth - 1);
        let b = self.int_expr(depth - 1);
        match self.rng.below(9) {
            0 => format!("({a} + {b})"),
            1 => format!("({a} - {b})"),
            2 => format!("({a} * {b})"),
            3 => format!("({a} / ({b} % 7 + 8))"),
            4 => format!("({a} % ({b} % 5 + 6))"),
            5 => format!("add3({a}, {b})"),
            6 => format!("fib({a} % 7)"),
            7 => format!("sumto({a} % 9)"),
            _ => {
                if self.arrs > 0 {
                    format!("a{}.len()", self.rng.below(self.arrs as u64))
                } else {
                    format!("pick({a} < {b}, {a}, {b})")
                }
            }
        }
    }
    fn bool_expr(&mut self) -> String {
        let a = self.int_expr(1);
        let b = self.int_expr(1);
        match self.rng.below(6) {
            0 => format!("{a} < {b}"),
            1 => format!("{a} == {b}"),
            2 => format!("{a} >= {b}"),
            3 if self.strs >= 1 => {
                let s = self.rng.below(self.strs as u64);
                let t = self.rng.below(self.strs as u64);
                format!("s{s} < s{t}")
            }
            4 if self.strs >= 1 => {
                let s = self.rng.below(self.strs as u64);
                let t = self.rng.below(self.strs as u64);
                format!("s{s} == s{t}")
            }
            _ => format!("{a} != {b}"),
        }
    }
    fn str_expr(&mut self) -> String {
        let lits = ["\"\"", "\"a\"", "\"ab\"", "\"hello\"", "\"héllo wörld\"", "\"0123456789\"", "\"x\\ny\""];
        match self.rng.below(6) {
            0 | 1 if self.strs > 0 => format!("s{}", self.rng.below(self.strs as u64)),
            2 => {
                let e = self.int_expr(1);
                format!("(\"n=\" .. {e})")
            }
            3 => {
                let l = *self.rng.pick(&lits);
                let n = self.rng.range(0, 4);
                format!("strrep({l}, {n})")
            }
            4 if self.strs > 0 => {
                let l = *self.rng.pick(&lits);
                format!("(s{} .. {l})", self.rng.below(self.strs as u64))
            }
            _ => self.rng.pick(&lits).to_string(),
        }
    }
    pub fn stmt(&mut self, out: &mut String, ind: usize, depth: u32) {
        let pad = "  ".repeat(ind);
        let k = self.rng.below(if depth == 0 { 9 } else { 13 });
        match k {
            0 => {
                let e = self.int_expr(2);
                writeln!(out, "{pad}var v{} = ({e}) % 1000", self.ints).unwrap();
                self.ints += 1;
                self.kinds.push("let-int");
            }
            1 if self.ints > 0 => {
                let v = self.rng.below(self.ints as u64);
                let e = self.int_expr(2);
                let op = *self.rng.pick(&["=", "+=", "-=", "="]);
                writeln!(out, "{pad}v{v} {op} ({e}) % 1000").unwrap();
                self.kinds.push("assign-int");
            }
            2 => {
                let e = self.str_expr();
                writeln!(out, "{pad}var s{} = {e}", self.strs).unwrap();
                self.strs += 1;
                self.kinds.push("let-str");
            }
            3 if self.strs > 0 => {
                let v = self.rng.below(self.strs as u64);
                let e = self.str_expr();
                writeln!(out, "{pad}s{v} = s{v} .. {e}").unwrap();
                self.kinds.push("concat");
            }
            4 => {
                let n = self.rng.below(4);
                let elems: Vec<String> = (0..n).map(|_| self.int_expr(1)).collect();
                if n == 0 {
                    writeln!(out, "{pad}let a{}: array<int> = []", self.arrs).unwrap();
                } else {
                    writeln!(out, "{pad}let a{} = [{}]", self.arrs, elems.join(", ")).unwrap();
                }
                self.arrs += 1;
                self.kinds.push("let-arr");
            }
            5 if self.arrs > 0 => {
                let a = self.rng.below(self.arrs as u64);
                let e = self.int_expr(1);
                match self.rng.below(3) {
                    0 | 1 => writeln!(out, "{pad}a{a}.push({e})").unwrap(),
                    _ => writeln!(out, "{pad}if a{a}.len() > 0 {{\n{pad}  a{a}[({e}) % a{a}.len()] = a{a}[0] + 1\n{pad}}}").unwrap(),
                }
                self.kinds.push("arr-op");
            }
            6 => {
                let what = match self.rng.below(4) {
                    0 => self.int_expr(2),
                    1 => self.str_expr(),
                    2 if self.arrs > 0 => format!("a{}", self.rng.below(self.arrs as u64)),
                    _ => self.bool_expr(),
                };
                let f = *self.rng.pick(&["println", "println", "print"]);
                writeln!(out, "{pad}{f}({what})").unwrap();
                self.kinds.push("print");
            }
            7 if self.allow_errors && self.rng.chance(1, 6) => {
                match self.rng.below(4) {
                    0 => {
                        let e = self.int_expr(1);
                        writeln!(out, "{pad}println(({e}) / (({e}) - ({e})))").unwrap();
                        self.kinds.push("err-div");
                    }
                    1 if self.arrs > 0 => {
                        let a = self.rng.below(self.arrs as u64);
                        writeln!(out, "{pad}println(a{a}[a{a}.len() + 1])").unwrap();
                        self.kinds.push("err-oob");
                    }
                    2 => {
                        let e = self.str_expr();
                        writeln!(out, "{pad}if {} {{\n{pad}  panic(\"boom \" .. {e})\n{pad}}}", self.bool_expr()).unwrap();
                        self.kinds.push("err-panic");
                    }
                    _ => {
                        let e = self.int_expr(1);
                        writeln!(out, "{pad}println(9223372036854775807 + ({e}))").unwrap();
                        self.kinds.push("err-overflow");
                    }
                }
            }
            8 => {
                let e = self.bool_expr();
                writeln!(out, "{pad}println({e})").unwrap();
                self.kinds.push("print-bool");
            }
            9 => {
                let c = self.bool_expr();
                writeln!(out, "{pad}if {c} {{").unwrap();
                self.block(out, ind + 1, depth - 1);
                if self.rng.chance(1, 2) {
                    writeln!(out, "{pad}}} else {{").unwrap();
                    self.block(out, ind + 1, depth - 1);
                }
                writeln!(out, "{pad}}}").unwrap();
                self.kinds.push("if");
            }
            10 => {
                let c = self.fresh;
                self.fresh += 1;
                let n = self.rng.range(0, 5);
                writeln!(out, "{pad}var c{c} = 0\n{pad}while c{c} < {n} {{").unwrap();
                self.block(out, ind + 1, depth - 1);
                writeln!(out, "{pad}  c{c} = c{c} + 1\n{pad}}}").unwrap();
                self.kinds.push("while");
            }
            11 => {
                let c = self.fresh;
                self.fresh += 1;
                let n = self.rng.range(0, 4);
                writeln!(out, "{pad}for i{c} in {n} {{").unwrap();
                self.block(out, ind + 1, depth - 1);
                writeln!(out, "{pad}}}").unwrap();
                self.kinds.push("for");
            }
            _ => {
                let e = self.int_expr(2);
                writeln!(out, "{pad}println({e})").unwrap();
                self.kinds.push("print-int");
            }
        }
    }
    /// statements inside a block must not declare variables that outlive it (scoping): counters only
    fn block(&mut self, out: &mut String, ind: usize, depth: u32) {
        let (i, s, a) = (self.ints, self.strs, self.arrs);
        let n = self.rng.range(1, 3);
        for _ in 0..n {
            self.stmt(out, ind, depth);
        }
        self.ints = i;
        self.strs = s;
        self.arrs = a;
    }
    /// a whole single-thread program ending in a final expression
    pub fn single(&mut self) -> String {
        let mut out = String::from(FUNCS);
        let n = self.rng.range(3, 10);
        for _ in 0..n {
            self.stmt(&mut out, 0, 2);
        }
        match self.rng.below(4) {
            0 => {
                let e = self.int_expr(2);
                writeln!(out, "{e}").unwrap();
            }
            1 => {
                let e = self.str_expr();
                writeln!(out, "{e}").unwrap();
            }
            2 => {
                let e = self.bool_expr();
                writeln!(out, "{e}").unwrap();
            }
            _ => {}
        }
        out
    }
}

// ------------------------------------------------------------------ producer / consumer programs

#[derive(Clone, Copy, Debug, PartialEq)]
pub enum Payload {
    Int,
    Bool,
    Float,
    Str,
    Tuple,
    Struct,
    Array,
}
impl Payload {
    pub fn is_heap(self) -> bool {
        matches!(self, Payload::Str | Payload::Tuple | Payload::Struct | Payload::Array)
    }
    pub fn ty(self) -> &'static str {
        match self {
            Payload::Int => "int",
            Payload::Bool => "bool",
            Payload::Float => "float",
            Payload::Str => "string",
            Payload::Tuple => "(int, string)",
            Payload::Struct => "Box",
            Payload::Array => "array<int>",
        }
    }
    /// expression building the i-th payload from the int expression `i`
    pub fn make(self, i: &str) -> String {
        match self {
            Payload::Int => format!("({i}) * 3 + 1"),
            Payload::Bool => format!("({i}) % 2 == 0"),
            Payload::Float => format!("({i}).to_float() * 0.5"),
            Payload::Str => format!("\"item-\" .. ({i})"),
            Payload::Tuple => format!("(({i}), \"t\" .. ({i}))"),
            Payload::Struct => format!("Box(({i}), \"b\" .. ({i}))"),
            Payload::Array => format!("[({i}), ({i}) + 1, ({i}) * 2]"),
        }
    }
    /// expression turning a received payload `x` into a string
    pub fn show(self, x: &str) -> String {
        match self {
            Payload::Int | Payload::Bool | Payload::Float | Payload::Str | Payload::Array => format!("\"\" .. {x}"),
            Payload::Tuple => format!("\"\" .. {x}"),
            Payload::Struct => format!("{x}.v .. \":\" .. {x}.s"),
        }
    }
    /// expression mapping a received payload to an int digest (for relaying as a scalar)
    pub fn digest(self, x: &str) -> String {
        match self {
            Payload::Int => format!("{x} + 100"),
            Payload::Bool => format!("pick({x}, 1, 0)"),
            Payload::Float => format!("({x} * 2.0).to_int()"),
            Payload::Str => format!("strlen_ish({x})"),
            Payload::Tuple => format!("fst({x}) + 7"),
            Payload::Struct => format!("{x}.v + 9"),
            Payload::Array => format!("{x}[0] + {x}[2] + {x}.len()"),
        }
    }
}

pub const PC_PRELUDE: &str = r#"type Box = {
  v: int
  s: string
}
fn pick(b: bool, x: int, y: int) -> int {
  if b { x } else { y }
}
fn fst(p: (int, string)) -> int {
  let (a, b) = p
  a
}
fn strlen_ish(s: string) -> int {
  if s == "item-0" { 0 } else { if s < "item-5" { 1 } else { 2 } }
}
fn spin(n: int) -> void {
  var i = 0
  while i < n {
    i = i + 1
  }
}
"#;

#[derive(Clone, Debug)]
pub struct PcInfo {
    pub shape: &'static str,
    pub tasks: usize,
    pub chans: usize,
    pub payload: Payload,
    pub n: i64,
    /// a program without tasks and channels that computes the same output and final value (the oracle
    /// for "each value once, in order, equal to what was written")
    pub seq_src: String,
}

/// Producer/consumer programs in which every channel has one writer and one reader and one thread
/// prints.  In these shapes heap payloads are written by a thread that keeps them alive, does not mutate
/// them and outlives the read — a discipline that was needed before fix 97d7808 (D23) and is harmless now;
/// the shapes without it (writer mutates / exits / drops its handle) are c09's snapshot and hand-over streams.
pub fn gen_pc(rng: &mut Rng) -> (String, PcInfo) {
    let payloads = [Payload::Int, Payload::Bool, Payload::Float, Payload::Str, Payload::Tuple, Payload::Struct, Payload::Array];
    let p = *rng.pick(&payloads);
    let n = rng.range(1, 6);
    let spin_a = rng.range(0, 12);
    let spin_b = rng.range(0, 12);
    let mut s = String::from(PC_PRELUDE);
    let mut q = String::from(PC_PRELUDE);
    let shape: &'static str;
    let (tasks, chans);
    match rng.below(5) {
        // main -> c0 -> task1 -> c1 -> main ; payload flows main->task (kept alive by main), digest comes back
        0 => {
            shape = "pipeline1";
            tasks = 1;
            chans = 2;
            write!(s, "let c0: channel<{ty}> = channel()\nlet c1: channel<int> = channel()\nlet keep: array<{ty}> = []\n", ty = p.ty()).unwrap();
            write!(s, "task {{\n  for i in {n} {{\n    let x = c0.read()\n    spin({spin_a})\n    c1.write({})\n  }}\n}}\n", p.digest("x")).unwrap();
            if rng.chance(1, 2) {
                write!(s, "for i in {n} {{\n  let x = {}\n  keep.push(x)\n  c0.write(x)\n}}\nfor i in {n} {{\n  println(c1.read())\n}}\n", p.make("i")).unwrap();
            } else {
                write!(s, "for i in {n} {{\n  let x = {}\n  keep.push(x)\n  c0.write(x)\n  spin({spin_b})\n  println(c1.read())\n}}\n", p.make("i")).unwrap();
            }
            writeln!(s, "keep.len()").unwrap();
            write!(q, "for i in {n} {{\n  let x = {}\n  println({})\n}}\n{n}\n", p.make("i"), p.digest("x")).unwrap();
        }
        // main -> c0 -> task1 -> c1 -> task2 -> c2 -> main (scalars relayed between tasks)
        1 => {
            shape = "pipeline2";
            tasks = 2;
            chans = 3;
            write!(s, "let c0: channel<{ty}> = channel()\nlet c1: channel<int> = channel()\nlet c2: channel<int> = channel()\nlet keep: array<{ty}> = []\n", ty = p.ty()).unwrap();
            write!(s, "task {{\n  for i in {n} {{\n    let x = c0.read()\n    c1.write({})\n    spin({spin_a})\n  }}\n}}\n", p.digest("x")).unwrap();
            write!(s, "task {{\n  for i in {n} {{\n    let y = c1.read()\n    spin({spin_b})\n    c2.write(y * 2 + i)\n  }}\n}}\n").unwrap();
            write!(s, "for i in {n} {{\n  let x = {}\n  keep.push(x)\n  c0.write(x)\n}}\nvar total = 0\nfor i in {n} {{\n  let z = c2.read()\n  println(z)\n  total = total + z\n}}\ntotal\n", p.make("i")).unwrap();
            write!(q, "var total = 0\nfor i in {n} {{\n  let x = {}\n  let y = {}\n  let z = y * 2 + i\n  println(z)\n  total = total + z\n}}\ntotal\n", p.make("i"), p.digest("x")).unwrap();
        }
        // tasks are pure producers of scalars on their own channels; main consumes in a fixed pattern
        2 => {
            shape = "producers";
            tasks = rng.range(1, 3) as usize;
            chans = tasks;
            for k in 0..tasks {
                writeln!(s, "let c{k}: channel<int> = channel()").unwrap();
            }
            for k in 0..tasks {
                write!(s, "task {{\n  for i in {n} {{\n    spin({})\n    c{k}.write(i * {} + {k})\n  }}\n}}\n", if k % 2 == 0 { spin_a } else { spin_b }, k + 2).unwrap();
            }
            write!(s, "var total = 0\nfor i in {n} {{\n").unwrap();
            for k in 0..tasks {
                write!(s, "  let x{k} = c{k}.read()\n  println(\"c{k}:\" .. x{k})\n  total = total + x{k}\n").unwrap();
            }
            write!(s, "}}\ntotal\n").unwrap();
            write!(q, "var total = 0\nfor i in {n} {{\n").unwrap();
            for k in 0..tasks {
                write!(q, "  let x{k} = i * {} + {k}\n  println(\"c{k}:\" .. x{k})\n  total = total + x{k}\n", k + 2).unwrap();
            }
            write!(q, "}}\ntotal\n").unwrap();
        }
        // the printing thread is a task; main feeds it (keeps payloads alive) and joins on a done channel
        3 => {
            shape = "printer-task";
            tasks = 1;
            chans = 2;
            write!(s, "let c0: channel<{ty}> = channel()\nlet fin: channel<bool> = channel()\nlet keep: array<{ty}> = []\n", ty = p.ty()).unwrap();
            write!(s, "task {{\n  for i in {n} {{\n    let x = c0.read()\n    println({})\n    spin({spin_a})\n  }}\n  fin.write(true)\n}}\n", p.show("x")).unwrap();
            write!(s, "for i in {n} {{\n  let x = {}\n  keep.push(x)\n  spin({spin_b})\n  c0.write(x)\n}}\nfin.read()\n", p.make("i")).unwrap();
            write!(q, "for i in {n} {{\n  let x = {}\n  println({})\n}}\ntrue\n", p.make("i"), p.show("x")).unwrap();
        }
        // a task produces heap payloads, keeps them alive and waits for main's acknowledgement before ending
        _ => {
            shape = "task-producer-ack";
            tasks = 1;
            chans = 2;
            write!(s, "let c0: channel<{ty}> = channel()\nlet ack: channel<bool> = channel()\n", ty = p.ty()).unwrap();
            write!(s, "task {{\n  let keep: array<{ty}> = []\n  for i in {n} {{\n    let x = {}\n    keep.push(x)\n    spin({spin_a})\n    c0.write(x)\n  }}\n  ack.read()\n}}\n", p.make("i"), ty = p.ty()).unwrap();
            write!(s, "for i in {n} {{\n  spin({spin_b})\n  let x = c0.read()\n  println({})\n}}\nack.write(true)\n{n}\n", p.show("x")).unwrap();
            write!(q, "for i in {n} {{\n  let x = {}\n  println({})\n}}\n{n}\n", p.make("i"), p.show("x")).unwrap();
        }
    }
    (s, PcInfo { shape, tasks, chans, payload: p, n, seq_src: q })
}
