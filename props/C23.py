from props._common import COMMON_TB

PROP = dict(
    title="`?` and `!` follow option/result semantics",
    lean_module="AbraProofs.Properties.C23",
    required_theorems=["C23_try_lowering_continue", "C23_try_lowering_continue_void", "C23_try_lowering_break",
                       "C23_unwrap_lowering", "C23_return_restores", "C23_return_void_restores",
                       "C23_try_follows_prelude", "C23_unwrap_follows_prelude",
                       "C23_prelude_branch_option_some", "C23_prelude_branch_option_none", "C23_prelude_from_residual_option",
                       "C23_prelude_branch_result_ok", "C23_prelude_branch_result_err", "C23_prelude_from_residual_result",
                       "C23_prelude_unwrap_option_some", "C23_prelude_unwrap_option_none",
                       "C23_prelude_unwrap_result_ok", "C23_prelude_unwrap_result_err", "C23_panic_instr",
                       "C23_try_accepted_iff", "C23_try_residual_in_family", "C23_try_plain_has_no_meaning"],
    harness_bin="c23",
    mismatch_is_violation=True,
    rule="(0) 112 mixed-Try programs (harness/src/bg9cov.rs, Rust oracle from error_handling.md: `?` is accepted exactly when operand and enclosing return type are both options, or both results with the same error type): 8 operands (option<int> some/none, option<void>, option<string>, result<int,string> ok/err, result<void,int> err, result<string,int> ok) x 7 return types (option<int>, option<string>, result<int,string>, result<string,string>, result<int,int>, int, void) x 2 positions (statement of a function; inside a tuple operand in an annotated lambda): rejected combinations must be diagnostics (e.g. TriedExpressionAndRetTypeMustMatch), accepted ones must print `after` + the function result when the operand is present and the propagated none / err(e) otherwise; the checker's accept/reject verdict of each of the 112 programs is also compared with the Lean model `tryAccepted` on the two type families (`trycompat <operand> <ret>`); (1) 52 template programs (4 of them: functions and a lambda with void-typed parameters - explicit `u: void` first/middle/last/several and a type parameter instantiated with nil and with values - `?` success and failure, `!`, explicit return, implicit result, caller sentinel locals, calls inside operands); the other 48 (12 shapes x 4 inputs): `?`/`!` at statement, operand, argument, nested-call, loop+tuple and void-payload position x "
         "option/result x inputs {-3,0,2,7}; expected trace of executed statements computed in the harness from the property's own "
         "words (spec_fail on deviation); (1b) 16 task programs: main reaches a failing `!` (none / err / inside a called function) or, for contrast, goes on after a handled failing `?`, while one or two tasks print in bounded and unbounded loops; run under budgets {100},{1000},{7},{1} with the host serviced as abra_cli does; required: the outcome (panic error / done), exactly the expected main lines, termination within the step bound, and at most tasks*(60/budget+2) task lines after main's last line; (2) the real prelude functions Try.branch / Try.from_residual / Unwrap.unwrap called "
         "directly on 22 values vs the transliteration the theorems are about; (3) quick 160 / thorough 4000 generated F2/F3 programs "
         "with boosted `?`/`!` in every expression position (functions returning option/result, recursion, success and failure "
         "inputs), run under step budgets {1000},{1},{2,3,7},{100}, output + final value + error kind vs Abra.Sem; (4) every try "
         "lowering found in the real unoptimised assembly of those programs vs tryCode (parameters read from the dump, shape from "
         "the model; residual arity checked against the callee's type); non-trivial = prelude/trylower requests and programs that "
         "print or stop with an error",
    nontrivial=lambda req, imp: not req.startswith("sem") or imp.startswith("error") or not imp.endswith(" -"),
    trusted_base=COMMON_TB + [
        "Abra.Sem is the executable reading of the language reference (specification side of the tie)",
        "the transliteration of six prelude functions into the Sem AST (lean/AbraModel/TryLower.lean) is by hand; it is compared "
        "with the real prelude.abra functions by calling them (`prelude` requests), not generated from the file",
        "C23_try_lowering_break / C23_unwrap_lowering take the behaviour of the callee (from_residual / unwrap returns to the "
        "instruction after the call with its arguments replaced by the result) as a hypothesis: calls into compiled prelude code "
        "are not modelled instruction by instruction; the end-to-end tie exercises them",
        "hook 08c41c5 (optimizer trace) used read-only",
    ],
    assumptions=["the coverage-guided template families (harness/src/bg9cov.rs) use constructs outside the generator AST and Abra.Sem (interfaces, intrinsics by name, channels, namespaces, size limits, diagnostics): their oracle is written in Rust from the language reference (expected output / error kind / \"a diagnostic\"), it is not a Lean model",
                 "payloads in the prelude tie are ints and strings; the theorems quantify over all payload values"],
    design_ref="DESIGN.md §6 C23",
    level_text="Theorems: the prelude's branch/from_residual/unwrap (transliterated) give the documented variants for all payloads; the "
               "reference semantics of `?`/`!` is the composition the lowering builds from them; on the VM core the emitted sequence "
               "continues with the payload or returns from the enclosing function with the caller's stack exactly restored from any "
               "operand position (Return truncates to the frame base: C23_return_restores); tie: templates with an independent oracle, "
               "real prelude functions vs transliteration, generated programs vs Sem, real lowering sequences vs tryCode.",
    level_note="The VM-level theorems are about the lowering sequence and Return; the callee's own code (compiled prelude) enters as a "
               "hypothesis. No theorem covers the type checker's choice of branch/from_residual instances.",
    technique="Lean 4 theorems over hand-written models (Sem, VMCore, TryLower) + differential correspondence",
    timeout=3000,
)
