from props._common import COMMON_TB

PROP = dict(
    title="Arena allocation is memory-safe for values of any size",
    lean_module="AbraProofs.Properties.C38",
    required_theorems=["C38_alloc_in_bounds", "C38_alloc_aligned", "C38_alloc_disjoint", "C38_alloc_disjoint_abs",
                       "C38_alloc_stable", "C38_alloc_stable_buf", "C38_log_matches_requests", "C38_padding_minimal",
                       "C38_d14_arithmetic_witness"],
    harness_bin="c38",
    mismatch_is_violation=False,
    rule="allocation histories on the real utils::arena::Arena: 4 regression histories (the D14 witnesses), then "
         "(quick) 600 / (thorough) 20000 seeded histories of 1-60 allocations from 24 value kinds (u8..u128, (), "
         "[u8; 0/1/3/7/13/64/100/1000/5000/20000], #[repr(align(16/32/64))] structs incl. a zero-sized one, a repr(C) "
         "struct) over 16 distinct initial capacities (capacity 0 through Arena::with_capacity(0), Arena::new() and Arena::default() in turn) and 5 profiles (small, aligned, big, mostly-small, uniform); the process "
         "runs under a global allocator that places alignment-1 blocks at every residue mod 64 in turn, so buffer base "
         "addresses are arbitrary as in the theorems; one model request per history carrying (size, align, base address "
         "of the buffer the real allocator returned) per allocation; compared observable: (buffer index, start offset) "
         "per allocation and the final (buffer count, offset, current length). distinct = distinct request lines; "
         "non-trivial = the history switches buffers at least once",
    nontrivial=lambda req, imp: not imp.split(" |")[0].split()[-1].startswith("0:") if imp.split(" |")[0].split() else False,
    trusted_base=COMMON_TB + [
        "hook Arena::verif_layout (/repo/utils/src/arena.rs, cfg abra_verif): reads base/len of the buffers and the offset",
        "Rust's global allocator contract (simultaneously live boxes are disjoint; a Box<[MaybeUninit<u8>]> of length n owns n bytes at its address) — hypothesis BufsDisjoint of C38_alloc_disjoint_abs; the harness does not check this hypothesis, it checks the conclusion (the real address ranges of all placements are pairwise disjoint)",
        "size_of/align_of report the layout rustc uses; usize arithmetic does not overflow (sizes are far below 2^63)",
    ],
    assumptions=[
        "alignments are positive (Rust: powers of two)",
        "Stacked Borrows (experimental aliasing model) not claimed; property C38 is about validity, alignment, non-overlap and in-bounds writes. "
        "The thorough tier's Miri stage runs with -Zmiri-tree-borrows (default Miri rejects even `alloc(1u8); alloc(2u8); read first` because "
        "each alloc re-derives a unique reference to the whole buffer)",
    ],
    design_ref="DESIGN.md §6 C38",
    level_text="Theorems over all allocation histories, all initial capacities and all base addresses the allocator may return, "
               "about a model of Arena::alloc (buffer list + offset): in bounds, absolute address aligned, pairwise disjoint, buffers "
               "and earlier placements never change; tied to /repo on every run by driving the real Arena under an address-skewing "
               "allocator and diffing its placement decisions against the model, with the property checked directly on the real addresses.",
    level_note="The step from arena.rs to Abra.Arena is checked by correspondence, not proved. Mismatch alone is not a violation "
               "(the exact growth policy is more than the property fixes); the direct address checks give the failing input.",
    technique="Lean 4 invariant proof by induction over histories + differential correspondence and direct address checks against the real Arena",
    timeout=1500,
)
