from props._common import COMMON_TB

PROP = dict(
    title="An accepted match always has a matching arm; reported gaps are real",
    lean_module="AbraProofs.Properties.C12",
    required_theorems=["C12_exhaustive_sound", "C12_witness_sound", "C12_nonexhaustive_real",
                       "C12_fromAst_meaning", "C12_exhaustive_sound_dpat", "C12_witness_sound_dpat", "C12_terminates", "C12_terminates_matrix", "C12_nonexhaustive_real_dpat",
                       "C12_let_accepted_irrefutable", "C12_let_rejected_refutable", "C12_let_terminates"],
    harness_bin="c12",
    mismatch_is_violation=True,
    rule="(scrutinee type, arm list) pairs over the bounded universe of harness/src/patuniv.rs (48 scrutinee types plus 2 whose values need the D46 constructor, to "
         "depth 2 over bool/void/int/float/string, 6 structs incl. one without fields, 13 enums incl. void payloads, named and positional "
         "multi-field variants, a recursive enum, a generic enum used at bool, three single-variant enums; literals from small sets incl. alternative float spellings and adjacent doubles; 0-6 arms; "
         "or-patterns, named fields in shuffled order, qualified variants): hand-written regression shapes, then all "
         "arm lists of length <= 2 over the depth-1 pattern pool of 13 small types (quick: 18 sampled per type), then "
         "1500 (quick) / 40000 (thorough) seeded random arm lists; each program is checked by the real checker through "
         "check_lsp / compile_bytecode; compared: sorted witness list; spec oracle: brute force over every value of the "
         "finite representative domain (accepted => every value matched; reported => some value unmatched and every "
         "listed witness covers an unmatched value); placement dimension (D70): case i stands at one of 17 syntactic placements in rotation (let initialiser, arm body and scrutinee of another match, function / lambda / task / block / if / else / while / for body, call argument, array / tuple / struct literal element, index of an assignment target, struct-field default); every third case is also checked as a let initialiser and both verdicts must be equal; two fixed matches are checked at all 17 placements; run-time half: 150 (quick) / 4000 (thorough) accepted arm lists with two or more sibling or-patterns in different components (tuple / struct components, variant fields) are compiled and run on every value of the scrutinee type (up to 12 / 64, mixed-combination values first); the arm taken is compared with the model's first match (`pc first`) and with the Rust reference; coverage-guided additions: a match with NO arms on every scrutinee type; a struct without fields, a payload of it, a generic enum with named fields (En9<T> at bool), single-variant enums; 260 (quick) / 6000 let / annotated let / var / for / let-in-function destructuring patterns with variant, named-variant, literal and or sub-patterns, accepted iff the one-arm check of the model (pm let, checkLet) accepts and iff brute force finds them irrefutable; 17 fixed programs over columns outside the type language of the model (array, function values, generic struct / enum with function-typed fields, nested option, and generic types whose payload nests the type parameter inside option / a user generic / a tuple inside option / a recursive reference, instantiated at bool and at a small enum, arms enumerating the constructors at that depth) with their expected verdict (Rust-side oracle only); hard regression programs for D96 and D97; non-trivial = non-exhaustive verdict or an or-pattern in an arm",
    nontrivial=lambda req, imp: (imp != "w=" and not imp.startswith("arm=0")) or " or " in req,
    trusted_base=COMMON_TB + [
        "type inference delivers arms of the scrutinee's type (Abra.PatMatrix.patTyped) before the exhaustiveness pass runs; solution_of_node types are taken from the harness' own type of each sub-pattern",
        "named struct/variant fields are put into declaration order by the harness (from_ast_pat does it with `find`); generic type arguments, arrays and function types are not in the model",
        "FxHashSet iteration order of missing variants (the model lists them by index; witness lists are compared sorted)",
        "codespan rendering of the `missing cases` notes, parsed back by the harness",
    ],
    assumptions=[
        "array and function types (and generic parameters instantiated with them) are outside the type language of the model: such columns admit only wildcards and bindings and are checked by fixed programs against a Rust-side expectation, not against the model",
        "all types of the enum environment are inhabited (hypothesis Inhabited' of the witness theorems)",
        "the model's int and float value spaces are unbounded (Int / Nat bits): a witness value for an int/float column "
        "is some literal different from all literals of that column, which exists in 64 bits whenever a column lists fewer than 2^64 distinct literals",
        "float literal constructors are compared by parsed bit pattern (the code since D15, f56a816); a positional sub-pattern on a void payload is erased (the code since D31, 1e10ab9); a missing variant's witness carries one payload wildcard (643396b); let / var / for patterns are checked as a one-arm match (D96, e292b84)",
    ],
    design_ref="DESIGN.md §6 C12",
    level_text="Theorems for every enum environment with inhabited types, every scrutinee type, every well-typed arm list (and every fuel "
               "for which the run finishes; enough fuel always exists, C12_terminates), about a function-by-function Lean model of pat_exhaustiveness.rs (from_ast_pat, Matrix::specialize, "
               "or-expansion, unspecialize, ConstructorSet::split, WitnessMatrix, compute_exhaustiveness_and_usefulness): no witness => every "
               "well-typed value matches an arm (pmatch, the run-time meaning of source patterns); every witness covers a well-typed value that "
               "matches no arm. Proved by induction along the recursion with the specialisation, default-matrix and or-expansion lemmas. "
               "The model is tied to /repo on every run by checking generated match programs with the real checker and diffing the witness lists, "
               "and the property is checked directly by brute force over all values.",
    level_note="Termination is proved (C12_terminates: a measure that strictly decreases at every recursive call; the driver runs with that fuel), so the theorems are unconditional in the fuel. "
               "Int/float value spaces are unbounded in the model (see assumptions). The run-time half of the statement (the compiled match takes a matching arm) is proved in C14; here it is checked by the run-time stream of the harness only.",
    technique="Lean 4 theorems (Maranget-style induction over the matrix recursion) over a hand-written model + differential correspondence against the real checker + brute-force oracle",
    timeout=1500,
)
