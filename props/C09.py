from props._common import COMMON_TB

PROP = dict(
    title="Channels deliver each value once, in order, as a valid independent copy",
    lean_module="AbraProofs.Properties.C09",
    required_theorems=["C09_chanInv_new", "C09_chan_refines_queue", "C09_chan_refines_queue_runN", "C09_chan_fifo", "C09_chan_count",
                       "C09_read_blocks_only_reader", "C09_blocked_reader_turn", "C09_chan_copy_scalar",
                       "C09_chan_copy_valid_partial", "C09_chan_copy_graph_partial", "C09_chan_copy_mutated_counterexample",
                       "C09_chan_copy_reclaimed_counterexample"],
    harness_bin="c09",
    # trace cases compare the whole interleaving; the property's statements are checked directly (spec_fail)
    mismatch_is_violation=False,
    rule="programs (quick 240 / thorough 3000), each under the budgets {1,2,3,7,100} and two random cyclic schedules: half "
         "producer/consumer programs (5 shapes, <=3 tasks, <=3 channels, 7 payload kinds incl. string/tuple/struct/array, a "
         "third of them with an extra task blocked for ever on a never-written channel), half nested values of 12 types sent "
         "main->task or task->main with mutations on both sides after the hand-over, plus shared and cyclic payloads (one Box twice "
         "in an array, a struct containing itself, one array under two fields, the same array written twice = two independent "
         "copies; cycles rooted at an array - array->struct->array, array->variant->array, array->array->variant->array - and at "
         "a variant; an empty array); plus other routes to the channel instructions: element type void through the members "
         "and through the channel_read/channel_write intrinsics (repaired defect D89, hard regression), a void channel between two "
         "tasks, the intrinsics and the type-qualified members `channel.read(c)` on an int channel, `channel` as a first-class "
         "constructor value. Every program runs in a child process (a host abort is reported with its program). spec_fail: per channel the hook's popped "
         "(bits,tag) sequence is a prefix of the pushed sequence (order, once); output and final value equal those of a "
         "sequential oracle program without tasks/channels (producer/consumer) or the renderings computed in Rust (nested "
         "values: as written; receiver's mutations; sender's later mutations invisible). Model cases: one scheduler trace per "
         "program, `heapcopy <value>` for what the reader received and `heapalias` for shared/cyclic payloads; non-trivial = the trace has a blocked read or the "
         "value has a heap object. Heap payloads stay inside the hypothesis of C09_chan_copy_valid_partial (sender keeps "
         "the value alive and unmutated until the read); the two D23 shapes are replayed separately",
    nontrivial=lambda req, imp: (".b" in imp) or (req.startswith("heap") and ("(" in req or "'" in req)),
    trusted_base=COMMON_TB + [
        "hook verif_sched in abra_core/src/vm.rs (cfg abra_verif): read-only event log incl. raw channel payloads",
        "Rust VecDeque under Arc<Mutex<_>> assumed to be a FIFO queue; heap model Abra.Heap (objects stay put until their thread is dropped or stores into them)",
    ],
    assumptions=[
        "`a received value stays valid even if the writing task has finished or its memory has been collected` is FALSE for heap "
        "payloads on the unchanged tree (known finding D23); the theorem for heap payloads carries the hypothesis that the written "
        "object graph is neither mutated nor reclaimed between write and read; collection of the payload by the writer's GC is C06's matter",
    ],
    design_ref="DESIGN.md §6 C09",
    level_text="(partial for heap payloads) Theorems for every thread step function and every embedder schedule: the values "
               "read from a channel are a prefix of the values written (queue refinement via the trace of executed "
               "instructions); a blocked read changes nothing but the trace and the scheduler moves on; scalar payloads are "
               "received unchanged; heap payloads are received as an equal, independent copy provided the written object graph "
               "is unchanged at read time; the two ways this hypothesis fails are proved as counterexamples in the model and "
               "replayed on the implementation (D23).",
    level_note="PARTIAL: copy validity for heap payloads holds only under the no-mutation/no-reclamation hypothesis (D23, known "
               "finding). Models validated by correspondence, not derived from vm.rs.",
    technique="Lean 4 theorems (trace/queue invariant lifted through the scheduler loop, heap-copy lemmas) + trace validation, sequential-oracle and rendering checks against the real runtime",
    timeout=3000,
)
