from props._common import COMMON_TB

PROP = dict(
    title="Channels deliver each value once, in order, as a valid independent copy",
    lean_module="AbraProofs.Properties.C09",
    required_theorems=["C09_chanInv_new", "C09_chan_refines_queue", "C09_chan_refines_queue_runN", "C09_chan_fifo",
                       "C09_chan_count", "C09_read_blocks_only_reader", "C09_blocked_reader_turn", "C09_chan_copy_scalar",
                       "C09_chan_snapshot_at_write", "C09_chan_in_message_same_queue", "C09_queue_outlives_threads", "C09_chan_copy_valid", "C09_chan_receive_total",
                       "C09_prerepair_mutated_witness", "C09_prerepair_reclaimed_witness"],
    harness_bin="c09",
    # trace cases compare the whole interleaving; the property's statements are checked directly (spec_fail)
    mismatch_is_violation=False,
    rule="programs (quick 240 / thorough 3000), each under the budgets {1,2,3,7,100} and two random cyclic schedules: half "
         "producer/consumer programs (5 shapes, <=3 tasks, <=3 channels, 7 payload kinds incl. string/tuple/struct/array, a "
         "third of them with an extra task blocked for ever on a never-written channel), half nested values of 12 types sent "
         "main->task or task->main with mutations on both sides after the hand-over, plus shared and cyclic payloads (one Box twice "
         "in an array, a struct containing itself, one array under two fields, the same array written twice = two independent "
         "copies; cycles rooted at an array - array->struct->array, array->variant->array, array->array->variant->array - and at "
         "a variant; an empty array); plus other routes to the channel instructions: element type void through the members "
         "and through the channel_read/channel_write intrinsics (repaired defect D89, hard regression), a void channel between two "
         "tasks, the intrinsics and the type-qualified members `channel.read(c)` on an int channel, `channel` as a first-class "
         "constructor value. Snapshot stream (fix 97d7808 of D23): the writer "
         "mutates the sent object after the write and before the read; a task writes a heap value, mutates it and EXITS before "
         "the read (junk allocations in between); the same object sent twice with a mutation in between (two independent "
         "snapshots); a struct containing the channel it is sent on; 20-60 struct messages mutated after writing, writer gone, "
         "reader reads all; every nested value type written by a task that is gone at the read - with `heapsend` model requests "
         "(W = write now, R = read, M/T ops). HAND-OVER (quick 24): a channel with values pending in it handed over through another "
         "channel - directly, in a struct, an array, a variant - values written before the outer write and between outer write "
         "and outer read, the sender finishing at once / dropping its handle and allocating until its collector ran / staying "
         "alive, the receiver reading late: the inner channel delivers exactly what was written, in order. NESTED GRID (quick 55): "
         "the C08 container x leaf grid (depth <= 3) transported as a message, `heapsend` model requests. "
         "SHARED CHILDLESS (quick 24): an object WITHOUT children at the write - empty array<int>, array<void>, "
         "array<array<int>>, a struct of immediates - reachable along 2-3 paths of one message (struct fields, array elements, "
         "tuple components, variant payloads, closure capture + field): the receiver mutates through one path and observes through "
         "every other, then the sender does the same on its original; `heapsend` requests with datum labels. "
         "Hard regression runs of the two former D23 replays (the second in a child process). "
         "Every program runs in a child process (a host abort is reported with its program). spec_fail: per channel the identity tokens of the "
         "popped messages (the hook reports the written value's (bits,tag) carried by the message) are, position by position, a prefix "
         "of the tokens pushed (order, once; messages with equal tokens are told apart by the content checks); output and final value equal those of a "
         "sequential oracle program without tasks/channels (producer/consumer) or the renderings computed in Rust (nested "
         "values: as written; receiver's mutations; sender's later mutations invisible). Model cases: one scheduler trace per "
         "program, `heapcopy <value>` for what the reader received and `heapalias` for shared/cyclic payloads; non-trivial = the trace has a blocked read or the "
         "value has a heap object. Since fix 97d7808 no discipline is imposed on heap payloads any more (the snapshot, hand-over and "
         "shared-childless streams mutate sent objects, let writers exit and drop handles); the older producer/consumer and nested-value "
         "streams still keep the sent value alive until acknowledged, which is harmless",
    nontrivial=lambda req, imp: (".b" in imp) or (req.startswith("heap") and ("(" in req or "'" in req)),
    trusted_base=COMMON_TB + [
        "hook verif_sched in abra_core/src/vm.rs (cfg abra_verif): read-only event log; a message carries the written value's (bits, tag) as identity token for the log",
        "Rust VecDeque under Arc<Mutex<_>> assumed to be a FIFO queue; heap model Abra.Heap (objects stay put until their thread is dropped or stores into them)",
    ],
    assumptions=[
        "a Message (snapshot at write, rebuilt at read) is modelled as the table-based copy deepCopyM reading its sources from the heaps "
        "at WRITE time and allocating in the heaps at read time, in the same first-visit order; the intermediate node table is not a "
        "separate model object (validated by the heapsend/heapcopy/heapalias correspondences)",
        "collection of a message's source objects by the writer's GC is irrelevant after 97d7808 (the queue owns plain data); C06 covers the collector",
    ],
    design_ref="DESIGN.md §6 C09",
    level_text="Theorems for every thread step function and every embedder schedule: the values read from a channel are a prefix of "
               "the values written (queue refinement via the trace of executed instructions), reads never outnumber writes, a blocked "
               "read changes nothing but the trace and the scheduler moves on (stated for one instruction, and for the turn of a runnable "
               "reader at the head of a clean run queue). Copy validity after fix 97d7808, with NO hypothesis on "
               "what the writer does after the write but under the hypothesis that the read returns (which it does on a well-formed "
               "written graph with fuel = written objects + 1): a read returns an isomorphic copy of the graph as it was WRITTEN (sharing and "
               "cycles kept, every object freshly allocated in the reader's heap, nothing existing changed), values that rendered "
               "render equal, scalars are received unchanged, a channel inside a message is received as a handle on the same queue. The FIFO "
               "theorems are about runs started from Runtime::new (or any state satisfying the queue invariant ChanInv). The two "
               "witnesses of the old copy-at-read behaviour (D23) are kept as historical theorems about chanReceiveOld.",
    level_note="proof (D23 fixed by 97d7808; its two replays are hard regression runs). Models validated by correspondence, not derived from vm.rs.",
    technique="Lean 4 theorems (trace/queue invariant lifted through the scheduler loop, heap-copy lemmas) + trace validation, sequential-oracle and rendering checks against the real runtime",
    timeout=3000,
)
