from props._common import COMMON_TB

PROP = dict(
    title="Built-in equality, ordering and hashing are lawful",
    lean_module="AbraProofs.Properties.C24",
    required_theorems=["C24_void_lawful", "C24_bool_lawful", "C24_int_lawful", "C24_float_lawful", "C24_string_lawful",
                       "C24_string_is_lexicographic", "C24_tuple2_lawful", "C24_tuple3_lawful", "C24_tuple4_lawful",
                       "C24_tuple_lt_is_lexicographic", "C24_array_equal_spec", "C24_array_equal_lawful",
                       "C24_ne_is_negation", "C24_order_laws", "C24_hash_congr_scalars", "C24_hash_congr_compound", "C24_string_hash_loop", "C24_bool_ge_old_counterexample"],
    harness_bin="c24",
    # the compared line contains the exact hash values, which the property does not fix (only "equal values hash
    # equally"); every property-relevant disagreement is caught with a concrete input by the Rust oracle and the laws
    mismatch_is_violation=False,
    rule="EXHAUSTIVE (these domains only; about 37 % of the quick-tier cases): every ordered pair of values of bool, void, (bool,bool), (bool,void), (void,bool), (void,void), "
         "(bool,bool,bool), (bool,void,bool), (void,void,void), (bool,bool,bool,bool), (bool,void,void,bool), "
         "((bool,bool),bool), (bool,(bool,void)), array<bool> and array<void> up to length 3, array<(bool,bool)> up to 2, "
         "array<(bool,void)> up to 3, array<array<bool>>, (array<bool>,bool) (thorough: arrays one element longer); "
         "SAMPLED: all pairs of 13 boundary ints, 14 float bit patterns (±0, ±min subnormal, ±1, ±MAX, ±inf, NaN, ...) and "
         "14 strings (empty, prefixes, NUL, multi-byte, 7F/80 boundary), and seeded pairs (a quarter equal, half one "
         "mutation apart) of 12 compound types over them; the scalar pairs (bool, ints, floats, strings) additionally in "
         "every operand SHAPE the compiler distinguishes: variable/literal (all pairs; the literal becomes the immediate of "
         "an *Imm instruction), literal/variable and literal/literal (seeded half in quick, all in thorough), with the "
         "laws evaluated per shape, and as a literal MATCH PATTERN (`match a { <lit b> -> .. }` matches exactly when a == b; "
         "non-negative literals only, the grammar has no negative patterns), and through QUALIFIED INTERFACE CALLS "
         "Equal.equal / Ord.less_than / ... / Hash.hash (the only route to the prelude's `implement Equal/Ord for "
         "int/float/string` bodies, i.e. the equal_int / equal_float / equal_string / ..._int intrinsics by name) on the "
         "scalars, on 4 exhaustive compound types and 4 mixed ones; one program per pair, compiled and run by the real compiler+VM, "
         "prints == != < <= > >= and Hash.hash of both; compared with the Lean hand model, with a lexicographic Rust "
         "oracle, and the laws (reflexive/symmetric/transitive ==, != negation, trichotomy, <= iff not >, >= iff flipped <=, "
         "transitive <, equal => equal hash) are evaluated on the implementation's answers over all pairs and triples; "
         "distinct = distinct (type, a, b); non-trivial = compound type, or scalar pair whose answer has eq=0",
    nontrivial=lambda req, imp: req.split()[1][0] in "234A" or "eq=0" in imp,
    # False for the run as a whole: only the bool/void domains listed under EXHAUSTIVE in `rule` are enumerated
    # completely (1672 of 4529 quick-tier cases, counted as domain:exhaustive in the histogram); ints, floats,
    # strings and the compound types over them are sampled
    exhaustive=lambda tier: False,
    trusted_base=COMMON_TB + [
        "the hand model Abra.PreludeCmp is a manual transliteration of modules/prelude.abra (Equal/Ord/Hash for bool, void, "
        "tuples, arrays; hash_combine; FNV-1a) — tied by correspondence on exhaustive small domains; the stronger tie "
        "(regenerated prelude ASTs evaluated in a Lean reference semantics, DESIGN.md §1) is not built yet",
        "int/float/string comparisons are the VM instructions the translator inlines (C15/C16/C17 models); interface dispatch "
        "to the right implementation (C22) and tuple destructuring (C14) are assumed",
        "wrapping_mul / wrapping_add / bit_xor on i64 are the UInt64 operations on the two's-complement pattern",
    ],
    assumptions=[
        "models the repaired bool `>=` (D5, landed in /repo af122a6)",
        "array<void> values are usable like any other array (the element-access fault D34 was fixed in /repo 900b818; non-empty array<void> pairs are ordinary exhaustive cases)",
    ],
    design_ref="DESIGN.md §6 C24",
    level_text="Theorems for all values: LawfulOrd (== an equivalence, exactly one of < == >, < transitive, > / <= / >= "
               "defined by <) for void, bool, int, float (all 2^64 patterns via C16's key), string (all byte strings via C17's "
               "step machine), preserved by the prelude's 2-, 3- and 4-tuple code for any lawful components (induction-free "
               "composition: the straight-line 3/4-tuple code is definitionally the nested pair construction), array == is "
               "length + element-wise equality via the index loop (never out of bounds) and an equivalence; equal values hash "
               "equally for int/void/bool/string and through hash_combine for tuples and arrays (induction).",
    level_note="The model is hand-written from the Abra source, tied by exhaustive/sampled correspondence, not generated from "
               "the prelude AST; generic dispatch and destructuring are outside this model.",
    technique="Lean 4 theorems (case analysis on trichotomy of the components, induction over lists) over a hand-transliterated "
              "model of the prelude + exhaustive differential correspondence and law checking on the real VM's answers",
    timeout=1500,
)
