from props._common import COMMON_TB

PROP = dict(
    title="Every program accepted by the checker compiles to bytecode",
    lean_module="AbraProofs.Properties.C03",
    required_theorems=["C03_offsets_complete", "C03_offsets_complete_task", "C03_offsets_complete_own_assign", "C03_checker_rejects_captured_assign",
                       "C03_loop_ctx_agree", "C03_loop_ctx_rejects_break_in_lambda"],
    harness_bin="c03",
    # the compared observable (per lambda/task: number of captures and of locals, read off the real assembly)
    # is what the analysis computes; a difference means the model is no longer the code.  A failing *input* of
    # the property is an accepted program on which compile_bytecode panics: reported through spec_fail.
    mismatch_is_violation=False,
    rule="capture-position family (harness/src/bg9cov.rs, 171 programs): an outer variable whose ONLY use inside a lambda sits at one given sub-expression position - condition / then / else of if, both operands of or/and and of every binary operator at every type, unary minus and not, match scrutinee and tuple scrutinee, call / method / function-value arguments in every position, constructor components, index and array of reads, array / index / right-hand side of `a[i] = e` and `a[i] op= e` on arrays and user Index, object / right-hand side of field assignments, let / assignment / compound right-hand sides, push argument, inner loop iterable, an operand next to an inner loop, an operand next to a nested lambda call - directly in a lambda, in a lambda nested in a lambda, and in a lambda inside a function: must compile and print the value of the Rust oracle; coverage-guided families (harness/src/bg9cov.rs, Rust oracles; accepted => compiles AND prints the expected output, checker/compiler panics are failing inputs): 24 programs with compound assignment through a user `Index` implementation (D79) (g[(r,c)] op= k, g[ix()] op= rhs(), mk()[ix()] op= rhs(), also as a statement of a block operand; all five operators; oracle: effect order container, index, index_get, right-hand side, index_set and the final cells); `channel`, intrinsic names (at int / string / void element types: D88, channel intrinsics on channel<void>: D89) and namespace-qualified functions / constructors (D82, D81) as first-class values; size limits: frames of 16383 / 16385 / 32767 locals compile and run (D90), 32768 is the diagnostic `too many local variables: 32768, the limit is 32767` at a real line (D93), 300 captures / tuple elements / struct fields / variant fields (thorough: 32767 and 32768 parameters, 3000 captures, 5000-wide tuple/struct/variant, a 70000-element array literal); implement-for-function-type in every call form (D99), unary minus on a user Num (D86: diagnostic), payload variant without arguments (D87: diagnostic), `fs[1](4)` (D91), match on a diverging scrutinee (D77), duplicate parameter names (D76: diagnostic), for loop in a default value (D84), default values that declare variables (D80), variant field defaults (D83); 96 loop-head programs: break/continue in a while condition (as block, if, match), in a for iterable and in the bodies, for the outermost and for a nested loop, at top level and inside a function, a lambda and a task: checker verdict must be accept=>compiles or a diagnostic, and equals the checker model (`loopctx` requests); 48 programs assigning (= and every compound form) to a PARAMETER: of the enclosing function / lambda from a nested lambda or task, written-only and also read (must be rejected with the captured-variable diagnostic and equal the checker model), and to the function's / lambda's own parameter as control (accepted, compiles, right value); 24 programs assigning a captured variable (lambda/task/inner lambda/function-local x six operators) that must be rejected with a diagnostic; 10 hand-written nesting programs (task in fn, lambda in lambda, task in lambda in fn, lambda in task, loop in lambda "
         "in loop, every compound assignment form, let in match scrutinee / in assignment target, capture only in scrutinee / only "
         "as assignment target) and quick 6x90 / thorough 6x2500 generated programs: tiers F0-F3 plus two nesting streams "
         "(functions, lambdas nested to depth 3, tasks, while/for with break/continue, =, +=, -=, *=, /=, %= on variables, fields "
         "and indices; one third not DepthSafe): abra_core::check accepts => compile_bytecode returns (spec_fail + shrinking "
         "otherwise); for the nesting streams additionally the analysis tie: per lambda/task (captures, locals) from the real "
         "unoptimised assembly (make_closure n / spawn_task n, push_nil m) vs Abra.Analysis on the generator's resolved AST, "
         "plus the model's loop-context and table-completeness verdicts",
    nontrivial=lambda req, imp: ":" in imp.split(" loops=")[0],
    trusted_base=COMMON_TB + [
        "Abra.Analysis (lean/AbraModel/Analysis.lean) is a hand-written model of collect_locals_*, collect_captures_*, "
        "calculate_args_captures_locals and the offset-table construction on a resolved AST (binder ids instead of AstNodes); "
        "its `lookups*` functions are a model of which keys translate_expr/translate_stmt/handle_pat_binding look up",
        "name resolution is done by the harness (scoping as in the generator), not by the real resolver",
        "hook 08c41c5 (optimizer trace) used read-only",
    ],
    assumptions=["the coverage-guided template families (harness/src/bg9cov.rs) use constructs outside the generator AST and Abra.Sem (interfaces, intrinsics by name, channels, namespaces, size limits, diagnostics): their oracle is written in Rust from the language reference (expected output / error kind / \"a diagnostic\"), it is not a Lean model",
                 "tuple / struct / variant field counts beyond 65535 are not generated: the checker needs more than 15 minutes for a 65536-element tuple (super-linear), only the locals, parameters and argument limits are exercised at their boundary",
                 "for named functions and <main> (no enclosing function) that every assigned local is the function's own is a fact of name resolution taken as hypothesis (C03_offsets_complete_own_assign); for lambdas and tasks it follows from the checker model (fdfd074)",
                 "void-typed binders own no slot and are absent from the resolved AST; the nesting streams generate none"],
    design_ref="DESIGN.md §6 C03",
    level_text="Theorems about the analysis-table model (every offset-table lookup of every function body has an entry; the checker's and "
               "the code generator's loop contexts agree) + differential search for accepted-but-panicking programs over a nesting generator.",
    level_note="partial: only the offset tables and the loop stacks are modelled; the other panic sites of translate_bytecode.rs "
               "(unreachable!/panic!/unimplemented!) are reached only through the tie. The model was updated to the repaired code "
               "(D16/D17/D36/D37/D41, d50b96e, 29b0667 compound-assignment temporaries, fdfd074 captured-assignment rule).",
    technique="Lean 4 mutual structural induction over a hand-written analysis model + differential correspondence (table sizes from real assembly, accept=>compile search)",
    timeout=3000,
)
