from props._common import COMMON_TB

PROP = dict(
    title="The interning set is a sound, order-preserving id map",
    lean_module="AbraProofs.Properties.C37",
    required_theorems=["C37_step_refines", "C37_refines", "C37_no_ub", "C37_ptrs_valid", "C37_buffers_owned", "C37_sets_share_no_buffer",
                       "C37_contents_nodup", "C37_ids_stable", "C37_derived_clone_dangles", "C37_repaired_clone_ok"],
    harness_bin="c37",
    mismatch_is_violation=False,
    rule="operation histories over up to 5 simultaneously live sets, for IdSet<String> and IdSet<i64>: 6 regression "
         "histories each (the D13 witness clone+drop original+lookup in the clone; clone+clear original; duplicate insert "
         "on a full buffer; clear then re-insert the last value; clone, clear, re-insert; repeated inserts across a buffer switch), then (quick) 400 x <=40 ops / (thorough) 6000 x <=160 ops seeded histories per element type "
         "(insert 45%, try_get_id 10%, contains 5%, index incl. out of range 8%, len, iter, layout dump, clone, drop, clear, "
         "into_iter, new/default; Debug at every iter, get_id at every lookup, IndexMut write-back of an equal value at every third index; the scenario 'clone h; drop or clear h; get/insert/iter/index on the clone' is forced with "
         "probability 1/14 per step); values from a pool of 37 strings / 34 integers restricted per history to a random prefix of at least 2 so that duplicates "
         "are frequent; one model request per history; compared: every answer, and at layout points (len/cap) of every "
         "buffer in iteration order, (buffer, index) of every id_to_ptr entry and the map size. distinct = distinct "
         "histories; non-trivial = the history contains a clone",
    nontrivial=lambda req, imp: " clone:" in req,
    trusted_base=COMMON_TB + [
        "hook IdSet::verif_layout (/repo/utils/src/id_set.rs, cfg abra_verif): reads the buffers' (address, len, capacity), id_to_ptr and the map's (key address, id) pairs",
        "Rust's Vec (push within capacity does not move the buffer; with_capacity(n) gives capacity n for these element types; clear keeps the buffer; drop frees it) and hashbrown's HashMap "
        "(a finite map that hashes/compares keys only through Hash/Eq; the model dereferences a superset of the keys the real probe touches)",
        "fewer than 2^32 elements per set (ids are u32)",
    ],
    assumptions=[
        "element Hash/Eq are lawful and do not panic; elements are not mutated through IndexMut in a way that changes Hash/Eq (the type's documented requirement)",
        "Stacked Borrows (experimental aliasing model) not claimed; the thorough tier's Miri stage runs with -Zmiri-tree-borrows",
    ],
    design_ref="DESIGN.md §6 C37",
    level_text="Theorems over all histories of all eleven operations on any number of sets about a pointer-level model (buffers with owners and "
               "liveness, pointers = (buffer, index)): refinement to a list specification (ids = insertion ranks of distinct values, lookups, "
               "iteration, clone = independent copy), ids stable, no operation is UB, every stored pointer targets a live buffer owned by its set; "
               "tied to /repo on every run by histories on the real IdSet<String>/IdSet<i64> diffed against the model (answers, buffer layout, pointer "
               "structure), a map-plus-vector reference and the pointer invariant checked on the real addresses.",
    level_note="The step from id_set.rs to Abra.IdSet is checked by correspondence, not proved. Mismatch alone is not a violation (buffer capacities "
               "are more than the property fixes); the reference comparison and the pointer-invariant check give the failing input.",
    technique="Lean 4 invariant + refinement proof (frame lemma over an ownership store) + differential correspondence and direct invariant checks against the real IdSet",
    timeout=1500,
)
