from props._common import COMMON_TB

PROP = dict(
    title="Comments and optional separators never change a program",
    lean_module="AbraProofs.Properties.C29",
    required_theorems=["C29_block_comment_skipped", "C29_line_comment_skipped", "C29_blank_skipped",
                       "C29_block_comment_transparent", "C29_line_comment_transparent",
                       "C29_comment_insertion_partial", "C29_block_comment_insertion", "C29_line_comment_insertion",
                       "C29_separator_choice", "C29_toplevel_terminator", "C29_stray_semicolon_rejected", "C29_shebang_line_skipped"],
    harness_bin="c29",
    # compared observable = the complete token-kind stream incl. payloads of arbitrary programs; the
    # property itself (kinds unchanged by comment insertion, outcome unchanged) is checked directly by the
    # harness on every variant and reports the concrete pair of programs
    mismatch_is_violation=False,
    rule="programs: every `let src = …` literal of /repo/abra_core/tests/integration/e2e_bytecode.rs (175) plus hand-written "
         "ones (the D10 shapes, comment openers inside strings, quotes inside comments) plus generated programs with explicit "
         "separator slots; each is lexed by the real lexer and re-printed (2 rounds quick / 12 thorough; the last four modes in the first half of the rounds) in five modes — comments, blank lines, separators, continuation lines, terminators — plus fixed shebang-line and D85 probe pairs and a top-level family (15 fixed + 400 quick / 4000 thorough random sequences of items, `;` and line breaks): block "
         "comments and line comments inserted at random token boundaries (after identifiers, numbers, strings, punctuation, "
         "newlines, at the start; text over {letters, `*`, `/`, `**`, `//`, both quotes, `\"\"\"`, backslash, non-ASCII, keywords, "
         "brackets, newlines, `#!`}, never `*/`), newlines doubled/tripled (blank lines, also with trailing blanks), and "
         "separators exchanged (`,`+newline -> newline, `,` -> `,`+newline, top-level newline -> `;`; in generated programs "
         "`,` / newline / `,`+blank lines / newline+blank lines, trailing separators, `;` vs newline in blocks), items TERMINATED rather than "
         "separated (`;`+newline / comment / blank lines / nothing after the LAST top-level item before EOF, trailing `;` before `}`, trailing `,` "
         "before `}` `)` `]` in match arms, parameter, argument, array and tuple lists), continuation lines (a line break, also comment + "
         "line break, after binary and prefix operators, `(`, `,`, `[`, `=`), and a top-level family of items, `;` and line breaks in every "
         "order whose accept/reject verdict is compared with the model of parse_file's item loop (stray `;` must stay rejected). Per variant: "
         "token kinds (with payloads) of the real lexer equal to the original's under comment insertion, outcome and output "
         "of the re-printed program equal to the original's, and the variant's kind stream vs the Lean lexer model. "
         "distinct = distinct variant texts; non-trivial = the variant contains a comment or a changed separator",
    nontrivial=lambda req, imp: not req.endswith("#blank-line"),
    trusted_base=COMMON_TB + [
        "hook verif_lex in /repo/abra_core/src/parse.rs (cfg abra_verif)",
        "the re-printer in harness/src/bin/c29.rs keeps the text of every token and gap and only inserts at token boundaries reported by the real lexer",
    ],
    assumptions=[
        "struct bodies take line breaks only (`,` between fields is rejected by the unchanged parser), enum variants have no separator",
        "a block comment is not placed directly after a `/` token without a space (`//*` reads as a line comment); a line comment is only "
        "placed where the rest of the line holds no token",
        "the separator theorem is about the model of parse_delimited_list with `,` (Abra.Pratt.parseList) and does not cover a trailing "
        "separator before the closer; the optional `;` after top-level items is proved on the model of parse_file's item loop "
        "(Abra.TopLevel: C29_toplevel_terminator, C29_stray_semicolon_rejected); `;` inside blocks (the same parse_delimited_list with "
        "`;` as separator) and trailing separators are covered by the correspondence only",
    ],
    design_ref="DESIGN.md §6 C29",
    level_text="Theorems about the Lean lexer model: block comments (any text without `*/`), line comments, blanks and line "
               "continuations emit no token and leave the kinds of the rest unchanged, so a comment equals one space in front of "
               "any input, and written behind a space at a token boundary of a file whose prefix holds no triple-quoted literal it changes no "
               "token kind of the whole file; a `#!` first line contributes no token. About the parser models: parse_delimited_list returns the "
               "same items for `,`, newline, either followed by blank lines, leading newlines (no trailing separator); parse_file's item loop "
               "accepts every file whose `;` each directly follow an item, and rejects a leading, doubled or own-line `;`. "
               "Tied to /repo on every run by re-printing /repo's own test programs with inserted comments and varied separators.",
    level_note="C29_block/line_comment_insertion cover a comment written behind a space at any token boundary of any file whose prefix "
               "holds no triple-quoted literal (locality of lexOne proved for every other token class); prefixes with triple-quoted "
               "literals and comments glued directly to the preceding token are OPEN (stated in the file) and covered by the "
               "correspondence, which inserts comments at every kind of boundary of real programs.",
    technique="Lean 4 theorems (stepping lemmas for the tokenizer, induction over comment text / item lists) + differential correspondence and metamorphic testing against the real lexer, parser and VM",
    timeout=3000,
)
