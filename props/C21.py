from props._common import COMMON_TB

PROP = dict(
    title="Names resolve to the innermost visible declaration; imports are exact",
    lean_module="AbraProofs.Properties.C21",
    required_theorems=["C21_lookup_innermost", "C21_lookup_innermost_scope", "C21_import_exact",
                       "C21_import_first_supplier", "C21_qualified_same_decl", "C21_clash_iff", "C21_clash_iff_own"],
    harness_bin="c21",
    mismatch_is_violation=True,
    rule="(quick) 700 / (thorough) 12000 seeded multi-file programs built from an abstract description: 1-4 files, names from a "
         "pool of 6 plus one prelude name and one intrinsic name, 0-3 imports per file of every form (glob, inclusion list, "
         "except list, as-prefix; also of a missing file, of the file itself, of one file twice, cyclic), every file's function "
         "body and the main file's top level filled with let / block / if / while / for / match-arm / lambda-parameter binders "
         "nested <= 3 deep and plain / prefix-qualified uses (9 in 10 picked among the names visible at that point); half of the "
         "programs are generated clash-free; every declaration prints a unique tag and every use is a call, so the output "
         "names the declaration each use reached; unresolved / clash / bad-import diagnostics are read from check_lsp; "
         "distinct = distinct program descriptions; non-trivial = the program has an import or a shadowing binder",
    nontrivial=lambda req, imp: any(c in req for c in ("{", " g", " i", " e", " a")),
    trusted_base=COMMON_TB + [
        "FxHashMap is assumed to be a finite map (iteration order is irrelevant: each source supplies a name at most once)",
        "file discovery (lib.rs get_files/add_imports) is exercised by the correspondence only",
    ],
    assumptions=[
        "declarations are top-level functions; enum/struct/interface namespaces are not generated",
        "the for-loop variable is scoped to the loop (D39 repaired); until that fix lands the check reports the leak",
    ],
    design_ref="DESIGN.md §6 C21",
    level_text="Theorems over all worlds and statement lists about a model of add_declaration/add_other_pred, "
               "resolve_imports_file, SymbolTable and resolve_names_stmt: the scope-stack algorithm computes textbook lexical "
               "scoping; the visible names of a file are exactly builtins, prelude, own declarations and what each import form "
               "lets through; a prefix-qualified name reaches the declaration a plain import supplies; a clash is reported exactly "
               "for names supplied twice. Tied to /repo on every run by generated multi-file programs whose output names the "
               "declaration reached by every use, compared with the model and with an independent environment-passing reference.",
    level_note="The step from resolve.rs to Abra.Names is checked by correspondence, not proved; declarations are functions and "
               "local binders only (no type/enum namespaces). Trusts the harness and the Lean kernel.",
    technique="Lean 4 theorems (mutual structural induction over statements, list lemmas) about a hand-written model + differential "
              "correspondence against the real front end and VM",
    exhaustive=lambda tier: False,
)
