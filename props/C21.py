from props._common import COMMON_TB

PROP = dict(
    title="Names resolve to the innermost visible declaration; imports are exact",
    lean_module="AbraProofs.Properties.C21",
    required_theorems=["C21_lookup_innermost", "C21_lookup_innermost_scope", "C21_import_exact",
                       "C21_import_first_supplier", "C21_qualified_same_decl", "C21_clash_iff", "C21_clash_iff_own",
                       "C21_children_exact", "C21_child_visible_iff", "C21_filtered_child_invisible",
                       "C21_qualified_variant_same_decl", "C21_children_follow_decls", "C21_pattern_same_decl",
                       "C21_arms_independent", "C21_clash_iff_members", "C21_defining_expression_outside",
                       "C21_clash_count", "C21_import_decl"],
    harness_bin="c21",
    mismatch_is_violation=True,
    rule="(quick) 700 / (thorough) 12000 seeded multi-file programs built from an abstract description: 1-4 files, names from a "
         "pool of 6 plus one prelude name and one intrinsic name, 0-3 imports per file of every form (glob, inclusion list, "
         "except list, as-prefix; also of a missing file, of the file itself, of one file twice, cyclic), every file's function "
         "body and the main file's top level filled with let / block / if / while / for / match-arm / lambda-parameter binders "
         "nested <= 3 deep and plain / prefix-qualified uses (9 in 10 picked among the names visible at that point); sibling "
         "scopes are generated heavily, and half of the let / for / match binders that reuse a visible name mention that very name in "
         "their own defining expression (let initialiser, for iterable, match scrutinee), which must reach the outer declaration: matches with 2-3 arms (each binding at most one name, 2 in 3 a name that is already "
         "visible outside) whose later arms use what an earlier arm bound, if/else whose else branch uses what the then branch "
         "bound, and after every closed block / loop / lambda / match a use of a name bound inside it (every arm and both "
         "branches are executed, through a helper lambda called once per arm); every file "
         "also declares 0-2 enums / interfaces from a pool of 3 type names (the same name in several files, with different "
         "variant sets) and its bodies use variants both as qualified patterns `Ty.V` in match arms (resolved through the child "
         "namespaces) and as expressions `[prefix.]Ty.V` (resolved through the declarations), incl. variants only another file's "
         "enum of that name has; half of the programs are generated clash-free (clashing names of glob / list imports are moved "
         "into `except` / out of the inclusion list, which yields filtered imports next to an own declaration of the same name), "
         "two thirds of those with valid uses only; one use in three is in value position (`let v = f` / `let v = p.f`, then `v(0)`), half of the prefix-qualified variant "
         "expressions also carry the prefix-qualified type in an annotation, and in the not-clean half one enum / interface in "
         "eight declares a variant / method twice; every declaration prints a unique tag, every use is a call or a match against "
         "a value of the expected enum, so the output names the declaration each use reached; unresolved / clash / bad-import diagnostics are read from check_lsp; "
         "distinct = distinct program descriptions; non-trivial = the program has an import or a shadowing binder",
    nontrivial=lambda req, imp: any(c in req for c in ("{", " g", " i", " e", " a")),
    trusted_base=COMMON_TB + [
        "FxHashMap is assumed to be a finite map (iteration order is irrelevant: each source supplies a name at most once)",
        "file discovery (lib.rs get_files/add_imports) is exercised by the correspondence only",
    ],
    assumptions=[
        "fixed probes (harness/probes_bg8, Rust-side oracle): namespace-qualified functions / constructors as values, "
        "namespace-qualified types in annotations (found / not found / not a namespace), member access through a function, "
        "clashes with builtin types / intrinsics / #host functions and duplicate members, duplicate member functions per receiver "
        "type, extend / implement for non-types, a duplicate type parameter (D101), and OsFileProvider on a directory tree written "
        "under work/C21 (search order main dir, import dirs, standard modules; missing module)",
        "declarations are top-level functions, enums and interfaces; struct definitions, member functions and two-level "
        "qualified patterns (the parser accepts one prefix only) are not generated; local binders never reuse a type name",
        "the for-loop variable is scoped to the loop (D39, fixed by 2429730)",
    ],
    design_ref="DESIGN.md §6 C21",
    level_text="Theorems over all worlds and statement lists about a model of add_declaration/add_other_pred, "
               "resolve_imports_file, SymbolTable and resolve_names_stmt: the scope-stack algorithm computes textbook lexical "
               "scoping; the visible names of a file are exactly builtins, prelude, own declarations and what each import form "
               "lets through; given that the prefix resolves to the `as` declaration of file m, a prefix-qualified name reaches the declaration "
               "that `use m` supplies under that name; a name is among a file's reported clashes exactly when it is supplied at "
               "least twice (builtins counted once); the NAMES of the visible child namespaces (enum variants, interface methods, "
               "prefixes) are exactly those of the file's own types and of the types / prefix each import form lets through; and, "
               "under the hypotheses that no file declares a name twice and no clash is reported for the file, the child namespace "
               "found under a name is the one of the declaration found under it, so an unprefixed qualified variant pattern "
               "resolves to the same variant as the expression at file level. Tied to /repo on every run by generated multi-file programs whose output names the "
               "declaration reached by every use, compared with the model and with an independent environment-passing reference.",
    level_note="The step from resolve.rs to Abra.Names is checked by correspondence, not proved; declarations are functions, enums, "
               "interfaces and local binders (no structs / member functions). Trusts the harness and the Lean kernel.",
    technique="Lean 4 theorems (mutual structural induction over statements, list lemmas) about a hand-written model + differential "
              "correspondence against the real front end and VM",
    exhaustive=lambda tier: False,
)
