from props._common import COMMON_TB

PROP = dict(
    title="Unreachable memory is reclaimed and a dropped runtime frees everything",
    lean_module="AbraProofs.Properties.C07",
    required_theorems=["C07_cycle_complete", "C07_quiet_cycle_leaves_only_reachable", "C07_collector_progress",
                       "C07_quiet_cycle_terminates", "C07_drop_frees_all",
                       "C07_debt_covers_heap", "C07_increment_covers_heap", "C07_cycle_spans_k_steps",
                       "C07_quiet_cycle_three_steps", "C07_bounded_heap", "C07_bounded_heap_hits", "C07_bounded_heap_from",
                       "C07_reach_count_le_bytes", "C07_checked_pacing_step"],
    harness_bin="c07",
    mismatch_is_violation=False,
    rule="(A) generated allocation-heavy programs (quick 24 / thorough 120) run with the collector driven by hand so that "
         "cycle follows cycle (k = 1..4 increments per VM step, random bursts in thorough): every transition is one case "
         "(collector increment = model gcStep; VM step inside the mutator contract), and on every completed cycle the "
         "executable form of C07_cycle_complete is checked (heap at cycle end within reachable-at-start plus allocated-since); "
         "(B) eight loop programs with bounded live data run under the real pacing for N and 10N iterations with the peak heap "
         "read after every step: the peak at 10N must stay within 2x the peak at N plus 4096 B (64 objects); plus three task programs (many short-lived tasks created one after the other: finishing normally, in pairs sending struct messages, ending with a runtime error) whose whole-process live bytes (counting allocator) must not grow with the number of tasks that have ended; (D) the pacing model M5p against the REAL pacing: the eight loop "
         "programs, nested-pop programs (cycles of 5 and 6 calls), a static-string store program, a consumer thread that keeps "
         "receiving messages of many small objects (one ChannelRead allocates a whole message: 40 tuples with every step "
         "validated, 4000 tuples = 256 KB per instruction with the oracles only), generated and mover programs "
         "run with the harness calling the real maybe_gc of the main green thread once before every instruction (and, in some "
         "runs, only every k-th instruction while marking): every call is one case (model maybeGc maps the before-snapshot with sizes and counters to "
         "the after-snapshot; `gcp idle` when an idle call changes nothing), every instruction and host call that changes the "
         "collector-visible state is one case (pacing contract pmutatorOKb + accounting), and the executable conclusions of the "
         "pacing theorems are oracles on the implementation: heap_size = recount <= gc_debt, a marking increment drains the gray "
         "stack, a sweeping increment ends the cycle with last_gc_heap_size = heap_size, a cycle spans at most reachCount+3 calls, "
         "and at every step heap_size <= 2R + (3M+9)A with R (reachable bytes when a cycle starts), A (bytes allocated between two "
         "calls) and M (marking increments of one cycle that found an unmarked root) as observed on the run so far "
         "(C07_bounded_heap_hits; also the weaker bound with N reachable objects, C07_bounded_heap); (C) eight programs (string constants, arrays, structs, "
         "closures, tasks finished and unfinished, a runtime error) go through repeated compile/Runtime::new/run/drop rounds "
         "under a counting global allocator: live bytes must not grow. distinct = distinct request lines; non-trivial = "
         "collector not idle in the before-state",
    nontrivial=lambda req, imp: " phase=i " not in req[:20],
    trusted_base=COMMON_TB + [
        "hook abra_core::vm::verif_gc (snapshot, manual stepping, heap statistics, pacing counters and object sizes)",
        "pacing model M5p: usize arithmetic is modelled in Nat (no overflow of heap_size, gc_debt, 2*gc_debt, 2*last_gc_heap_size); "
        "the budget consumed by static strings that the write barrier pushed on the gray stack is an input (`leak`) of a marking "
        "increment, deducted up front (exact unless such an entry exhausts the slice), and the theorems assume it leaves the slice "
        "above heap_size (always true when no such entry is on the stack)",
        "the hypotheses of C07_bounded_heap are premises about the program (reachable bytes <= R and objects <= N wherever a cycle STARTS, at a call of "
        "maybe_gc, at most A bytes allocated between two calls) and the mutator contract; on real runs they are measured, not proved",
        "the counting global allocator of the harness; Rust's Vec/Box/Arc ownership (a dropped owner frees its allocation)",
        "the Drop ledger model states the ownership structure (each thread owns its heap_list, the shared part owns the static strings); that the Rust Drop impls implement it is checked by the allocator oracle only",
    ],
    assumptions=["the heap bound is a theorem about the pacing model (one green thread; maybe_gc once before every instruction); that vm.rs "
                 "implements that model is validated per call and per instruction on real executions (D), not proved",
                 "real cycles take 3 calls of maybe_gc unless the program pops nested containers in consecutive instructions right after "
                 "a cycle starts (then one more call per level, observed: 5 and 6): C07_bounded_heap charges N+3 calls to every cycle "
                 "(N reachable objects, always sound), C07_bounded_heap_hits M+3 calls under the hypothesis that at most M increments per "
                 "cycle find an unmarked root (measured on real runs)"],
    design_ref="DESIGN.md §6 C07",
    level_text="Theorem over all interleavings within a collection cycle: whatever is still allocated when the collector returns to idle "
               "was reachable when the cycle started or allocated during it (so unreachable objects are reclaimed by the cycle, floating "
               "garbage by the next); every collector increment of a running cycle strictly decreases a work measure, so a quiet cycle ends within mu increments; the pacing (M5p: object sizes, heap_size, last_gc_heap_size, gc_debt): gc_debt >= heap_size is an invariant, hence one marking "
               "increment (slice 2*debt) empties the gray stack and one sweeping increment finishes the sweep, a cycle is over after at most reachCount+3 calls of maybe_gc "
               "(3 when no unmarked root appears), and for every run with reachable data <= R bytes / N objects whenever a cycle starts and <= A bytes allocated per step, heap_size <= 2R + (3N+9)A at every "
               "point (C07_bounded_heap), and <= 2R + (3M+9)A when at most M marking increments per cycle find an unmarked root (C07_bounded_heap_hits; M = 0 unless the program pops nested containers in consecutive instructions); a ledger statement for Drop. Tied to vm.rs by per-transition validation of real executions, a peak-heap "
               "oracle under the real pacing and a counting-allocator oracle for create/run/drop.",
    level_note="The pacing arithmetic and the heap bound are theorems about model M5p, validated against the real maybe_gc call by call; "
               "the Rust Drop implementations are covered by an oracle, not a theorem. Multi-threaded programs: each green thread has its "
               "own collector and counters (the theorem is per thread); the pacing validation observes the MAIN green thread only (two of its programs have a producer task whose own collector is not validated).",
    technique="Lean 4 ghost-set invariant proof over the mark/sweep state machine, potential-function proof of the pacing (debt covers heap, "
              "run invariant linking heap_size, last_gc_heap_size, phase and step count) + trace validation against the real pacing, peak-heap and counting-allocator oracles",
)
