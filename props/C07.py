from props._common import COMMON_TB

PROP = dict(
    title="Unreachable memory is reclaimed and a dropped runtime frees everything",
    lean_module="AbraProofs.Properties.C07",
    required_theorems=["C07_cycle_complete", "C07_quiet_cycle_leaves_only_reachable", "C07_collector_progress",
                       "C07_quiet_cycle_terminates", "C07_drop_frees_all"],
    harness_bin="c07",
    mismatch_is_violation=False,
    rule="(A) generated allocation-heavy programs (quick 24 / thorough 120) run with the collector driven by hand so that "
         "cycle follows cycle (k = 1..4 increments per VM step, random bursts in thorough): every transition is one case "
         "(collector increment = model gcStep; VM step inside the mutator contract), and on every completed cycle the "
         "executable form of C07_cycle_complete is checked (heap at cycle end within reachable-at-start plus allocated-since); "
         "(B) six loop programs with bounded live data run under the real pacing for N and 10N iterations with the peak heap "
         "read after every step: the peak must not grow with N; (C) eight programs (string constants, arrays, structs, "
         "closures, tasks finished and unfinished, a runtime error) go through repeated compile/Runtime::new/run/drop rounds "
         "under a counting global allocator: live bytes must not grow. distinct = distinct request lines; non-trivial = "
         "collector not idle in the before-state",
    nontrivial=lambda req, imp: " phase=i " not in req[:20],
    trusted_base=COMMON_TB + [
        "hook abra_core::vm::verif_gc (snapshot, manual stepping, heap statistics)",
        "the counting global allocator of the harness; Rust's Vec/Box/Arc ownership (a dropped owner frees its allocation)",
        "the Drop ledger model states the ownership structure (each thread owns its heap_list, the shared part owns the static strings); that the Rust Drop impls implement it is checked by the allocator oracle only",
    ],
    assumptions=["the quantitative bound of heap size under the real pacing (slice = 2*debt) is checked by oracle (B), not proved",
                 "progress is proved for collector increments (measure mu); that the real pacing gives the collector enough increments relative to allocation is checked by oracle (B)"],
    design_ref="DESIGN.md §6 C07",
    level_text="Theorem over all interleavings within a collection cycle: whatever is still allocated when the collector returns to idle "
               "was reachable when the cycle started or allocated during it (so unreachable objects are reclaimed by the cycle, floating "
               "garbage by the next); every collector increment of a running cycle strictly decreases a work measure, so a quiet cycle ends within mu increments; a ledger statement for Drop. Tied to vm.rs by per-transition validation of real executions, a peak-heap "
               "oracle under the real pacing and a counting-allocator oracle for create/run/drop.",
    level_note="Bounded-heap arithmetic of the pacing and the Rust Drop implementations are covered by oracles, not theorems.",
    technique="Lean 4 ghost-set invariant proof over the mark/sweep state machine + trace validation, peak-heap and counting-allocator oracles",
)
