from props._common import COMMON_TB

PROP = dict(
    title="Runtime errors report the failing file, line and call stack",
    lean_module="AbraProofs.Properties.C32",
    required_theorems=["C32_lookup_compress", "C32_trace_frames", "C32_trace_order", "C32_call_ret_balanced"],
    harness_bin="c32",
    mismatch_is_violation=True,
    rule="generated programs (with non-ASCII comments and string literals among the filler lines) over 1-3 files (mutual `use`), 0-5 named functions below <main> placed in random files, "
         "optional recursion (1-3 extra frames) and calls through a lambda (CallFuncObj), call sites in 8 statement forms, "
         "failing operation of 15 kinds (inside the wrapper generated for an intrinsic used as a function value (array_get, divide_int; "
         "D92: attributed to the place where the function value is made), int/float division and remainder by zero, + * unary- ^ overflow, array read/write "
         "out of bounds, panic(), ! on option.none / result.err inside the prelude) in 9 statement contexts incl. multi-line "
         "calls; plus 22 D109 programs (callee kinds: function, method, struct constructor, variant constructor with DEFAULT argument values "
         "declared in lib.abra on other lines, called from main.abra at top level and inside a function with the default omitted; failure "
         "inside the callee, inside the default's own expression (located at the declaration, in the calling function), inside a function "
         "the default calls, after the call on the same line, multi-line call (last written argument), nested calls, named argument); "
         "plus hard probes: two three-file programs with a 65600-element int array literal in <main> (more than 65536 distinct "
         "constants) in which immediates with late constants — expanded into push + plain instruction by expand_immediates — precede the "
         "failing site (division by zero in leaf.abra at depth 3; array index out of bounds in helper.abra after a finished call) and the "
         "call site of every frame; the model's input is the FINAL instruction list (optimized assembly with each expanded immediate "
         "duplicated), and its length must equal the compiled program's instruction count; and a function frame with 16500 locals (D90: no register fusion beyond 15 bits) failing at a known line; "
         "quick 420 programs / thorough 6000, every second one re-laid-out so that a caller line and the callee's header-to-failing-line "
         "region occupy the same byte offsets in their two files (aligned-offsets layout; line numbers unchanged); per program 3 cases: (render) VmError text vs the expected chain rendered "
         "by the model, (build) the three location tables of the compiled program vs SrcMap.build of the optimized assembly's "
         "annotations, (locs) pc_to_error_location(pc+1) for EVERY instruction vs SrcMap.lookup; distinct = distinct request; "
         "non-trivial = a trace of depth >= 2 or a table with >= 3 runs",
    nontrivial=lambda req, imp: (req.startswith("srcmap render") and len(req.split(" #")[0].split()) >= 5) or imp.count(",") >= 2 or len(imp.split()) >= 3,
    trusted_base=COMMON_TB + [
        "Rust slice::binary_search_by_key on strictly increasing keys returns Ok(i) for the unique hit and Err(insertion point) otherwise (modelled by SrcMap.search)",
        "cfg(abra_verif) hooks abra_core::verif_asm (assembly trace, program dump) and VmGreenThread::verif_error_location (read-only)",
        "Rust fmt width padding `{:width$}`",
    ],
    assumptions=[
        "the driver parses every instruction as kind `other`: the call/return part of the model (Step, Reachable, stackTrace) is tied to the VM "
        "only through the rendered chain of programs whose frames the generator knows, not instruction by instruction",
        "D12 (character offsets used as byte offsets) is repaired in /repo (5388a80); non-ASCII filler lines are part of the main stream",
        "fewer than 2^32 instructions and lines (`as u32` casts in create_source_location_tables are not modelled)",
        "which annotation the code generator and the peephole optimizer attach to an instruction is checked by the correspondence "
        "(expected chain known to the generator), not proved",
        "errors raised on the main thread (a task starts with an empty call stack; covered by the model's Reachable.start, not by the generator)",
    ],
    design_ref="DESIGN.md §6 C32",
    level_text="Theorems over every annotated line list and every reachable (pc, call stack) about the model SrcMap of "
               "create_source_location_tables, pc_to_error_location, make_stack_trace and the location order of Display for VmError: "
               "lookup(pc+1) on the compressed tables is the annotation of instruction pc; every frame maps to its call instruction; "
               "printed order is failure location then call sites innermost first. Tied to /repo on every run by failing programs with a "
               "known expected chain, table dumps and per-pc lookups.",
    level_note="Partial: the mapping from source text to the annotation of each instruction (codegen's update_current_file_and_lineno, "
               "optimizer keeping the first instruction's annotation) is covered by the correspondence only; binary search is modelled by its contract.",
    technique="Lean 4 theorems (induction over the line list, invariant over reachable call stacks) about a hand-written model + differential correspondence against the real compiler and VM",
)
