from props._common import COMMON_TB

PROP = dict(
    title="Editor analysis never crashes on incomplete code",
    lean_module="AbraProofs.Properties.C34",
    required_theorems=["C34_completion_slice_safe", "C34_completion_scan_inbounds", "C34_findNode_total",
                       "C34_findNode_none_past_end"],
    harness_bin="c34",
    mismatch_is_violation=False,
    rule="corpus = the Abra programs embedded as string literals in /repo/abra_core/tests/integration/{e2e_bytecode,lsp,threads}.rs "
         "(extracted at run time, ~210 programs) plus 8 hand-written programs with non-ASCII strings, comments and "
         "identifier-adjacent text, task blocks, interfaces, extensions; texts = (quick) for a rotating third of the corpus the "
         "prefixes at line ends, behind every `.` and at every 9th char boundary, 12 token/char-level mutations of every program "
         "(token delete / duplicate / swap / move / replace, char replace / delete, insertion of non-ASCII and bracket/quote/"
         "comment characters, span deletion; one in four mutated twice), the whole programs, 300 grammar-garbage texts / "
         "(thorough) every prefix at every char boundary of every program, 200 mutations each, 5000 garbage texts; per text "
         "check_lsp, errors(), then definition_at, type_at, completions_at at EVERY byte offset 0..=len+2 (inside multi-byte "
         "characters and past the end included), each under catch_unwind, in child processes (a dead worker is a failing input; a worker silent for 40 s is re-run alone and judged by 300 s of its own CPU time) (a dead worker is a "
         "failing input too); one spec failure per distinct panic site, shrunk to the shortest failing prefix; for a sample of the "
         "texts (every 6th / 40th) both AST searches are compared with the Lean model at every offset on the error-recovered "
         "tree; plus the INFINITE-TYPE family (self-referential definitions through tuple, array, option, result, struct, lambda, call argument, nested combinations, if/match branches, destructuring; recursive, self-valued, mutually recursive and lambda forms, ~290 texts) and the TYPE-ARGUMENT ARITY family (array, option, result, channel, generic struct / enum with 0, <>, too few, exact, too many arguments in let / parameter / return / field / variant / lambda-parameter positions, type declared above and below its use, each against a literal of the type, plus the prefix ending at the annotation, ~1180 texts); the ILL-FORMED DECLARATION family (duplicate parameter / field / variant / type-parameter / method names in functions, lambdas, structs, enums, interfaces, implementations and extensions, crossed with default values, named arguments, `.Variant` shorthand, patterns and calls with too few / too many / duplicate / unknown named arguments, ~550 texts), the DIVERGING-EXPRESSION family (return / break / continue / blocks ending in them / panic / a never-returning call in 44 expression positions: match scrutinee against every pattern kind, if and while conditions, operands, call arguments and callee, index, array / tuple / struct / variant components, let and assignment right-hand sides, for iterable, unwrap, try, member access, lambda body, return operand, block tail, task body, default values; inside a function, as its tail, and at top level, ~1480 texts) and the LITERAL-EDGE family (every prefix at every char boundary of 8 literal-heavy texts, 22 degenerate quote / escape spellings in three contexts, ~500 texts); the DEFAULT-VALUE family (16 binding constructs — let, tuple let, match with bindings, for, lambdas, nested call relying on its own default, reference to an earlier parameter, if/while/nested blocks — as default value of function, untyped-function, lambda and method parameters, struct and variant fields and interface implementations, the default omitted / supplied / named at call sites at top level, in functions, lambdas and tasks, ~740 texts); the DEFAULT-CONTEXT family (26 expression forms that consult the checker's context stacks — `?` on option / result / unknown / non-Try operands, alone, nested, inside arithmetic, blocks, lambdas, calls, match and if; `!`; return / break / continue and blocks, matches, ifs ending in them; a loop with break; panic; a task — as (part of) a default value of typed / untyped functions, functions returning option, lambdas, extension methods, impl methods in and not in the interface, struct and variant fields, the host at top level and, for lambdas, nested in a function, loop, lambda and task, with and without a call that omits the default, ~960 texts); the EDITING-STATE families: balanced skeletons (the text cut at token boundaries with every open bracket and quote closed again in order, as an auto-closing editor holds it; quick every 13th / 11th boundary, thorough every boundary), one identifier occurrence at a time truncated to a proper prefix (always to its first letter for capitalised names, which turns a type name into a TYPE VARIABLE; thorough: every prefix length of every occurrence), top-level items swapped / duplicated / moved / reversed, and `implement` / `extend` headers over {type variables T and C, unknown name, int, string, array<int>, array<T>, option<int>, function type, tuple, wildcard, user struct, instantiated and open generic struct, over-applied struct} x the eleven prelude interfaces with empty / partial / full bodies x uses that reach them (for, `?`, `!`, ==, <, +, .., println, indexing), ~830 texts, the NAMESPACE family (two files; every declaration kind of a library — function with default, struct, generic struct, enum and variants, interface, implementation, extension methods — reached through `use lib1 as u` in call, constructor, qualifier, pattern, type-annotation, extension-target and first-class-value position, under five import headers, ~220 texts) and the ASSIGNMENT family (the six assignment operators on 26 target kinds: mutable / immutable variable, fields, nested fields, array index, nested index, field of index, index of field, user Index type plain / nested / in a field, call results, literals, tuple, string index, unknown name; int / float / string / self right-hand sides; at top level, in functions, lambdas and loops, ~540 texts); the COMPLETION family (dot completion behind ASCII identifiers directly preceded by non-ASCII characters, non-ASCII receivers, string / number / bracket receivers, an `as` alias over two files, interfaces with output types, function names, bare `return`, lambda parameter defaults — in the stream at every offset and, in process, against expected member labels, 53 texts), the 51 witness programs of the coverage analysis (embedded in harness/src/fewitness.rs) as corpus programs, and the API on degenerate arguments (missing main file, unknown file ids, main file named prelude.abra). distinct = distinct (tree, search); non-trivial = the answer names a node",
    nontrivial=lambda req, imp: any(ch.isdigit() for ch in imp),
    trusted_base=COMMON_TB + [
        "core Lean's String model: String.Pos.Raw.IsValid (\"the bytes before the position are valid UTF-8\") is taken as the "
        "meaning of Rust's str::is_char_boundary on a valid UTF-8 text",
        "the worker-process harness (harness/src/fework.rs) that attributes a process death to the text being analysed",
    ],
    assumptions=[
        "the confirmed crashes (D45, D53, D53b tuple cycle, D54-D57, D60, D64-D66, D76 duplicate parameter + default, D77 diverging match scrutinee, D79 compound assignment on a user Index type, D80 let in a default value, D82 namespace-qualified type as qualifier / value, D83 let in a variant-field default, D84 for loop in a default value, D86 unary minus on a user Num type; all fixed) are hard regression inputs "
        "(fecorpus::GATES), run in a child process before the stream: a crash on any of them is a failing input; nothing is gated",
        "only the main file is damaged; imports of the corpus programs are left unresolved",
    ],
    design_ref="DESIGN.md §6 C34",
    level_text="Theorems: for every valid UTF-8 text and every cursor offset the identifier scan of completions_at never indexes out of "
               "bounds and the slice it takes starts and ends on char boundaries (String.Pos.Raw.IsValid) with start < end < len; "
               "both AST searches behind definition_at/type_at are total at every offset and answer nothing past the end. The "
               "rest of the property (parser recovery, checker on partial ASTs) is a crash search: every query at every byte offset "
               "of prefixes, mutations and garbage, with process isolation so that stack overflows and hangs are caught as well.",
    level_note="partial by design: no model of the checker's behaviour on partial ASTs; absence of crashes outside the modelled "
               "parts is searched, not proved. The search found eight crashing inputs on the pinned tree (D53-D57, D64-D66), all in "
               "abra_core::check itself.",
    technique="Lean 4 theorems (induction over the backward scan, core UTF-8 position lemmas; corollary of the C35 search "
              "theorems) + process-isolated crash search over prefixes/mutations/garbage at every byte offset + model tie of the "
              "searches on damaged trees",
    timeout=900,
    exhaustive=lambda tier: False,
)
