from props._common import COMMON_TB

_OPS = {"and", "or", "eq", "ne", "fmt", "lt", "le", "gt", "ge", "add", "sub", "mul", "div", "mod", "pow", "not",
        ".", "!", "?", "[", "("}

PROP = dict(
    title="Expressions parse according to the documented precedence table",
    lean_module="AbraProofs.Properties.C31",
    required_theorems=["C31_doc_table_matches_code", "C31_parser_total", "C31_parse_print_prefix", "C31_parse_print",
                       "C31_neg_literal_uniform", "C31_neg_literal_examples", "C31_fold_breaks_table",
                       "C31_code_agrees_with_reference", "C31_code_extends_reference", "C31_reference_atom_blind",
                       "C31_newlines_at_operand_start", "C31_newline_ends_expression", "C31_continuation_examples"],
    harness_bin="c31",
    # the model's answer on malformed token lists (err/partial) is more than the property fixes; a
    # violation of the property itself is found by the harness's own oracle (tree vs. parser, value vs.
    # reference evaluator on the tree), which reports the concrete expression
    mismatch_is_violation=False,
    rule="(1) the recorded D11 shapes and hand-picked groupings; (2) typed random trees (depth 1..5 quick / 1..7 thorough) over "
         "all 15 binary operators, unary minus and not, with int/float/bool/string literal and variable atoms incl. negative "
         "literals, printed with printMinimal, parsed by the real lexer+parser (verif_parse_expr) and compared with the tree, and "
         "evaluated by the real compiler+VM against a reference evaluator that evaluates the tree; (3) untyped trees over every "
         "node kind (postfix member/index/call/!/?, tuples, arrays), minimal and with redundant parentheses; (4) random token "
         "soup for the error branches; (5) the exhaustive family `a op1 -L op2 c` (a negative literal as RIGHT operand followed by another "
         "operator): all 15x15 operator pairs x L in {2, 2.5, 0, 9223372036854775808} x {plain, parenthesised, with newlines, as call "
         "arguments}, three-operator chains with a rotating third operator, and evaluated int/float instances; each compared with "
         "the variable form under literal<->variable substitution, with an independent reference parser in Rust (documented table, `-` "
         "always a prefix operator of level 6) and with the model; the reference parser is also run on every other case; (6) continuation-line layouts (a line break, comment or blank line after binary/prefix operators, `(`, `,`, `[`) of 750 quick / 10000 thorough typed trees, evaluated as `let r =<nl>…` and match-arm bodies, and of a sixth of the untyped trees; (7) fixed probes: D85 (5 parse, 4 program), D111 (4), seven operand forms outside the model (named arguments, leading-dot variants, lambdas) against fixed expected trees. Every case is also run through the Lean Pratt model on the token kinds the real lexer "
         "produced. distinct = distinct token lists; non-trivial = at least two operator tokens, or the answer is not `ok`",
    nontrivial=lambda req, imp: sum(1 for w in req.split()[1:] if w in _OPS) >= 2 or not imp.startswith("ok"),
    trusted_base=COMMON_TB + [
        "hook verif_parse_expr/verif_lex in /repo/abra_core/src/parse.rs (cfg abra_verif): S-expression printer of the parsed tree",
        "the harness's Rust re-implementation of printMinimal (harness/src/frontend.rs) is the printer of AbraModel/PrattPrint.lean",
        "reference evaluator in harness/src/bin/c31.rs (i64 checked arithmetic, Euclidean %, f64 host arithmetic, Rust `{}` float rendering)",
    ],
    assumptions=[
        "named call arguments, leading-dot variants and lambdas as operands are outside the token-level model; the harness checks them against "
        "fixed expected trees (Rust-side oracle) only",
        "token-level model: lambda speculation (`x -> e`), named call arguments (`f(x = e)`), match/if/block/task terms and the "
        "leading-dot form are not modelled; the generators never produce `->`, `=`, `{`, `if`, `match`, `task` or a leading `.`",
        "a prefix-operator expression is an expression of the operator's documented level (unary minus 6, not 10) and is "
        "parenthesised wherever a tighter level is demanded, e.g. `a ^ (-b)`, `a + (-b)`, `-(-a)`",
        "negative exponents, float division by zero and non-finite float results are left to C15/C16 (the evaluator skips them)",
    ],
    design_ref="DESIGN.md §6 C31",
    level_text="Theorems about a token-level Lean model of parse_expr_bp/parse_expr_term/parse_delimited_list (Abra.Pratt): the "
               "parser terminates on every token list (fuel bound proved), and for every well-formed expression tree (WF: integer literals fit i64, "
               "tuples have >= 2 components) parse(printMinimal t) = t where printMinimal parenthesises by the documented table only; on such "
               "printed trees substituting literals by variables (or back) gives the same tree under the same substitution; on every token "
               "list the code yields the reference parser's (`-` always a prefix operator) tree whenever the reference yields one; line breaks "
               "are skipped exactly at operand starts. "
               "Tied to /repo on every run by parsing printed random trees with the real lexer+parser, comparing with the tree and "
               "with the model, and evaluating them in the real VM against a reference evaluator on the tree.",
    level_note="The model follows the parser after the fixes of D11 (46f8617: `-<literal>` stays a literal only when no tighter operator "
               "follows) and D85 (7fe8312: newlines are skipped before the prefix-operator test); the pre-D11 treatment is kept as "
               "FoldMode.always with a proved counterexample. Literal/variable uniformity in arbitrary (unparenthesised) context is not one "
               "theorem: it follows from C31_code_extends_reference (one direction only; the converse is not proved) plus "
               "C31_reference_atom_blind, and is checked exhaustively for `a op1 -L op2 c` by the correspondence. No layout-independence theorem "
               "for whole printed trees with inner line breaks. Step from parse.rs to Abra.Pratt is checked by correspondence, not proved.",
    technique="Lean 4 theorems (mutual structural induction over trees, fuel monotonicity) over a hand-written Pratt model + differential correspondence against the real parser and VM",
    timeout=3000,
)
