from props._common import COMMON_TB

PROP = dict(
    title="Compiled programs compute what the language reference specifies",
    lean_module="AbraProofs.Properties.C02",
    required_theorems=["C02_compile_correct_F0", "C02_compile_correct_F0_program", "C02_d21_witness_repaired",
                       "C02_break_pops_pending", "C02_reg_roundtrip", "C02_reg_encode_range",
                       "C02_pending_jump_at_depth", "C02_pending_neg_constant_counted", "C02_pending_operands_wait",
                       "C02_pending_compound_index", "C02_pending_loop_resets"],
    harness_bin="c02",
    # `sem …` requests (end to end): the model IS the executable specification, so a difference is a concrete failing
    # program — the harness itself asks the model, shrinks the program and reports it through spec_fail (=> VIOLATION with
    # a failing input).  `cgen …` requests compare exact instruction streams, more than the property fixes: a bare
    # difference there (no spec_fail) is reported as `no-failing-input-found`.
    mismatch_is_violation=False,
    rule="typed program generator (harness/src/progen.rs), tiers F0 (ints, bools, locals, operators, short-circuit, "
         "if/else, blocks+shadowing, let/var, assignment forms, while/break/continue, println), F1 (+tuples, structs and variants incl. void components in any position with refutable multi-arm matches over them, "
         "enums, match, arrays with aliasing, for, strings incl. all six comparison operators on designed pairs), F2 (+functions incl. void-typed parameters in any position, recursion, return, option/result, ?/!), "
         "F3 (+lambdas, nested lambdas, captures, reassignment before/after creation, top-level functions and struct constructors as first-class values (Sem `fnref`/`mkref`), arrays of functions called directly `fs[i](x)`); all tiers from F1: `_` in let annotations (`array<_>`, `(_, string)`, `_ -> int`), void struct fields as assignment targets with effectful object expressions; from F2: a function with 32..37 parameters called with operands pending; "
         "two thirds of the programs MAY have break/continue while operands of the enclosing loop are pending (the generator option is on for them; in the quick tier about 70 of the 380 programs actually contain such a jump: blocks `{ if c { break } else { }; e }` as operands of operators, calls, tuple/array/struct components, `..` chains, match scrutinees/arms, compound right-hand sides; repaired D21); quick: 110+90+90+90 programs "
         "(4-12 statements, node budget 40-88), thorough: 4x2500 (budget up to 200); each compiled and run by the real "
         "compiler+VM under step budgets {1000},{1},{2,3,7},{100}; output + final value (Runtime::top for int/bool/"
         "string) + error kind compared with Abra.Sem on the generator's own AST; every F0 program additionally: real "
         "unoptimised <main> instruction stream (optimizer-trace hook) vs compileF0, modulo label names and slot "
         "numbering (the model emits the Pops of break/continue, fix 0c43abd); pending-jump family (harness/src/bg9cov.rs): the jump-carrying block `{ if c { break|continue } else { }; v }` as the operand of 66 constructs - every place where values wait on the operand stack or the translator pushes/consumes one by hand: binary operators and `..` at int/float/string/bool, the constant of unary minus on int AND float (also nested), not, if condition/branch, both operands of or/and, match scrutinee (int/string/bool/tuple) and arms, call arguments in every position incl. after a void argument and at float, method receiver/argument, function-value argument and callee index, tuple/array/struct/variant components after void ones, unwrap operand, index read, let/assignment/expression statement, `x op= e` at int and float, `a[i] = e` / `a[i] op= e` on arrays and on a user Index with the jump in the array, the index and the right-hand side, `o.f = e` / `o.f op= e` with the jump in object and right-hand side incl. a void field, push argument, the condition of an inner while and the iterable of an inner for (jump of the ENCLOSING loop), an inner loop with its own jump, the same inside a lambda, an array literal of 65538 elements with the jump beyond element 65535 - each under while / for over an array / for over a range x break / continue x operand / statement placement x <main> / function (quick: 397 programs, thorough: 794), the loop nested in `100 + { loop; acc }` so that a leaked or over-popped slot changes the printed value; oracle 1: expected output computed in Rust; oracle 2 (`pending ...`): the number of Pops the real translator emits for every break/continue (unoptimised assembly, instructions carry their source line) against the Lean model Abra.Pending of the true operand-stack depth - flags a missing or surplus count even where the value happens to survive; tuple-comparison family (48 quick / 480 thorough programs): tuples of arity 2-4 with int / string components (bool for == and !=) compared with < <= > >= == != on variables, on literals and as an operand, pairs with an equal prefix differing at each position (later components random) and equal tuples, plus `[x, y].sort()`; coverage-guided template families with Rust oracles (harness/src/bg9cov.rs): calls with 31..64 arguments through a generic / member function / function value / lambda, void struct field targets, wildcard annotations, `fs[1](4)` (D91), six D21 regression programs (break/continue in block, tuple, call-argument, `..`, array, struct, unary-minus and match operands, nested for, loop inside a lambda); ten regression programs of repaired defects (D16, D36-D39, D41, N6, N7, D59, D71) must behave as "
         "the reference says (spec_fail otherwise, hist keys regression:*) and their shapes are unconditionally in the stream; the three former D21 witnesses are hard regression programs (105 / 105 / 6); non-trivial = program with output, an error, or a jump in its code",
    nontrivial=lambda req, imp: (req.startswith("sem") and (imp.startswith("error") or not imp.endswith(" -")))
                                or (req.startswith("cgen") and "jump" in imp),
    trusted_base=COMMON_TB + [
        "Abra.Sem (lean/AbraModel/Sem.lean) is the executable reading of the language reference (book/src/language_reference): "
        "it is the specification side of the differential tie, not verified against anything else",
        "the generator's two renderings of one AST (Abra source text / S-expression) agree (harness/src/progen.rs)",
        "F0 theorem: `print t` stands for `Call 1 prelude.println<t>`; that the compiled prelude function pops its argument and "
        "emits its decimal/boolean text plus newline is assumed in the theorem and exercised by the end-to-end tie",
        "Abra.I64 (C15) for the integer instructions; VMCore and compileF0 are hand-written models tied by correspondence "
        "(instruction streams for F0; behaviour end to end)",
        "hook 08c41c5 (abra_core::verif_asm: optimizer trace) used read-only",
    ],
    assumptions=[
        "where the reference is silent the interpreter follows the code: `o.f = e` evaluates e before o, in `f(args)` with an "
        "expression callee the arguments come first, break/continue in a while condition refer to the enclosing loop, "
        "`for x in arr` re-reads the length every iteration; generated programs keep such targets side-effect free",
        "the template families of harness/src/bg9cov.rs (calls with >= 32 arguments in generic/member/function-value form, void struct "
        "field targets, wildcard annotations) use constructs outside the generator AST: their oracle is the expected output "
        "computed in Rust from the language reference, not Abra.Sem",
        "Abra.Pending (lean/AbraModel/Pending.lean) is a hand-written model of how many operands each construct has on the stack while its "
        "sub-expressions run, written against the emitted instruction sequences (it covers constructs outside F0 - floats, match, calls, "
        "index/field assignment forms, for, lambdas); for F0 it agrees with compE/compS by construction (C02_pending_jump_at_depth), the "
        "agreement on whole F0 expressions is not proved",
        "tuple comparisons are outside Abra.Sem (its `<`/`<=` are defined on ints and strings, `==` structurally): the oracle of the tuple-comparison "
        "family is Rust's lexicographic order on the component lists (the documented order of the prelude Ord/Equal implementations for tuples)",
        "DepthSafe is no longer a hypothesis: the compile model follows the repaired translator (pending-operand count, Pops before "
        "the jump of break/continue, 0c43abd) and C02_compile_correct_F0 / _program hold for every F0 program; outside F0 "
        "(for loops, calls, tuples, match) the same behaviour is covered by the end-to-end tie only",
    ],
    design_ref="DESIGN.md §6 C02",
    level_text="Leroy-style compiler-correctness theorem for fragment F0 (simulation between the reference interpreter and the VM "
               "core running compileF0 output, all expressions/programs incl. break/continue in the middle of an expression, induction on fuel for loops), Reg encode/decode round trip, "
               "the former D21 counterexample proved repaired; broad differential tie against the reference interpreter for tiers F0-F3.",
    level_note="partial: the theorem covers F0 only (ints, bools, locals, operators, if/else, blocks, let/var, assignment forms, "
               "while/break/continue, println of ints/bools), without side condition; heap data, functions, closures, match, for and strings "
               "are covered by the end-to-end tie only. Type soundness ('well-typed F0 never gets stuck in Sem') is not proved; a "
               "stuck/timeout model answer shows as a mismatch in the tie.",
    technique="Lean 4 simulation proof (mutual induction on interpreter fuel) over hand-written models + differential "
              "correspondence against the real compiler and VM (behaviour and instruction streams)",
    timeout=3000,
)
