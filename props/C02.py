from props._common import COMMON_TB

PROP = dict(
    title="Compiled programs compute what the language reference specifies",
    lean_module="AbraProofs.Properties.C02",
    required_theorems=["C02_compile_correct_F0", "C02_compile_correct_F0_program", "C02_depth_unsafe_counterexample",
                       "C02_compile_correct_F0_needs_depth_safe", "C02_reg_roundtrip", "C02_reg_encode_range"],
    harness_bin="c02",
    # `sem …` requests (end to end): the model IS the executable specification, so a difference is a concrete failing
    # program — the harness itself asks the model, shrinks the program and reports it through spec_fail (=> VIOLATION with
    # a failing input).  `cgen …` requests compare exact instruction streams, more than the property fixes: a bare
    # difference there (no spec_fail) is reported as `no-failing-input-found`.
    mismatch_is_violation=False,
    rule="typed program generator (harness/src/progen.rs), tiers F0 (ints, bools, locals, operators, short-circuit, "
         "if/else, blocks+shadowing, let/var, assignment forms, while/break/continue, println), F1 (+tuples, structs and variants incl. void components in any position with refutable multi-arm matches over them, "
         "enums, match, arrays with aliasing, for, strings incl. all six comparison operators on designed pairs), F2 (+functions incl. void-typed parameters in any position, recursion, return, option/result, ?/!), "
         "F3 (+lambdas, nested lambdas, captures, reassignment before/after creation); quick: 110+90+90+90 programs "
         "(4-12 statements, node budget 40-88), thorough: 4x2500 (budget up to 200); each compiled and run by the real "
         "compiler+VM under step budgets {1000},{1},{2,3,7},{100}; output + final value (Runtime::top for int/bool/"
         "string) + error kind compared with Abra.Sem on the generator's own AST; every F0 program additionally: real "
         "unoptimised <main> instruction stream (optimizer-trace hook) vs compileF0, modulo label names and slot "
         "numbering; main stream is DepthSafe; ten regression programs of repaired defects (D16, D36-D39, D41, N6, N7, D59, D71) must behave as "
         "the reference says (spec_fail otherwise, hist keys regression:*) and their shapes are unconditionally in the stream; D21 witnesses replayed; non-trivial = program with output, an error, or a jump in its code",
    nontrivial=lambda req, imp: (req.startswith("sem") and (imp.startswith("error") or not imp.endswith(" -")))
                                or (req.startswith("cgen") and "jump" in imp),
    trusted_base=COMMON_TB + [
        "Abra.Sem (lean/AbraModel/Sem.lean) is the executable reading of the language reference (book/src/language_reference): "
        "it is the specification side of the differential tie, not verified against anything else",
        "the generator's two renderings of one AST (Abra source text / S-expression) agree (harness/src/progen.rs)",
        "F0 theorem: `print t` stands for `Call 1 prelude.println<t>`; that the compiled prelude function pops its argument and "
        "emits its decimal/boolean text plus newline is assumed in the theorem and exercised by the end-to-end tie",
        "Abra.I64 (C15) for the integer instructions; VMCore and compileF0 are hand-written models tied by correspondence "
        "(instruction streams for F0; behaviour end to end)",
        "hook 08c41c5 (abra_core::verif_asm: optimizer trace) used read-only",
    ],
    assumptions=[
        "where the reference is silent the interpreter follows the code: `o.f = e` evaluates e before o, in `f(args)` with an "
        "expression callee the arguments come first, break/continue in a while condition refer to the enclosing loop, "
        "`for x in arr` re-reads the length every iteration; generated programs keep such targets side-effect free",
        "DepthSafe (no break/continue while an operand of the enclosing loop is pending) is a hypothesis of the F0 theorem; "
        "its necessity is proved (C02_depth_unsafe_counterexample) and D21 is replayed as a known finding",
    ],
    design_ref="DESIGN.md §6 C02",
    level_text="Leroy-style compiler-correctness theorem for fragment F0 (simulation between the reference interpreter and the VM "
               "core running compileF0 output, all expressions/programs, induction on fuel for loops), Reg encode/decode round trip, "
               "proved counterexample without DepthSafe; broad differential tie against the reference interpreter for tiers F0-F3.",
    level_note="partial: the theorem covers F0 only (ints, bools, locals, operators, if/else, blocks, let/var, assignment forms, "
               "while/break/continue, println of ints/bools) under DepthSafe; heap data, functions, closures, match, for and strings "
               "are covered by the end-to-end tie only. Type soundness ('well-typed F0 never gets stuck in Sem') is not proved; a "
               "stuck/timeout model answer shows as a mismatch in the tie.",
    technique="Lean 4 simulation proof (mutual induction on interpreter fuel) over hand-written models + differential "
              "correspondence against the real compiler and VM (behaviour and instruction streams)",
    timeout=3000,
)
