from props._common import COMMON_TB

PROP = dict(
    title="Optimization and literal operands never change program behaviour",
    lean_module="AbraProofs.Properties.C05",
    required_theorems=[
        "C05_imm_consistent_int", "C05_imm_consistent_float", "C05_imm_consistent_array_push", "C05_imm_consistent_store",
        "C05_rule_sound_pushnil_pop", "C05_rule_sound_push_pop", "C05_rule_sound_dup_pop", "C05_rule_sound_not_jumpif",
        "C05_rule_sound_true_jumpif", "C05_rule_sound_true_jumpiffalse", "C05_rule_sound_false_jumpif",
        "C05_rule_sound_bool_flip", "C05_rule_sound_pushint_store", "C05_rule_sound_load_second",
        "C05_rule_sound_load_first", "C05_rule_sound_dest_store", "C05_rule_sound_imm_int", "C05_rule_sound_imm_float",
        "C05_rule_sound_fold_int", "C05_rule_sound_fold_float", "C05_rule_sound_pushnil0",
        "C05_peephole1_sound", "C05_peephole2_sound", "C05_peephole3_sound", "C05_fires_sound",
        "C05_pass_segments", "C05_labels_preserved", "C05_pass_sound_block", "C05_chain_sound_block",
        "C05_pass_label_split", "C05_optimize_label_split", "C05_without_imm_sound", "C05_expand_immediates_sound",
        "C05_expand_immediates_labels", "C05_expand_threshold_int", "C05_expand_threshold_float", "C05_expand_threshold_none",
        "C05_rule_dup_pop_needs_stack", "C05_rule_load_first_needs_offsets", "C05_fold_int_none_of_error",
        "C05_fold_float_needs_roundtrip", "C05_optimize_sound_partial",
        "C05_pass_sound", "C05_pass_sound_at_label", "C05_optimize_sound",
    ],
    harness_bin="c05",
    # exact instruction streams are more than the property fixes: a bare model mismatch is reported as
    # no-failing-input-found; the on/off and literal/variable oracles give concrete failing inputs
    mismatch_is_violation=False,
    rule="(1) model tie: every raw-string program of /repo/abra_core/tests/integration/e2e_bytecode.rs (read from the current tree), "
         "11 rule-directed snippets and (quick) 160 / (thorough) 1000 programs of a typed generator (ints, floats, bools, arrays, a struct, "
         "if/while, compound assignment, bare expression statements, boundary literals): the real assembly before `optimize` is given "
         "to Opt.optimize and (first and last pass in quick, every pass in thorough) to Opt.pass; the answer must equal the real "
         "optimized assembly line for line incl. annotations; (2) each program runs with the optimizer on and off: output, final "
         "value, error kind and message must agree; (3) every int operator (+ - * / % ^ < <= > >= ==, unary -) on the c15 boundary "
         "grid (quick: 16 trouble pairs + 20 seeded pairs; thorough: each of the 49 grid values with 8 seeded partners) and every float operator on a 23-value boundary set "
         "(±0, subnormals, 2^53±1, ±MAX, ±inf, NaN) in the forms var/var, lit/lit, var/lit, lit/var, compound assignment with literal "
         "and with variable, each with the optimizer on and off, all compared with the var/var optimizer-off run; (4) chains `v op A op B [op C]` of literal operands after a variable "
         "(adjacent *Imm instructions; reassociation changes float rounding and which int operation overflows): every pair of + - * / (% for ints) "
         "on 12 int and 12 float trouble triples (MAX±1, MIN, 2^53 + 1.0 + 1.0, 1.0 + 6e-17 + 6e-17, MAX + MAX - MAX, ±0, subnormals) plus seeded "
         "triples, as expression, call argument, function body and compound assignment `x op= A op B`, literal vs variable forms with the optimizer "
         "on and off, and one bundle program per triple in the exact optimize tie and the on/off oracle; (5) *Imm sweep: each of the 21 "
         "arithmetic/comparison *Imm instructions (presence in the optimized assembly confirmed from the dump) with 16 float / 11 int constants "
         "(whole-number exponents 2..5, -1..-3, 16, 17, 0.5, ±0, huge) at a spread of NON-literal first operands (random mantissas, ±0, subnormals, "
         "2^53+1, ±MAX, ±inf, NaN; ints: boundaries and random) with the operand in a local and on top of the stack, destination top and local, "
         "against the variable-operand (un-fused) form with the optimizer off, compared on the printed shortest-round-trip text (bit-exact "
         "for non-NaN) plus a NaN sign probe; (6) coverage-guided shapes: math intrinsics (atan2, tan, asin, acos, atan, log, log2, log10) and "
         "conversions (int_from_float, string_from_float, .str()) with local operands and `let` destinations in the generator and in a "
         "directed program; a directed program of instructions outside the optimizer's vocabulary (string hash, bit_xor, wrapping ops, "
         "channel + task, string bytes, intrinsic function values); hard probes with known output: a frame of 17000 locals (D90: offsets "
         "beyond 15 bits are not fused) and a table-driven program with 65540 distinct int and 65540 distinct float constants followed by one use of "
         "EACH of the 23 immediate-operand instructions whose literal is first mentioned after the 65536th constant of its type "
         "(presence with a late constant is asserted from the dump), executed with operands built from the array length that "
         "tell it from its neighbours (comparisons: below/equal/above; arithmetic: non-commutative values; power: bases 1, -1, 0), and "
         "the BOUNDARY of the 16-bit immediate index: the literals at pool indices 65534, 65535, 65536, 65537 of the int and of the float "
         "pool (indices asserted from the compiled program's pool), each as arithmetic operand, comparison operand, stored and pushed "
         "literal; the driver receives the pool index of every immediate's constant and the model (immIndexFits) decides what fits; for the directed/intrinsics/probe programs the FINAL instruction list of the compiled program (names + resolved "
         "constants) is compared with Opt.expandImmediates of the optimized assembly, and the constant pool with first-occurrence order; "
         "distinct = distinct request; non-trivial = the optimized assembly differs from the input",
    nontrivial=lambda req, imp: imp != " ".join(w for w in req.split(" #")[0].split()[2:] if w[:2] in ("I:", "L:")),
    trusted_base=COMMON_TB + [
        "float arithmetic, libm, `str::parse::<f64>`, `f64::to_string` and all heap operations are uninterpreted parameters of the "
        "model (Prims); the float fold table given to the driver is computed by the harness with the same Rust expressions as the optimizer",
        "assumption RoundTrip: parse(to_string(x)) = x for every non-NaN f64 (Rust's shortest round-trip Display)",
        "Abra.I64 (M1) for integer arithmetic, proved exact-or-error in C15",
        "cfg(abra_verif) hooks abra_core::verif_asm (per-pass assembly trace, optimizer-off switch); Debug rendering of assembly::Instr",
    ],
    assumptions=[
        "debug build semantics: a wrong value tag is a VM fault (check_type); all host panics are one outcome `fault`",
        "side conditions of two rules (proved necessary): `Duplicate; Pop` is removed only soundly on a non-empty stack; "
        "`LoadOffset(x); Op(_, Top, Offset(y))` fusion needs y not to address the slot above the current top of stack "
        "(code generation only emits offsets of arguments, captures and locals)",
        "the constant pool (which constants get a 16-bit index) is an input of Opt.expandImmediates; the harness recomputes it as the "
        "first-occurrence order of the optimized assembly and checks it against the compiled program's pool",
        "D32 (float fold of a NaN result lost the NaN's sign; fixed by aa391e6: no fold when the result is NaN) and D33 (float unary minus "
        "compiled as 0.0 - x) (fixed by 0513352) are modelled in their repaired form",
    ],
    design_ref="DESIGN.md §6 C05",
    level_text="Theorems over every machine state and every behaviour of the uninterpreted primitives: each *Imm instruction equals its plain twin "
               "after pushing the constant (incl. errors); each of the 25 peephole rules replaces its window by code with the same outcome "
               "(state, control, error kind); the rule tables, the pass and the fixpoint are transliterated and shown to only copy lines or "
               "rewrite label-free windows by fired rules, keeping the label sequence; a pass and the fixpoint preserve the outcome of every "
               "finished whole-program run (forward simulation through labels, calls and returns); expand_immediates is outcome-preserving for every pool in the block semantics, and an immediate survives it iff its pool index is <= 65535. Tied to /repo on every run by exact comparison of "
               "Opt.optimize with the real optimizer on corpus and generated programs, and by optimizer-on/off and literal/variable oracles.",
    level_note="C05_optimize_sound is proved for a single thread on labelled programs with symbolic code addresses (Asm.runG: labels, "
               "jumps, calls pushing return continuations, returns, halt) in the forward direction: every finished run of the original that "
               "meets the two side conditions (stated as: the checked run of the original and of EVERY iterate of `pass` on it, also past the "
               "fixpoint, does not end in `sideFail`) is a run of the optimized program with the same final outcome. "
               "C05_expand_immediates_sound is about the block semantics only (not lifted to runG, not composed with optimize). Still open: the converse simulation "
               "(preservation of divergence), several green threads, label-to-address resolution. Float arithmetic and printing are parameters; "
               "the float folds assume parse∘to_string = id on non-NaN values; the constant pool of expand_immediates is an input.",
    technique="Lean 4 theorems (symbolic execution of windows over an abstract stack machine, induction over the pass) + differential "
              "correspondence of the transliterated optimizer against the real one + implementation-vs-implementation oracles",
    timeout=3000,
)
