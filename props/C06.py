from props._common import COMMON_TB

PROP = dict(
    title="Garbage collection never frees an object the program can still reach",
    lean_module="AbraProofs.Properties.C06",
    required_theorems=["C06_gc_safe", "C06_gc_safe_from", "C06_collector_derefs_valid", "C06_gc_transparent",
                       "C06_checked_step_inv", "C06_norescan_counterexample"],
    harness_bin="c06",
    # a collector increment that differs from the model, or a VM step outside the mutator contract, breaks
    # the tie but is not by itself a freed reachable object: concrete inputs come from the spec checks
    mismatch_is_violation=False,
    rule="programs: the D22 reproducer + (quick 40 / thorough 240) generated allocation-heavy programs (string "
         "building, arrays and nested arrays with push/pop/index-assign, struct field updates, closures, enum payloads, "
         "garbage loops); the collector is driven by hand through the verif_gc hook, one loop iteration per increment. "
         "Also 'mover' programs (twelve kinds: the barriered store paths with the destination scanned before the source — array push, index store, field store, channel —, freshly allocated wrappers (variant, struct, array, closure, tuple) around a value that has just left the heap, and heap strings living only in a string-operand register of a multi-step comparison / concat_strings) "
         "validated from 40/160 cycle start points, and programs with tasks (10 quick / 60 thorough; every green thread's own "
         "heap and collector validated, a new thread's first state checked against the empty state). "
         "Validated runs (2 quick / 4 thorough schedules per program: cycle start at a random VM step with k increments "
         "per step; random bursts): EVERY transition of the real thread is one case - a collector increment must equal "
         "the model's gcStep on the dumped abstract heap, a VM instruction or host-call service must satisfy the mutator "
         "contract mutatorOKb. Sweep runs (every 37th / every 13th or every single cycle start point in the first 400/600 "
         "VM steps, k in {1,64}) and a run under the real pacing: output and outcome compared with collection disabled, "
         "and reachable-implies-allocated checked on every snapshot. distinct = distinct request lines (addresses renamed "
         "by first appearance); non-trivial = the collector is marking or sweeping in the before-state",
    nontrivial=lambda req, imp: " phase=i " not in req[:20],
    trusted_base=COMMON_TB + [
        "hook abra_core::vm::verif_gc (manual stepping calls the existing start_mark_phase/process_gray/sweep with budget 1; "
        "the snapshot reads heap_list objects only) is assumed to report the thread's collector-visible state faithfully",
        "static strings (no_gc, outside heap_list) are hidden from the snapshot's roots, children and gray stack; a gray-stack entry for one "
        "(the write barrier can push it) is popped by the hook together with the neighbouring increment",
        "Rust Vec/Box/global allocator; byte budgets of the real pacing are finite repetitions of the one-object increments modelled",
        "since fix 97d7808 (D23) a queued channel message is a snapshot owned by the channel, not an object of any thread's heap: a channel object has no children in the snapshot and ChannelWrite/ChannelRead are ordinary mutator steps (a read allocates the rebuilt message, checked by the allocation clause of the contract)",
    ],
    assumptions=["single green thread's heap; the mutator is any step satisfying the contract MutatorOK, which every observed VM step is checked against"],
    design_ref="DESIGN.md §6 C06",
    level_text="Invariant proof (strong tri-colour while marking, closed survivor set while sweeping) for all interleavings of "
               "collector increments and contract-abiding mutator steps of any length: reachable objects stay allocated, the collector "
               "never dereferences reclaimed memory, increments are invisible to the program; plus a machine-checked counterexample for the "
               "pre-repair collector. Tied to vm.rs by validating every transition of real executions against the model.",
    level_note="The step from vm.rs to the abstract graph is the snapshot hook plus per-transition validation (not a proof about Rust); "
               "the mutator is a contract, not a model of each instruction.",
    technique="Lean 4 invariant proof over an abstract mark/sweep state machine + per-transition trace validation of the real collector",
)
