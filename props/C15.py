from props._common import COMMON_TB

PROP = dict(
    title="Integer arithmetic is exact or fails with the documented error",
    lean_module="AbraProofs.Properties.C15",
    required_theorems=["C15_add_spec", "C15_sub_spec", "C15_mul_spec", "C15_neg_spec", "C15_div_spec",
                       "C15_mod_spec", "C15_mod_euclidean", "C15_pow_spec", "C15_forms_agree", "C15_chain_spec",
                       "C15_reassociation_counterexample"],
    harness_bin="c15",
    mismatch_is_violation=True,
    rule="operand pairs: the 25 known trouble spots, then (quick) 220 seeded draws from the 48x48 boundary grid "
         "and 120 random pairs / (thorough) the whole grid and 4000 random pairs; each pair x 6 operators x 5 operand forms (`^` has no compound assignment: 3 forms; the others: var/var, literal/literal=folded, var/literal=*Imm, compound assignment with literal and with variable) "
         "+ unary minus; plus chains `(x op1 c1) op2 c2` (variable x near MIN/MAX/half-range, two literal operands, every pair of + - * / %, 10 fixed + 700 quick / 20000 thorough, three placements: top level, function body, let destination) whose first inexact step must decide the outcome; each compiled and run by the real compiler and VM; distinct = distinct (form, op, a, b); "
         "non-trivial = the answer is an error or one operand has magnitude >= 2^31",
    nontrivial=lambda req, imp: imp.startswith("err") or any(len(w.lstrip("-")) >= 10 for w in req.split()[3:5] if w.lstrip("-").isdigit()),
    trusted_base=COMMON_TB + [
        "Rust i64::checked_add/sub/mul/div/pow and wrapping_rem_euclid are assumed to be the exact-or-None operations (modelled by Abra.I64.checked)",
        "i64::to_string / str::parse::<i64> (decimal rendering of results and literals)",
    ],
    assumptions=["negative exponents are left unspecified by the property; the model follows the code there and the spec oracle skips them"],
    design_ref="DESIGN.md §6 C15",
    level_text="Theorems over all pairs of 64-bit integers about a model of the VM arms and optimizer folds (Abra.I64); "
               "the model is tied to /repo on every run by executing the real compiler+VM on boundary and random operands in every operand form and diffing against the model driver.",
    level_note="Trusts Rust's checked_* primitives, the harness and the Lean kernel; the step from vm.rs to Abra.I64 is checked by correspondence, not proved.",
    technique="Lean 4 theorems (omega/induction) over a hand-written Int model + differential correspondence against the real VM",
)

