from props._common import COMMON_TB

PROP = dict(
    title="core/map and core/set behave like a dictionary and a set",
    lean_module="AbraProofs.Properties.C27",
    required_theorems=["C27_bucket_index_in_range", "C27_new_refines", "C27_try_get_refines", "C27_contains_refines",
                       "C27_get_refines", "C27_fuel_enough_lookup", "C27_insert_refines", "C27_remove_refines", "C27_index_update_refines",
                       "C27_resize_refines", "C27_map_refines_dict", "C27_set_refines_set", "C27_fuel_enough"],
    harness_bin="c27",
    mismatch_is_violation=True,
    rule="5 directed histories on the keys MIN, MIN+1, -1, 0, MAX (the D9 replay: every operation incl. lookups/removes on the empty table) and "
         "420 (quick) / 2100 (thorough) random histories of up to 60 / 400 operations (insert, m[k]=v, m[k] += / -= / *= v through the map's Index impl (directly and inside a helper function), try_get, get, m[k], contains, remove, len; "
         "grow / churn / drain phases; key pools of 4, 12, 40 keys in the quick tier (up to 4 resizes per history) and additionally 160 keys in the thorough tier (up to 7 resizes, "
         "hundreds of slot reuses), so that histories range from dense update/remove traffic to repeated growth) over 7 key domains: extreme ints (MIN, MIN+1, -1, 0, 1, MAX, +-2^62 ...), ints congruent mod 64 (two residue "
         "classes), multiples of 1024 of both signs (collide at every table size reached), a user key type with constant hash 7, strings "
         "(FNV-1a), (int, int) tuples (hash_combine), small ints; every fifth history uses core/set; after every operation the program prints the "
         "result and len(); the transcript (incl. the panic of get on an absent key) is compared with the Lean hash-table model and with Rust's HashMap; "
         "non-trivial = at least 3 operations",
    nontrivial=lambda req, imp: req.count(";") >= 2,
    trusted_base=COMMON_TB + [
        "the model Abra.Lib.HashMap is a hand transliteration of core/map.abra (fields, loops, bound checks; the two identical chain walks of insert and "
        "try_get share one definition; insert is split at its resize check); set.abra is the map<T, void> wrapper; the step from the Abra source to the "
        "model is checked by correspondence, not proved (two-way tie: model vs. real VM; the Lean reference interpreter for Abra source does not exist yet)",
        "the driver's hash functions for int, string (FNV-1a with wrapping arithmetic), tuples (hash_combine) and the constant-hash user type are "
        "transliterations of the prelude's Hash impls; the theorems do not depend on them (any lawful hash)",
        "`count`, `old_len * 2` and slot indices are far below 2^63 (the model uses unbounded integers)",
        "the arithmetic of `m[k] op= v` is a parameter f of the model (fun x => x op v); the generator keeps the values far from the 64-bit range so that C15's overflow error is not involved",
    ],
    assumptions=["the key type's Equal is an equivalence relation and equal keys hash equally (structure Lawful); Hash/Equal are pure functions"],
    design_ref="DESIGN.md §6 C27",
    level_text="Refinement theorem over all histories, incl. remove, resize and slot reuse (no _partial restriction), under the hypothesis Lawful hash eq: for every history of map operations from map.new(), the model of the chained hash table "
               "(buckets, struct-of-arrays entries, free list through entry_nexts, resize on slot count) prints what an association-list dictionary prints "
               "— results, len() and the panic of get on an absent key — for any Hash/Equal pair satisfying the hypothesis `Lawful` (Equal an equivalence, equal keys hash equally; this admits colliding and constant hashes). `Lawful` is discharged in Lean only for propositional equality on Int with an arbitrary hash function (lawful_of_eq); for the key types of the harness it is an assumption; "
               "proved through a representation invariant preserved by insert (update / free-list slot / new slot), resize and remove; no bound check "
               "fails and no chain walk runs out of fuel; the bucket index is in range for every hash incl. MIN. set is the V = Unit instance. "
               "The model is tied to /repo on every run by running histories on the real core/map and core/set on the real VM.",
    level_note="Not partial: remove, resize and slot reuse are inside the theorem; `Lawful hash eq` is a hypothesis of every theorem. The step from map.abra to the model is by correspondence.",
    technique="Lean 4 refinement proof (representation invariant with explicit chain witnesses, simulation against an association list) + differential correspondence against the real core/map on the real VM + Rust HashMap reference",
)
