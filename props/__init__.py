"""Per-property configuration, one file per property (props/Cnn.py defines PROP)."""
import importlib, os, re
PROPS = {}
for _f in sorted(os.listdir(os.path.dirname(__file__))):
    _m = re.match(r"(C\d+)\.py$", _f)
    if _m:
        PROPS[_m.group(1)] = importlib.import_module("props." + _m.group(1)).PROP

# reasons for properties not (yet) claimed; the default text is in gen_manifest.py
NOT_APPLICABLE = {}

# cfg-guarded hook commits in /repo (short shas), appended as hooks are added
# hook commits are read from `git -C /repo log --grep "^verif hook"` by gen_manifest.py
