from props._common import COMMON_TB

PROP = dict(
    title="Literals denote exactly the values they spell",
    lean_module="AbraProofs.Properties.C30",
    required_theorems=["C30_int_literal_roundtrip", "C30_int_literal_value", "C30_int_literal_out_of_range",
                       "C30_float_literal_token", "C30_escape_roundtrip", "C30_scan_finds_close",
                       "C30_quoted_roundtrip", "C30_strip_spec_partial", "C30_strip_spec", "C30_int_pattern_literal",
                       "C30_minIndent_is_min", "C30_dropCols_spec", "C30_assemble_each_line"],
    harness_bin="c30",
    # the lexer's answer on malformed literal text (bad escapes, unterminated literals) is more than the
    # property fixes; a violation of the property is found by the harness's own oracle (lexer payload and
    # printed value vs. the intended value), which reports the concrete literal
    mismatch_is_violation=False,
    rule="integers: 27 boundary magnitudes x both signs, then random magnitudes (uniform small, random width, around 2^62..2^63, "
         "out of range) with random `_` placement (single, doubled, trailing) and leading zeros; floats: random digit strings "
         "(1..25 integer digits, 0..25 fraction digits) with `_`, plus MAX, MIN_POSITIVE, the smallest subnormal and "
         "halfway cases, compared by bits with the host's parse of the spelling; strings: random texts <= 40 chars over "
         "{letters, digits, spaces, both quotes, backslash, newline, tab, CR, other control chars, DEL, non-ASCII incl. NBSP and "
         "U+2028} spelled in single, double and triple quotes (block / opener-residue / inline-closer / single-line layouts, "
         "space and tab indentation, blank lines); raw literal texts with bad escapes and unterminated literals for the lexer's "
         "error branches; literals in PATTERN position (`match v { <literal> -> hit  _ -> miss }`: ints with `_` incl. the boundary and "
         "out-of-range ones, floats, strings in the other quote style, hits and near misses); programs behind a `#!` first line; triple-quoted literals whose lines are indented independently by every mix of spaces and tabs (all 15x15 pairs of indentations of length <= 3, every least-indented shape of length <= 4 against lines indented at least as far, random lines with up to 6 blanks, whitespace-only lines, arbitrary closing-line blanks), expected value computed by a Rust statement of the rule (flat measure 1/4, minimum over non-blank lines, strip by columns). Per literal: lexer payload+spans (verif_lex) vs the Lean lexer model, the generator's escape printer "
         "vs the Lean `escape`, parser range check vs `intLiteral`, and the value printed by a running program vs the intended "
         "value. distinct = distinct literal texts; non-trivial = contains `_`, a backslash, a newline or is out of range",
    nontrivial=lambda req, imp: any(x in req.split()[1] for x in ("5f", "5c", "0a")) if req.startswith("lex ") else
        (imp == "range" or "_" in req or req.startswith("escape")),
    trusted_base=COMMON_TB + [
        "hook verif_lex in /repo/abra_core/src/parse.rs (cfg abra_verif): token tags, payloads, spans, lexer diagnostics",
        "str::parse::<f64> and f64 Display (float literal values and their printing; floats are compared by bits after re-parsing)",
        "str::parse::<i64> is assumed to be exact decimal conversion with range check (modelled by intLiteral)",
    ],
    assumptions=[
        "there is no signed literal pattern (`-1 -> …` is a syntax error in the unchanged parser): pattern literals are the unsigned spellings",
        "triple-quoted literals: the layouts used are those of the pinned tests multiline_string_* (whitespace-only first "
        "line and closing line dropped, line 0 after the opener verbatim, common indentation of the other non-blank lines "
        "removed); a text whose last raw character is `\"` is not written with an inline closer, a whitespace-only text "
        "not in the single-line form (the scanner for `\"\"\"` is not escape-aware and drops whitespace-only closing lines)",
        "the model contains the repairs D40 (no indentation determined => strip nothing) and D42 (strip columns, tab = 4)",
    ],
    design_ref="DESIGN.md §6 C30",
    level_text="Theorems about the Lean lexer model (Abra.Lex): every i64 spelled with `_` separators lexes to its digits and the "
               "parser's folded parse gives that integer (MIN via negation), out of range => diagnostic, never a wrapped value; "
               "processEscapes(escape q s) = s for all Unicode strings and all quote styles; the scan for the closing quote (on the text after the opening quote) finds "
               "the printer's quote, hence one-line literals round-trip; indentation stripping removes exactly the common "
               "indentation, from the source text of a block-form literal. Tied to /repo on every run by lexing, parsing and running generated "
               "literals with the real code and diffing token payloads/spans with the model.",
    level_note="Floats: only the token payload is proved; the value is parse::<f64> (trusted, compared by bits on every run). "
               "C30_strip_spec covers the block layout (opener, line break, indented lines, closer on its own line); the opener-residue "
               "and inline-closer layouts are covered by the correspondence only. The model follows /repo after the fixes of D40 and D42.",
    technique="Lean 4 theorems (induction over strings/digit lists, core Nat.toDigits lemmas) over a hand-written lexer model + differential correspondence against the real lexer, parser and VM",
    timeout=3000,
)
