from props._common import COMMON_TB

PROP = dict(
    title="Results do not depend on how the embedder slices execution",
    lean_module="AbraProofs.Properties.C10",
    required_theorems=["C10_noDone_invariant", "C10_runN_add", "C10_runN_add_outOfSteps", "C10_runSeq_eq_sum",
                       "C10_slicing_invariant", "C10_host_delay_invariant", "C10_host_delay_single",
                       "C10_output_schedule_invariant_partial", "C10_schedule_is_reference_partial",
                       "C10_finished_runs_agree_partial", "C10_run_with_granularity",
                       "C10_task_print_race_counterexample", "C10_channel_merge_race_counterexample"],
    harness_bin="c10",
    # the compared observable (the complete interleaving of executed instructions, blocked reads, run-queue
    # order per call) is more than the property fixes; a concrete failing input comes from spec_fail only
    mismatch_is_violation=False,
    rule="programs: (quick) 160 generated single-thread programs (arithmetic, loops, strings incl. multi-byte and "
         "resumable compare/concat, arrays, function calls, recursion, prints, runtime errors of all four kinds) + 160 "
         "producer/consumer programs (5 shapes, <=3 tasks, <=3 channels, 7 payload kinds, one printing thread, one "
         "writer and one reader per channel) / (thorough) 1500 + 1500; each run under one big budget (1000000 for task-free programs, 4000 for task programs: a blocked read is a busy wait) and under constant "
         "budgets {1,2,3,7,100}, 3 random cyclic schedules, 3 random schedules with host delays (extra run_n_steps calls "
         "while a host call is pending) and, for every 4th program, all 3^k budget sequences over {1,2,3} for the first k "
         "calls (k=3 quick, 5 thorough): output, final value, error kind and error text must be identical (spec_fail). "
         "Trace validation: 4 schedules per program (budget 1, budget 3, random, delayed), runs <= 2500 steps: the hook's "
         "event log gives per-thread scripts, the Lean model must reproduce the interleaving, blocked reads, popped "
         "values, spawned ids, per-call status, steps_consumed and run-queue order; distinct = distinct (schedule, scripts); "
         "non-trivial = the trace has a blocked read, a spawn, a pending host call or an error",
    nontrivial=lambda req, imp: any(m in imp for m in (".b", ".s", "|pending|", ".e:", "|err:")),
    trusted_base=COMMON_TB + [
        "hook verif_sched in abra_core/src/vm.rs (cfg abra_verif): read-only event log of scheduler turns",
        "Rust VecDeque / mpsc channel / Arc<Mutex<VecDeque>> assumed to be FIFO queues",
        "the step function of a green thread is deterministic (no FFI; the harness builds without the ffi feature)",
    ],
    assumptions=[
        "VmGreenThread::run() (a thread run by itself, outside the scheduler) is outside the scheduler model; it is compared on the "
        "implementation only (task-free programs, same output/value/error as every other slicing). Runtime::run()/run_with_granularity "
        "are modelled (runG, theorem C10_run_with_granularity) and trace-validated (`sched g<n>` requests)",
        "garbage collection (maybe_gc before every step) is not part of the scheduler model; its transparency is C06",
        "multi-thread programs: the theorems cover slicing without host servicing in between and host delay; independence of "
        "the output from slicing when host calls are serviced at different times is Kahn determinism of the program "
        "(one reader and one writer per channel) and is checked on the implementation, not proved",
    ],
    design_ref="DESIGN.md §6 C10",
    level_text="(partial for programs with tasks) Theorems for every deterministic thread step function about a model of Runtime::run_n_steps / "
               "run_threads_round_robin / finish_thread_turn / drain_new_threads / update_status_helper, for every runtime state "
               "satisfying NoDone (no finished thread and no failed task waits in a queue - an invariant of Runtime::new and of every "
               "operation, and needed: C10.lean explains the unreachable counterexample): budgets add up (state, trace, status, steps) "
               "unless the first call is the one in which main finished, any two budget sequences with the same total agree (no host "
               "servicing in between), calls while all threads are blocked and nothing waits to be enqueued change nothing, "
               "run()/run_with_granularity(n) return the state and status of run_n_steps(k*n) whenever they return; for programs without "
               "tasks (the step function never spawns, started on Runtime::new) every embedder schedule (any budgets, any delay in servicing host "
               "calls) yields, up to servicing a still pending call, the output and state of the reference embedder after the same number of "
               "instructions, and two schedules that both ran the program to its end agree completely; for programs with tasks "
               "two proved counterexamples (known findings C10-task-print-race, C10-channel-merge-race). The model is tied to /repo on every run by trace validation through a cfg-guarded "
               "event log, and the property is checked directly on the implementation across schedules.",
    level_note="PARTIAL for the second sentence of the property: independence of the output from slicing for task programs that "
               "obey the one-writer/one-reader discipline and join the printing task is checked on the implementation only (Kahn "
               "determinism of the model is left OPEN in C10.lean); without that discipline it is false (two known findings). The scheduler model is validated by trace correspondence, not derived from vm.rs; thread-internal "
               "instructions (including the resumable string instructions) are abstract steps in the theorems and are covered by "
               "the direct slicing check on the implementation. See known findings for the two shapes where output does depend on slicing.",
    technique="Lean 4 theorems (induction over the round-robin loop) over a hand-written scheduler model + trace validation and differential slicing against the real runtime",
    timeout=3000,
)
