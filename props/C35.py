from props._common import COMMON_TB

PROP = dict(
    title="Go-to-definition and hover agree with the compiler",
    lean_module="AbraProofs.Properties.C35",
    required_theorems=["C35_search_spec", "C35_findIdentifier_spec", "C35_search_sound", "C35_searchI_spec",
                       "C35_findInnermost_spec", "C35_searchI_answers_iff", "C35_search_past_end", "C35_searchI_past_end",
                       "C35_searchI_spec_unconditional", "C35_search_spec_checked", "C35_searchI_spec_checked"],
    harness_bin="c35",
    mismatch_is_violation=False,
    rule="(quick) 500 / (thorough) 6000 seeded typed programs of one or two files (struct and enum definitions, three "
         "functions per file visible to every body, top-level statements; let/var with and without annotation, tuple "
         "patterns, assignment, blocks, if/else, while, for, match on ints / tuples / enum variants as statement and as "
         "expression, lambdas with expression and block bodies, nested lambdas, calls of functions / lambdas / imported and "
         "prefix-qualified functions with positional, named (`label = value`), mixed and reordered arguments and omitted defaults, "
         "extension methods with labelled parameters called on variables and on fresh values, struct and variant constructors "
         "with named arguments (also `.Variant(name = …)`), every argument value an arbitrary expression over the shadowed scope; "
         "struct construction and field access, enum variants written `.V` and `E.V`, array and "
         "tuple literals, indexing; every import form; variable names drawn from a pool of nine, one of which is also an "
         "imported function's name, so shadowing is the rule; plus 6 hand-written witness programs for the lsp_helper constructs no generated program contains (constraint arguments in parameter annotations, interface definitions with output types, constraints on type parameters of type definitions, struct names in for / let patterns, qualified variant patterns, interface methods and implementations) with listed go-to-definition and hover answers; non-ASCII string literals and comments, task blocks; the D12 / D45 / D60 probe programs are hard regression inputs). Per file: "
         "two model cases (identifier search, innermost-node search) covering EVERY byte offset 0..=len+2, two cases claiming "
         "the hypotheses of the identifier-search theorem and of the hover-search theorem for the parsed file (decided by the proven-sound "
         "executable checks wfB and nestedIB in the model); spec checks at "
         "every byte offset: definition_at on a use = the generator's innermost visible declaration (file, range, text), "
         "definition_at outside identifiers = nothing, type_at on every typed position = the generator's type; agreement: at every "
         "offset where the hover search lands on an identifier expression the go-to-definition search lands on the same node. "
         "distinct = distinct (file tree, search); non-trivial = the answer names at least one node",
    nontrivial=lambda req, imp: any(ch.isdigit() for ch in imp),
    trusted_base=COMMON_TB + [
        "the rendering of the AST: derived Debug text (hook verif_ast_debug) parsed and re-rendered structurally by "
        "harness/src/lspgen.rs (kind name, loc, node id, children in field order; no knowledge of the searches)",
        "resolution_map / declaration_location / solution_of_node are exercised by the generator's independent scope stack and "
        "types only (no Lean model of the checker; C21 has the model of name lookup)",
    ],
    assumptions=[
        "ExprKind::TaskBlock is modelled as repaired by D45 (5b44d4b: the searches descend into the task body); task blocks are always in "
        "the generated stream and the D45 / D12 / D60 probe programs are hard regression inputs (a failure is a spec failure, nothing is gated)",
        "hover inside match-arm patterns and on `.Variant` callees is not constrained (the implementation reports no type there)",
    ],
    design_ref="DESIGN.md §6 C35",
    level_text="Theorems for all search trees and all offsets about a model of lsp_helper.rs's two AST searches: on a tree "
               "whose identifier spans are pairwise disjoint (Unique), lie inside the spans of the nodes above them (Nested) and whose "
               "match arms do not overlap the identifiers of later siblings (CutOK) the identifier search returns exactly the identifier "
               "containing the offset and nothing otherwise; without any hypothesis, whatever it returns is an identifier of the tree "
               "containing the offset; on a tree whose candidate nodes are nested in their parents (NestedI) the innermost-node search "
               "returns a node that contains the offset while no node below it does, and answers exactly when some node contains the "
               "offset; without that hypothesis the same holds with 'contains' read as 'its own span and the spans of all nodes above it "
               "contain the offset' (C35_searchI_spec_unconditional); if every identifier / candidate span ends at or before n, both "
               "searches answer nothing at every offset >= n (the hover version under NestedI). The walk "
               "order of the code (which children, in which order, behind which span test) is in the Lean model and is compared "
               "with the real searches at every byte offset of every generated file.",
    level_note="partial: that the resolution map holds the innermost visible declaration, that declaration_location returns the "
               "declaration's own span and the solved types are checked against the generator's independent scope stack and "
               "typing (spec_fail), not proved; the hypotheses Nested/CutOK/Unique of the identifier-search theorem are "
               "properties of parser output: they are not proved for the parser but decided for every file of every run by an "
               "executable check whose soundness is a theorem (C35_search_spec_checked); the nesting hypothesis of the hover search "
               "(NestedI) was false on parser output until D60 (function body block span started at a token index, fixed e25c64a) and D106 "
               "(qualified variant pattern span excluded its qualifier, fixed f9af9cf) were repaired; it is now claimed and decided for every "
               "file as well (`spantree wfi`), and the hover-search theorem is also proved without it (C35_searchI_spec_unconditional). A bare model mismatch is reported as "
               "no-failing-input-found (node ids are more than the property fixes); a wrong declaration or type is a concrete input.",
    technique="Lean 4 theorems (mutual structural induction over nested search trees) about a hand-written model + differential "
              "correspondence against the real LSP analysis at every byte offset + independent scope/type oracle in the generator",
    exhaustive=lambda tier: False,
)
