from props._common import COMMON_TB

PROP = dict(
    title="The compiler terminates with a result or diagnostics on any text",
    lean_module="AbraProofs.Properties.C04",
    required_theorems=["C04_lexer_total", "C04_lexer_progress", "C04_expr_parser_terminates",
                       "C04_expr_parser_fuel_irrelevant", "C04_exhaustiveness_terminates", "C04_match_check_returns"],
    harness_bin="c04",
    mismatch_is_violation=True,
    rule="malformed stream over the corpus (the ~210 Abra programs embedded in /repo/abra_core/tests/integration/*.rs, extracted at "
         "run time, plus 8 hand-written non-ASCII / task / interface programs): every whole program; (quick) for a rotating sixth "
         "the prefixes at line ends, behind dots and at every 11th char boundary, 5 mutations per program, 250 grammar-garbage "
         "texts / (thorough) every prefix at every char boundary, 250 mutations per program, 20000 garbage texts; mutations = "
         "token delete / duplicate / swap / move / replace, char replace / delete, insertion of non-ASCII, quote, bracket and "
         "comment characters, span deletion (one in four applied twice); plus 45 deep-nesting texts (50/100/200 levels of "
         "parentheses, brackets, blocks, ifs, lambdas, matches, unary operators, type arguments, tuple patterns, calls, member "
         "chains, unclosed openers, stray closers) and 21 long texts (100/500-term operator chains, 500 functions, 20 kB "
         "identifier and non-ASCII string, 50 kB comment, 400-digit numbers, unterminated string and comment); plus the INFINITE-TYPE family (self-referential definitions through tuple, array, option, result, struct, lambda, call argument, nested combinations, if/match branches, destructuring; recursive, self-valued, mutually recursive and lambda forms, ~290 texts) and the TYPE-ARGUMENT ARITY family (array, option, result, channel, generic struct / enum with 0, <>, too few, exact, too many arguments in let / parameter / return / field / variant / lambda-parameter positions, type declared above and below its use, each against a literal of the type, plus the prefix ending at the annotation, ~1180 texts); the ILL-FORMED DECLARATION family (duplicate parameter / field / variant / type-parameter / method names in functions, lambdas, structs, enums, interfaces, implementations and extensions, crossed with default values, named arguments, `.Variant` shorthand, patterns and calls with too few / too many / duplicate / unknown named arguments, ~550 texts), the DIVERGING-EXPRESSION family (return / break / continue / blocks ending in them / panic / a never-returning call in 44 expression positions: match scrutinee against every pattern kind, if and while conditions, operands, call arguments and callee, index, array / tuple / struct / variant components, let and assignment right-hand sides, for iterable, unwrap, try, member access, lambda body, return operand, block tail, task body, default values; inside a function, as its tail, and at top level, ~1480 texts) and the LITERAL-EDGE family (every prefix at every char boundary of 8 literal-heavy texts, 22 degenerate quote / escape spellings in three contexts, ~500 texts); the DEFAULT-VALUE family (16 binding constructs — let, tuple let, match with bindings, for, lambdas, nested call relying on its own default, reference to an earlier parameter, if/while/nested blocks — as default value of function, untyped-function, lambda and method parameters, struct and variant fields and interface implementations, the default omitted / supplied / named at call sites at top level, in functions, lambdas and tasks, ~740 texts); the DEFAULT-CONTEXT family (26 expression forms that consult the checker's context stacks — `?` on option / result / unknown / non-Try operands, alone, nested, inside arithmetic, blocks, lambdas, calls, match and if; `!`; return / break / continue and blocks, matches, ifs ending in them; a loop with break; panic; a task — as (part of) a default value of typed / untyped functions, functions returning option, lambdas, extension methods, impl methods in and not in the interface, struct and variant fields, the host at top level and, for lambdas, nested in a function, loop, lambda and task, with and without a call that omits the default, ~960 texts); the EDITING-STATE families: balanced skeletons (the text cut at token boundaries with every open bracket and quote closed again in order, as an auto-closing editor holds it; quick every 13th / 11th boundary, thorough every boundary), one identifier occurrence at a time truncated to a proper prefix (always to its first letter for capitalised names, which turns a type name into a TYPE VARIABLE; thorough: every prefix length of every occurrence), top-level items swapped / duplicated / moved / reversed, and `implement` / `extend` headers over {type variables T and C, unknown name, int, string, array<int>, array<T>, option<int>, function type, tuple, wildcard, user struct, instantiated and open generic struct, over-applied struct} x the eleven prelude interfaces with empty / partial / full bodies x uses that reach them (for, `?`, `!`, ==, <, +, .., println, indexing), ~830 texts, the NAMESPACE family (two files; every declaration kind of a library — function with default, struct, generic struct, enum and variants, interface, implementation, extension methods — reached through `use lib1 as u` in call, constructor, qualifier, pattern, type-annotation, extension-target and first-class-value position, under five import headers, ~220 texts) and the ASSIGNMENT family (the six assignment operators on 26 target kinds: mutable / immutable variable, fields, nested fields, array index, nested index, field of index, index of field, user Index type plain / nested / in a field, call results, literals, tuple, string index, unknown name; int / float / string / self right-hand sides; at top level, in functions, lambdas and loops, ~540 texts); the 51 witness programs of the coverage analysis (embedded in harness/src/fewitness.rs: attributes and their combinations, extend / implement for non-types, type variables, wildcards, function types and instantiated nominals, unknown interface constraints, interface methods without Self, incomplete Iterable implementations, `()` patterns, shebang …) as corpus programs, 11 of them also checked against their known diagnostic; a 17000-local frame (D90, thorough tier only: minutes per analysis on a debug build); the entry points on degenerate arguments (missing main file, rendering with to_string_ansi, D94 main file named prelude.abra through a provider of its own). Per text, in a "
         "child process: check, compile_bytecode, check_lsp+errors() each under catch_unwind (panic, abort, or no answer after 300 s of own CPU time when re-run alone = "
         "failing input, one per panic site, shrunk to the shortest failing prefix), accept/reject agreement of the three entry "
         "points, and one model case: verif_lex (tokens with byte spans, lexer diagnostics) = Lean tokenizeBytes. "
         "distinct = distinct texts; non-trivial = the text lexes with a diagnostic or has non-ASCII bytes or more than 20 tokens",
    nontrivial=lambda req, imp: ("U/" in imp) or ("E/" in imp) or imp.count(" ") > 20,
    trusted_base=COMMON_TB + [
        "the models Abra.Lex (bG3: C29/C30/C33), Abra.Pratt (C31) and Abra.PatMatrix (C12/C13) are tied to the code by those "
        "properties' correspondences; here only the lexer is re-compared, on malformed text",
        "the worker-process harness (harness/src/fework.rs) that attributes a process death to the text being compiled",
    ],
    assumptions=[
        "the confirmed crashes (D45, D53, D53b tuple cycle, D54-D57, D60, D64-D66, D76 duplicate parameter + default, D77 diverging match scrutinee, D79 compound assignment on a user Index type, D80 let in a default value, D82 namespace-qualified type as qualifier / value, D83 let in a variant-field default, D84 for loop in a default value, D86 unary minus on a user Num type; all fixed) are hard regression inputs "
        "(fecorpus::GATES), run in a child process before the stream: a crash on any of them is a failing input; nothing is gated",
        "deep nesting is bounded at 200 levels and judged with a 64 MB stack on an opt-level-1 build",
        "single-file programs: imports of the corpus programs are left unresolved",
    ],
    design_ref="DESIGN.md §6 C04",
    level_text="Theorems about the imported front-end models, for all inputs: the lexer's loop ends by exhausting the input (fuel "
               "irrelevant), every step consumes between one character and what is left (so no slice is out of bounds, whatever "
               "the text: unterminated strings and comments, lone backslash, triple quotes, non-ASCII), tokens have non-empty spans "
               "inside the text in characters and in bytes; the Pratt expression parser never runs out of its linear fuel on any "
               "token list; the exhaustiveness/usefulness recursion terminates on every well-typed matrix by a measure that "
               "survives or-expansion and wildcard specialisation. Item/statement parser, resolver and type checker are covered "
               "by the process-isolated crash search only.",
    level_note="partial by design: no model of parse_file's error recovery, resolve.rs or typecheck.rs; absence of crashes there is "
               "searched, not proved. The search found eight crashing inputs on the pinned tree (D53-D57, D64-D66), among them a complete "
               "one-line program that overflows the host stack.",
    technique="Lean 4 theorems assembled from the lexer / Pratt / pattern-matrix models' lemmas + process-isolated crash search "
              "over prefixes, mutations, garbage and deep nesting + lexer correspondence on every malformed text",
    timeout=1500,
    exhaustive=lambda tier: False,
)
