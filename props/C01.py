from props._common import COMMON_TB

PROP = dict(
    title="Accepted programs never hit an internal VM fault",
    lean_module="AbraProofs.Properties.C01",
    required_theorems=["C01_step_safe", "C01_step_post_ret", "C01_step_post_push", "C01_compile_safe_F0", "C01_depth_unsafe_fault"],
    harness_bin="c01",
    mismatch_is_violation=True,
    rule="pending-jump family (harness/src/bg9cov.rs, 397 programs quick / 794 thorough): a jump-carrying block `{ if c { break|continue } else { }; v }` as the operand of every construct where values wait on the operand stack or are pushed/consumed by hand (binary operators at int/float/string/bool, unary minus on int AND float, or/and, if, match scrutinee/arms, call/method/function-value arguments incl. void ones, constructors, index and field assignment forms on arrays and user Index, compound assignments, loop heads of inner loops, lambdas, array literals beyond 65535 elements) inside while / for-array / for-range, nested in `100 + { loop; acc }`: a host panic, an internal error or a printed value different from the Rust oracle is a failing input; coverage-guided families (harness/src/bg9cov.rs, Rust oracles, every program under the budgets {1000,1,2,3,7,100}; a host panic or internal error is a failing input): 40 byte-intrinsic programs (string_count_bytes / string_nth_byte by name, as a function value, in operand position and inside an array literal, on ASCII and multi-byte strings, indices in range, = len, > len, negative, i64::MIN/MAX: out of range is the documented array-out-of-bounds error after exactly the expected output); intrinsics called by name and as function values at several element types incl. array<void> (D88), channel_read/channel_write on channel<void> (D89), an error inside an intrinsic wrapper (D92); void struct field as assignment target; frames of 16383 / 16385 / 32767 slots (D90); a generic instantiated at never; the former VM type faults as hard regression programs: payload variant without arguments (D87: diagnostic), refutable literal / variant sub-patterns in let and for (D96: diagnostic), or-patterns in an un-annotated let (D97: diagnostic when ill-typed, 3/4 when well-typed), output type of a constrained type variable (D98: diagnostic), the D21 witnesses (break/continue with pending operands: block, void tuple component, nested for, call argument, `..` chain, array / struct / unary-minus / match operands, loop inside a lambda); product template: match on tuples, a struct and multi-field variants with void components in every position (trailing void, several voids), >= 2 arms where an earlier arm fails on a refutable sub-pattern, match in operand position with caller locals, expected output fixed in the harness, all six budgets; string templates: quick 90 / thorough 1500 programs with all six string comparison operators on designed pairs (equal, proper prefix either way, common prefix then smaller/greater byte, no common prefix, empty; every pair x operator at least once) as call arguments, under ==, in if conditions, under and/or, each followed in the same thread by further string operations on fresh temporaries, expected output computed byte-wise in the harness, run under all six budgets; search: quick 6x70 / thorough 6x2000 generated programs (tiers F0-F3 and two nesting streams with tasks, lambdas, loops, "
         "all assignment forms; every fifth program with large integer literals) and the repository corpus (the ~190 raw string "
         "literals of abra_core/tests/integration/e2e_bytecode.rs extracted at run time, minus those declaring #host functions), each "
         "checker-accepted program compiled and run under every step budget in {1,2,3,7,100,1000}: a host panic, an internal(...) error "
         "kind, a checker/compiler panic = failing input (spec_fail, shrunk); tie of the VM-core model: every generated F0 program is "
         "compiled by compileF0 and run by the model VM (`vmrun`), outcome kind + output compared with the real compiler+VM (two thirds of the F0 programs may have break/continue under pending operands); the former D21 "
         "fault witness is a hard regression program (D21 fixed by 0c43abd); non-trivial = vmrun cases that print or stop with an error",
    nontrivial=lambda req, imp: imp.startswith("error") or not imp.endswith(" -"),
    trusted_base=COMMON_TB + [
        "VMCore (lean/AbraModel/VMCore.lean) models the instruction arms of vm.rs it covers, with a `fault` outcome wherever the Rust "
        "code would panic (pop on empty stack, index out of range, check_type in debug builds, empty call stack); the harness is "
        "built in the dev profile, so debug assertions (tag checks) are on",
        "C01_compile_safe_F0 rests on the C02 simulation (same assumptions: `print` abbreviates the call of the prelude println)",
        "the search relies on catch_unwind around the real compiler and VM; host aborts would kill the harness and be reported by check",
    ],
    assumptions=["the coverage-guided template families (harness/src/bg9cov.rs) use constructs outside the generator AST and Abra.Sem (interfaces, intrinsics by name, channels, namespaces, size limits, diagnostics): their oracle is written in Rust from the language reference (expected output / error kind / \"a diagnostic\"), it is not a Lean model",
                 "runs that do not terminate are outside C01_compile_safe_F0 (the reference evaluation must finish)",
                 "values captured by tasks are outside the generator except in the nesting streams (no cyclic captures are generated; the former host abort D24 is fixed and owned by C08)"],
    design_ref="DESIGN.md §6 C01",
    level_text="Instruction contracts for the modelled VM core (Pre i s => step does not fault), F0 corollary of the compiler-correctness "
               "simulation (no bounded run of the code compileF0 generates for an F0 program faults when the reference evaluation finishes; no DepthSafe side condition since the model follows 0c43abd), the historical D21 fault "
               "witness as a statement about a hand-written instruction sequence; broad search for internal faults over generated programs of all tiers, nesting streams and the repository corpus "
               "under six step budgets.",
    level_note="partial: contracts cover the modelled instructions in the (top, top, top) operand form; full type soundness of the language is not "
               "proved and is covered only by the search.",
    technique="Lean 4 theorems over the VM-core model + corollary of the C02 simulation + differential search",
    timeout=3000,
)
