"""Per-property configuration of /verif/check (see DESIGN.md §6 for the reasoning per property)."""

COMMON_TB = [
    "Lean 4.33.0 kernel (thorough tier: leanchecker on the property module)",
    "axioms: subset of {propext, Classical.choice, Quot.sound} as printed per run in coverage.axioms_used",
    "correspondence harness /verif/harness (Rust, links the real abra_core/utils by path) and its generators",
    "Lean line-protocol driver /verif/lean/Main.lean",
]

