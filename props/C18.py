from props._common import COMMON_TB

PROP = dict(
    title="Named and default arguments behave like the positional call",
    lean_module="AbraProofs.Properties.C18",
    required_theorems=["C18_accept_iff_wellformed", "C18_reorder_correct", "C18_misuse_rejected",
                       "C18_method_skips_self"],
    harness_bin="c18",
    mismatch_is_violation=True,
    rule="every parameter list of arity <= 3 (quick) / <= 4 (thorough) x every subset of parameters with a default x "
         "call shapes = every sequence of length <= arity+1 over {positional, each parameter name, an unknown name} "
         "(permutations, omissions, duplicates by name and by name+position, unknown names, surplus positionals, "
         "positional after named) x 7 callee forms (free function, namespaced function, member function x.g(..), fully "
         "qualified member function T.g(x, ..), struct constructor, qualified and unqualified enum variant constructor); "
         "all well-formed shapes always, ill-formed shapes completely for free functions of arity <= 2 (quick) / <= 3 "
         "(thorough) and a seeded fraction otherwise; each call compiled and run by the real front end and VM with "
         "side-effecting argument expressions; plus arities 31, 32 and 33 (above CallData::MAX_NARGS the call goes through a function "
         "object) with defaults on parameter 5 and on the last ten, 10 shapes each (all positional, defaults omitted, all by name "
         "reversed, positional prefix + reversed names, holes filled by defaults, surplus, missing, name+position, unknown name, "
         "positional after named) for all 7 callee forms; 6 fixed probes; 24 default-value pairs (a default that is itself a qualified member call with explicit receiver / method call / free-function call / struct or variant constructor with named and default arguments of its own, on a function parameter, a method parameter, a struct field and a variant field: the program omitting the default at two call sites must print what the program with the default written out prints); distinct = distinct (form, parameter list, shape); non-trivial = the call "
         "uses a name, omits a parameter or is rejected",
    nontrivial=lambda req, imp: imp.startswith("diag") or any(w not in ("_", "-") for w in req.split()[3].split(",")) or "d" in imp.split("|")[0],
    trusted_base=COMMON_TB + [
        "the call-site plumbing of typecheck.rs / translate_bytecode.rs (which call forms consult function_call_arg_order) is "
        "covered by the correspondence only: the model gives every callee form the same decision",
        "utils::IdSet (insert/get_id/index) and HashSet/HashMap are assumed to be the finite set/map abstractions of the model",
    ],
    assumptions=[
        "fixed probes (harness/probes_bg8, Rust-side oracle): a 32-argument positional call, a payload variant named without "
        "arguments (D87: diagnostic), a default on an interface-implementation method and on a lambda parameter (D102, c7017fe: a diagnostic at "
        "the declaration), match expressions inside default values of a #host declaration and of a named function",
        "parameter names of one callee are pairwise distinct (hypothesis of the theorems; the generator only produces such lists)",
        "default values are literals (a default that mentions a name is outside the property's quantifier; see D30)",
    ],
    design_ref="DESIGN.md §6 C18",
    level_text="Theorems over all parameter lists with distinct names and all call shapes about a model of update_function_arg_info, "
               "calculate_func_call_order and calculate_named_arg_order: a call is accepted iff it is well-formed, and then the emitted "
               "argument list is, per parameter in order, the positional argument, else the argument with that name, else the default. "
               "The model is tied to /repo on every run by compiling and running generated calls for every callee form and "
               "comparing entries, evaluation order and diagnostic kinds; each call is also compared with the equivalent positional "
               "call executed for real.",
    level_note="The step from resolve.rs to Abra.CallOrder and the plumbing per call form are checked by correspondence, not proved. "
               "Trusts IdSet/HashMap, the harness and the Lean kernel.",
    technique="Lean 4 theorems (induction over the argument list, slot-vector invariants) about a hand-written model + differential "
              "correspondence against the real front end and VM",
    exhaustive=lambda tier: False,
)
