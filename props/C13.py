from props._common import COMMON_TB

PROP = dict(
    title="An arm is reported redundant exactly when no value can reach it",
    lean_module="AbraProofs.Properties.C13",
    required_theorems=["C13_useless_sound", "C13_useful_complete", "C13_redundant_iff", "C13_flags_length",
                       "C13_equal_float_redundant", "C13_repeated_arm_redundant"],
    harness_bin="c13",
    mismatch_is_violation=True,
    rule="the (scrutinee type, arm list) universe of C12 (harness/src/patuniv.rs; a different seeded stream) plus every "
         "pair of float spellings as consecutive arms (equal values in other spellings `1.`/`01.0`/`1_0.0`; adjacent doubles closer than f64::EPSILON: 0.3 / 0.30000000000000004, 0.0 / 1e-16, 1e-300 and its neighbour, the two smallest subnormals; last-bit neighbours at 1.5 and 2^52+1 as control; two spellings overflowing to +inf, f64::MAX), bare and inside a tuple with an "
         "or-pattern; each program is checked by the real checker (check_lsp), the arms reported redundant are mapped back "
         "through the label spans; compared: one useful/redundant flag per arm; spec oracle: brute-force reachability over "
         "every value of the finite representative domain (reported <=> no value reaches the arm first); placement dimension (D70): case i stands at one of 17 syntactic placements in rotation (let initialiser, arm body and scrutinee of another match, function / lambda / task / block / if / else / while / for body, call argument, array / tuple / struct literal element, index of an assignment target, struct-field default); every third case is also checked as a let initialiser and both verdicts must be equal; two fixed matches are checked at all 17 placements; non-trivial = at "
         "least one arm reported redundant or an or-pattern in an arm",
    nontrivial=lambda req, imp: "0" in imp or " or " in req,
    trusted_base=COMMON_TB + [
        "type inference delivers arms of the scrutinee's type (Abra.PatMatrix.patTyped) before the exhaustiveness pass runs",
        "named struct/variant fields are put into declaration order by the harness; generic type arguments, arrays and function types are not in the model",
        "str::parse::<f64> (the harness and the checker parse float spellings with it; the model carries the bits)",
        "the mapping of RedundantArms label spans back to arm indices in the harness",
    ],
    assumptions=[
        "all types of the enum environment are inhabited (hypothesis Inhabited')",
        "the model's int and float value spaces are unbounded (see C12)",
        "a positional sub-pattern on a void payload is erased (repaired behaviour of D31)",
    ],
    design_ref="DESIGN.md §6 C13",
    level_text="Theorems (same model and invariant as C12, for every environment with inhabited types, scrutinee type, well-typed arm list and "
               "finishing run): the useful flag of arm i is true iff some well-typed value matches arm i and no earlier arm (pmatch = run-time "
               "meaning of source patterns); so an arm is reported redundant exactly when unreachable, and an arm whose pattern repeats an earlier arm's pattern is redundant (C13_repeated_arm_redundant; for float literals "
               "the model's constructors carry the parsed bits, so two spellings of one double are the same pattern: C13_equal_float_redundant is the two-leading-arms case). Tied to /repo on every run by diffing the redundant-arm sets "
               "of the real checker with the model's flags, plus a brute-force reachability oracle.",
    level_note="Termination of the recursion is proved in C12 (C12_terminates), so the theorems are unconditional in the fuel. Int/float spaces unbounded in the model.",
    technique="Lean 4 theorems (Maranget-style induction over the matrix recursion) over a hand-written model + differential correspondence against the real checker + brute-force oracle",
    timeout=1500,
)
