from props._common import COMMON_TB

PROP = dict(
    title="The runtime reports completion, errors and host calls truthfully",
    lean_module="AbraProofs.Properties.C11",
    required_theorems=["C11_steps_le_budget", "C11_steps_eq_executed", "C11_done_iff_main_stopped",
                       "C11_main_error_reported", "C11_error_kind_from_instruction", "C11_status_priority",
                       "C11_host_call_args"],
    harness_bin="c11",
    # trace cases compare the whole interleaving (more than the property fixes); the property's own
    # statements are checked directly on the implementation (spec_fail)
    mismatch_is_violation=False,
    rule="programs (quick 525 / thorough 5250, one random schedule each: budgets 1,2,3, 4-60, 5000, or a cycle of "
         "budgets 0-12 with unserviced calls): 3/7 host-call programs (host functions h0..h4,hv of arity 0-4 over "
         "int/float/bool/string declared with #host; direct, nested, first-class and in-function calls), 2/7 status "
         "programs (main completes or fails with each of the 4 error kinds while 1-3 tasks run forever, are blocked on a "
         "read, have failed or have finished), 1/7 host calls from a task, 1/7 generated single-thread programs; plus (quick 150 / thorough 1500) programs in which a "
         "task prints in a loop for ever while main fails (4 kinds) or completes after k steps, budgets {2,3,7,100,1000000}. A third of the host-call "
         "programs declare their host functions in a second root file (compile_bytecode_with_host_funcs). At every return the "
         "accessors RuntimeStatus::is_done/error and VmGreenThread::get_pending_host_func/get_error must agree with the status "
         "kinds. Further streams: (quick 150 / thorough 1500) programs whose final expression statement (int/bool/string "
         "expression, fn call, host call) is FOLLOWED by 1-4 declaration items (fn, struct, enum, #host fn used earlier): the final "
         "value must still be that expression's value; regression of D113 (quick 15): 20-60 tasks that each fail at once, never more "
         "than 4 threads in the run queue, and in every program no failed task may still be parked in the run queue at the end of a "
         "call; hard regression of D44 (`let g = readline; g()` delivers the host's value, budgets 1/3/5000). Every run: at most 20000 calls (never reporting completion or failure is a failure) and two further calls without servicing "
         "after the report, which must repeat the reported status. "
         "spec_fail per call: steps_consumed <= budget, = instructions executed (hook); Done <=> main executed Stop in "
         "this call and nothing ran after it; PendingHostFunc/OutOfSteps/MainThreadError agree with the thread flags, in particular a failed main thread is reported "
         "even when another task has a host call pending; "
         "per run: expected error kind, expected output, expected final value, the host saw exactly the calls and "
         "arguments written in the program (in order) under the function number of its name. Model cases: one scheduler "
         "trace per program (<=2500 steps) and one `hostcall` case per program whose first call is h0/h1; "
         "non-trivial = a pending host call, an error, a blocked read or completion with threads left in the queue",
    nontrivial=lambda req, imp: req.startswith("hostcall") or any(m in imp for m in ("|pending|", ".e:", "|err:", ".b")),
    trusted_base=COMMON_TB + [
        "hook verif_sched in abra_core/src/vm.rs (cfg abra_verif): read-only event log of scheduler turns",
        "host_bindings VmType::{from_vm,to_vm} for int/float/bool/string (used by the harness's host functions)",
    ],
    assumptions=[
        "`the value of a final non-void expression statement is the reported result` is checked on the implementation "
        "(expected values computed from the program text); the theorem part is that the finished main thread, whose "
        "stack top() reads, is kept in finished_main_thread — that the compiler leaves the value there is C02",
        "host-call theorem is stated on the MiniVM stack machine (push arguments in order, HostFunc); that the compiler "
        "emits exactly that shape is checked by the harness's argument-order check, not proved",
    ],
    design_ref="DESIGN.md §6 C11",
    level_text="Theorems about the scheduler model Abra.Sched for every thread step function: steps <= budget and steps = "
               "executed instructions for every state; under the hypothesis MainQueued (the main thread is in the run queue, no finished or "
               "failed-task thread waits in a queue, finished_main_thread is empty - true for Runtime::new and kept by every call that "
               "does not report completion), Done is reported by exactly the call in "
               "which main executes Stop (last executed instruction, immediate return, main kept for top()), never otherwise, "
               "whatever the other threads do; MainThreadError e exactly when main carries error e (kind from the failing "
               "instruction); status priority (given the thread found by try_get_main is not finished); host-call protocol on a concrete "
               "stack machine for the program shape `push args; HostFunc(n)` started on Runtime::new with a sufficient budget (arguments in parameter order, "
               "last on top; resume after the instruction with the host's value on top). Tied to /repo by scheduler trace "
               "validation, a host-call correspondence and direct checks of each statement on the implementation.",
    level_note="The model is validated by trace correspondence, not derived from vm.rs. Defect D44 (zero-parameter host "
               "function used as a first-class value lost the host's value; fixed by acfc8f4) is a hard regression check and its shape "
               "is always in the main stream.",
    technique="Lean 4 theorems (loop invariants) over a hand-written scheduler model and stack machine + trace validation and direct property checks against the real runtime",
    timeout=3000,
)
