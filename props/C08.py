from props._common import COMMON_TB

PROP = dict(
    title="A task works on its own copies of the values it captures",
    lean_module="AbraProofs.Properties.C08",
    required_theorems=["C08_deepcopy_total", "C08_deepcopy_iso", "C08_deepcopy_sharing", "C08_spawn_copies_one_graph",
                       "C08_deepcopy_equal", "C08_deepcopy_preserves_original", "C08_deepcopy_disjoint",
                       "C08_deepcopy_fresh", "C08_deepcopy_shares_nothing", "C08_spawn_fresh", "C08_stale_table_counterexample",
                       "C08_deepcopy_channel_shared", "C08_threads_isolated", "C08_spawn_isolated",
                       "C08_deepcopy_prerepair_cyclic"],
    harness_bin="c08",
    # the model answer (rendering of the deep copy, all of it owned by the new thread) is what the theorems show
    # the property demands, so a differing implementation answer is itself a failing input
    mismatch_is_violation=True,
    rule="programs (quick 240 / thorough 3000): 12 value types (int, bool, string, (int,string), option<int>, array<int>, "
         "array<string>, struct Box, array<Box>, option<Box>, array<array<int>>, struct Nest{Box, array<(int,string)>, "
         "option<int>, array<Box>} = nesting 3) x 3 shapes (one task, mutations on both sides right after the spawn; two "
         "tasks spawned before/after the spawner's mutations; a captured channel carrying the task's mutated copy back, "
         "mutated again by the receiver), each run under the budgets {1,2,3,7,100}. spec_fail: every printed rendering "
         "(what the task saw at its start, after its own mutations, the spawner's original at the end, what came back "
         "through the captured channel) equals the rendering computed in Rust from the generated value and mutations. "
         "Plus (quick 120 / thorough 1500) aliasing and cyclic captures in 6 shapes (one array under two variables; under two "
         "fields of one struct; as a capture and as a field of another capture; a struct whose array field contains it; a "
         "two-node cycle; one Box twice in an array; cycles ROOTED AT AN ARRAY: array->struct->same array, array->variant->same "
         "array, array->array->variant->first array; a variant-rooted cycle; arrays that are EMPTY at the spawn - directly, in a "
         "struct, a tuple, an enum payload, the environment of two closures, or popped down to nothing - and grown on both sides "
         "afterwards); plus the NESTED GRID (quick 70): every container kind (struct field, tuple component, array "
         "element, variant payload, closure capture) over every leaf (array<int>, string, channel<int>), every pair of containers "
         "over the mutable array, random triples (depth 3): the innermost array is pushed to on both sides after the spawn and "
         "observed on both sides (a channel leaf must be shared), each with a `heapalias` model request walking the same slots; "
         "plus SHARED CHILDLESS (quick 24): an empty array / array<void> / empty nested array / struct of "
         "immediates reachable along 2-3 paths of one capture, mutated through one path and observed through the others on both "
         "sides; plus (quick 60 / thorough 750) HISTORIES of copies on one thread: the spawner reads heap messages "
         "it wrote itself (array / struct holding the array), mutates in between, spawns tasks capturing those same objects, in "
         "random order (a read first, a spawn after it); then every task, every snapshot and the originals are mutated and all "
         "are printed - nothing may survive from one copy to the next). In the alias shapes the task mutates through one alias and observes through the other, so does "
         "the spawner on its originals. Model cases: `heapcopy <value>` - Lean deepCopy renders the copy as the task saw it and "
         "owns all of it - and `heapalias <captures with labels> | <ops>` - spawnCopy (one map), the same mutations and "
         "observations, every printed line; distinct = distinct values; non-trivial = the value contains a heap object",
    nontrivial=lambda req, imp: "(" in req or "'" in req or "&" in req,
    # every program runs in a child process (batches of 8, re-run one by one when a child dies), so a defect that
    # aborts the host is reported with the program that triggered it
    trusted_base=COMMON_TB + [
        "Rust Box/raw pointers: an object allocated by a thread stays readable and unchanged until that thread is dropped or stores into it (heap model Abra.Heap); garbage collection is C06",
        "the Abra `show_*` functions of the harness (string concatenation, match, for) render the value faithfully",
    ],
    assumptions=[
        "capture analysis (which variables a task block captures: translate_bytecode.rs calculate_args_captures_locals) is "
        "exercised by the harness only; the theorems are about SpawnTask/deep_copy on the captured values",
        "the theorems are about the repaired deep copy (fix 0cb8741) and hold for all values, shared and cyclic included; the model reads "
        "source objects from the heaps as they were when the copy started and fills a copy when its last child is done (both invisible in the "
        "result because nothing but fresh copies is written, and no copy is read, during a copy)",
    ],
    design_ref="DESIGN.md §6 C08",
    level_text="Theorems about a model of Value::deep_copy_helper (map source address -> copy, copy recorded before its children) over "
               "per-thread heaps, for ALL values incl. shared and cyclic ones: the copy always finishes with fuel = number of reachable "
               "objects + 1 on a well-formed graph; the copy is isomorphic to the source graph (every copied object is the image of its "
               "source object under the map, the map is injective, covers everything reachable from the source and nothing else is "
               "reachable from the copy; sharing preserved exactly; one map for all captures of a SpawnTask); values that render, render "
               "equal; every object reachable from the copy belongs to the new thread (channel handles are new objects naming the same "
               "queue); under the ownership invariant no store into or teardown of another thread's heap changes anything reachable "
               "from a value - both directions after a spawn. The pre-repair copy provably never finished on a cyclic value. Tied to "
               "/repo by generated capture programs (plain, aliased, cyclic) under five budgets against renderings computed "
               "independently, and by heapcopy/heapalias correspondences with the Lean model.",
    level_note="proof for all values (D24 fixed by 0cb8741; kept as a regression run in a child process). The heap model is validated by "
               "correspondence, not derived from vm.rs.",
    technique="Lean 4 theorems (fuel induction, heap extension/monotonicity, reachability congruence) over a hand-written heap model + differential programs against the real compiler and VM",
    timeout=3000,
)
