from props._common import COMMON_TB

PROP = dict(
    title="A task works on its own copies of the values it captures",
    lean_module="AbraProofs.Properties.C08",
    required_theorems=["C08_deepcopy_equal", "C08_deepcopy_preserves_original", "C08_deepcopy_disjoint",
                       "C08_deepcopy_channel_shared", "C08_threads_isolated", "C08_spawn_isolated",
                       "C08_deepcopy_cyclic_counterexample"],
    harness_bin="c08",
    # the model answer (rendering of the deep copy, all of it owned by the new thread) is what the theorems show
    # the property demands, so a differing implementation answer is itself a failing input
    mismatch_is_violation=True,
    rule="programs (quick 240 / thorough 3000): 12 value types (int, bool, string, (int,string), option<int>, array<int>, "
         "array<string>, struct Box, array<Box>, option<Box>, array<array<int>>, struct Nest{Box, array<(int,string)>, "
         "option<int>, array<Box>} = nesting 3) x 3 shapes (one task, mutations on both sides right after the spawn; two "
         "tasks spawned before/after the spawner's mutations; a captured channel carrying the task's mutated copy back, "
         "mutated again by the receiver), each run under the budgets {1,2,3,7,100}. spec_fail: every printed rendering "
         "(what the task saw at its start, after its own mutations, the spawner's original at the end, what came back "
         "through the captured channel) equals the rendering computed in Rust from the generated value and mutations. "
         "Model case per program: `heapcopy <value>` - Lean deepCopy renders the copy as the task saw it and owns all of "
         "it; distinct = distinct values; non-trivial = the value contains a heap object",
    nontrivial=lambda req, imp: "(" in req or "'" in req,
    trusted_base=COMMON_TB + [
        "Rust Box/raw pointers: an object allocated by a thread stays readable and unchanged until that thread is dropped or stores into it (heap model Abra.Heap); garbage collection is C06",
        "the Abra `show_*` functions of the harness (string concatenation, match, for) render the value faithfully",
    ],
    assumptions=[
        "capture analysis (which variables a task block captures: translate_bytecode.rs calculate_args_captures_locals) is "
        "exercised by the harness only; the theorems are about SpawnTask/deep_copy on the captured values",
        "acyclic values: a successful copy is the hypothesis of the theorems; cyclic values never copy (D24)",
    ],
    design_ref="DESIGN.md §6 C08",
    level_text="Theorems about a model of Value::deep_copy over per-thread heaps (address = thread id x index): a successful "
               "copy renders equal to the original, every object reachable from it belongs to the new thread (channel "
               "handles are new objects naming the same queue), and under the ownership invariant no store into or "
               "teardown of another thread's heap changes how a value renders - in both directions after a spawn. "
               "Cyclic values never copy (proved witness of known finding D24). Tied to /repo by running generated "
               "capture programs under five budgets against renderings computed independently, and by a heapcopy "
               "correspondence with the Lean model.",
    level_note="proof for acyclic values; D24 (cyclic capture aborts the host) is a known finding replayed in a child process. "
               "The heap model is validated by correspondence, not derived from vm.rs.",
    technique="Lean 4 theorems (fuel induction, heap extension/monotonicity, reachability congruence) over a hand-written heap model + differential programs against the real compiler and VM",
    timeout=3000,
)
