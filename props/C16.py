from props._common import COMMON_TB

PROP = dict(
    title="Float arithmetic, conversions and comparisons follow the spec",
    lean_module="AbraProofs.Properties.C16",
    required_theorems=["C16_fcmp_relations", "C16_key_injective", "C16_key_bits", "C16_fcmp_total_order",
                       "C16_fcmp_consistent", "C16_fcmp_is_ieee_total_order", "C16_isZero_iff", "C16_div_zero_check",
                       "C16_no_other_error", "C16_const_consistent", "C16_chain_left_to_right", "C16_chain_two", "C16_roundInt_spec", "C16_roundInt_round_spec", "C16_round_spec", "C16_math_exact_ones", "C16_msb_spec", "C16_nan_spelling_loses_sign", "C16_viaString", "C16_int_from_float_spec",
                       "C16_int_from_float_range", "C16_float_from_int_spec"],
    harness_bin="c16",
    mismatch_is_violation=True,
    rule="bit patterns: a 38-element boundary set (±0, smallest/largest subnormal, smallest normal, ±1 and neighbours, "
         "0.5 and its predecessor, half-integers, 2^53 and neighbours, ±2^63 and neighbours, 2^64, ±MAX, values whose "
         "products overflow or underflow) plus ±inf and the hardware NaN (computed at run time) plus seeded random finite "
         "patterns (uniform bits / moderate exponents / integers near the i64 limits); comparisons: pairs x 6 operators "
         "in var/var, var/literal (*Imm) and literal/literal form, each with the RESULT DESTINATION as a further dimension "
         "(printed directly, stored into a new local, assigned to an existing variable, `if` condition, call argument — "
         "at top level and inside a function — and returned from a function; one seeded destination per (pair, shape), "
         "all ten for equal operands incl. -0.0/+0.0 and NaN/NaN); arithmetic results likewise go to a new local, "
         "println, an existing variable, a call argument, a return value or a function local; arithmetic + - * / ^ in var/var, var/literal, "
         "literal/literal (optimizer fold) and compound-assignment form incl. zero divisors of both signs and NaN-producing "
         "powers; CHAINS v op a op b [op c] with literal operands (32 designed rounding-sensitive triples: 2^53 +/- 1 ties, "
         "1.0 with sub-ulp increments, large+large-large, MAX*2*0.5, subnormal*0.5*2, 1/3/3, zero divisors; plus 260 "
         "(thorough 8000) seeded chains of length 2-3 over + - * / incl. mixed precedence) in variable/literals, "
         "all-variables and assignment form against the host's step-by-step f64 evaluation, and the right-grouped "
         "v op1 (a op2 b) as parenthesised literals, parenthesised variables, by precedence and as compound "
         "assignment `x op1= a op2 b`; "
         "POWER whichever way it is written (about a third of the quick-tier evaluations): ~390 (base, exponent) pairs "
         "(thorough ~9000: 19 designed pairs such as 1e155^-2, 1e-155^2, 1e154^2, x^64 vs x^65; ten bases 0.1/0.3/0.7/"
         "1.2/1.3/2.3/... x 19 exponents 2 3 4 -1 -2 0.5 10 64 65 1.5 ..., three quarters of that grid in quick; 300 "
         "(thorough 9000) bases with random mantissas), each evaluated in one program by 8 routes — base in a variable / "
         "function parameter / array element with the exponent a LITERAL (PowerFloatImm), exponent in a variable, "
         "x.pow(y), power_float(x, y), power_float(x, literal), Num.power — every route one case, bit-exactly the host's powf; "
         "the 13 unary MATH instructions sqrt sin cos tan asin acos atan log log2 log10 floor ceil round (330 cases, "
         "thorough 9000; boundary set + half-integers, 0.49999999999999994, 2^52 +/- 0.5, out-of-domain arguments) and "
         "atan2 (40, thorough 1200) as literal call, top-level variable call, operand-and-result-in-locals inside a "
         "function, function value and method; floor/ceil/round are computed by the model, the others are compared with "
         "the host's libm only; float->string (`.str()`, string_from_float, `\"\" .. x`; 60, thorough 2000) stored into a "
         "local and parsed back; the arithmetic and comparison intrinsics called BY NAME (add_float .. power_float, "
         "less_than_float .. equal_float; 100, thorough 3000) also as function values; unary minus on variables and "
         "literals; int_from_float (function, method, literal, operand and result in function locals) and float_from_int "
         "(function, method, literal) incl. ties just above 2^53; every case compiled and run by the real compiler and VM; values go in as "
         "exact decimal literals and come back through println + host parse (NaN sign through `r < 0.0`); distinct = "
         "distinct request; non-trivial = an operand or result is zero/subnormal/inf/NaN/beyond 2^53, or an error",
    nontrivial=lambda req, imp: ("err" in imp or "nan" in imp or any(
        w[:3] in ("000", "800", "7ff", "fff", "7fe", "ffe") or w[:3] >= "434" and w[:1] in "4c" for w in req.split()[2:5] if len(w) == 16)
        or req.split()[1] in ("fromint",)),
    trusted_base=COMMON_TB + [
        "IEEE-754 binary64 arithmetic of the host (+ - * / powf) — a parameter of the model, tied only by comparing the VM's result with the host's on every run",
        "f64::total_cmp is the order of Abra.F64.key (std documents it as: flip all bits if negative, else flip the sign bit) — tied by correspondence",
        "Rust `as i64` (saturating, NaN to 0) and `as f64` (nearest, ties to even) are Abra.F64.intFromFloat / floatFromInt — tied by correspondence",
        "f64::to_string / str::parse::<f64> round-trip every non-NaN value (documented Rust guarantee; used by the optimizer fold, by Abra.F64.viaString and by the harness to read results)",
    ],
    assumptions=[
        "NaN payloads other than the hardware's default NaN cannot be produced by an Abra program and are covered by the theorems only",
        "sqrt/sin/cos/tan/asin/acos/atan/log/log2/log10/atan2 are outside the model's language (libm: a parameter); they are executed and compared with the host's f64 functions by the Rust-side oracle only",
        "HOST-ORACLE PASSTHROUGH in the model driver (Drv/F64.lean): for the request kinds `arith` (incl. every power route "
        "and the intrinsics by name), `chain`, `chainr`, `neg`, `atan2` and `math` with sqrt/sin/cos/tan/asin/acos/atan/log/"
        "log2/log10 the request carries the host's f64 result(s) and the model returns them; what the model itself decides "
        "there is only: DivisionByZero exactly for a ±0 divisor (also mid-chain, first one wins), the left-to-right / "
        "right-grouped order of a chain, that a fold equals the computation (NaN results are not folded), and the rendering "
        "of a NaN by sign. For those kinds a model mismatch can therefore only be an error-vs-value or NaN-sign difference; "
        "the bit-exact value comparison is the Rust oracle (spec_fail) alone. Computed by the model with no host input: "
        "`cmp` (all six comparisons), `toint`, `fromint`, `math` floor/ceil/round, `viastring`.",
        "models the repaired behaviour of D32 (a NaN result is not folded) and D33 (unary minus subtracts from -0.0)",
    ],
    design_ref="DESIGN.md §6 C16",
    level_text="Theorems over all 2^64 bit patterns about a model of the comparison arms (total_cmp key), the zero test of "
               "division in every operand form, constant folding through decimal spelling, `f as i64` (decoded sign/exponent/"
               "mantissa: truncation toward zero, saturation, NaN to 0) and `n as f64` (nearest, ties to even; for integers in the 64-bit range), floor/ceil/round (exact integer value of the "
               "rounded rational; floor and ceil characterised by inequalities, round by its defining formula half away from "
               "zero) and the left-to-right evaluation of operator chains for any arithmetic; the model is "
               "tied to /repo on every run by executing the real compiler+VM on boundary and random operands in every form.",
    level_note="Partial by design: IEEE arithmetic and libm are parameters of the model, not theorems (tied by comparing with the "
               "host's f64 operations). Trusts Rust's total_cmp/as-casts/float printing as described in the trusted base.",
    technique="Lean 4 theorems (omega on the arithmetic reading of the key, Nat.testBit lemmas for the bit-level key, case "
              "analysis on decoded fields) over a hand-written UInt64 model + differential correspondence against the real VM",
    timeout=1500,
)
