from props._common import COMMON_TB

PROP = dict(
    title="Float arithmetic, conversions and comparisons follow the spec",
    lean_module="AbraProofs.Properties.C16",
    required_theorems=["C16_fcmp_relations", "C16_key_injective", "C16_key_bits", "C16_fcmp_total_order",
                       "C16_fcmp_consistent", "C16_fcmp_is_ieee_total_order", "C16_isZero_iff", "C16_div_zero_check",
                       "C16_no_other_error", "C16_const_consistent", "C16_chain_left_to_right", "C16_chain_two", "C16_roundInt_spec", "C16_round_spec", "C16_math_exact_ones", "C16_viaString", "C16_int_from_float_spec",
                       "C16_int_from_float_range", "C16_float_from_int_spec"],
    harness_bin="c16",
    mismatch_is_violation=True,
    rule="bit patterns: a 38-element boundary set (±0, smallest/largest subnormal, smallest normal, ±1 and neighbours, "
         "0.5 and its predecessor, half-integers, 2^53 and neighbours, ±2^63 and neighbours, 2^64, ±MAX, values whose "
         "products overflow or underflow) plus ±inf and the hardware NaN (computed at run time) plus seeded random finite "
         "patterns (uniform bits / moderate exponents / integers near the i64 limits); comparisons: pairs x 6 operators "
         "in var/var, var/literal (*Imm) and literal/literal form, each with the RESULT DESTINATION as a further dimension "
         "(printed directly, stored into a new local, assigned to an existing variable, `if` condition, call argument — "
         "at top level and inside a function — and returned from a function; one seeded destination per (pair, shape), "
         "all ten for equal operands incl. -0.0/+0.0 and NaN/NaN); arithmetic results likewise go to a new local, "
         "println, an existing variable, a call argument, a return value or a function local; arithmetic + - * / ^ in var/var, var/literal, "
         "literal/literal (optimizer fold) and compound-assignment form incl. zero divisors of both signs and NaN-producing "
         "powers; CHAINS v op a op b [op c] with literal operands (32 designed rounding-sensitive triples: 2^53 +/- 1 ties, "
         "1.0 with sub-ulp increments, large+large-large, MAX*2*0.5, subnormal*0.5*2, 1/3/3, zero divisors; plus 260 "
         "(thorough 8000) seeded chains of length 2-3 over + - * / incl. mixed precedence) in variable/literals, "
         "all-variables and assignment form against the host's step-by-step f64 evaluation, and the right-grouped "
         "v op1 (a op2 b) as parenthesised literals, parenthesised variables, by precedence and as compound "
         "assignment `x op1= a op2 b`; unary minus on variables and literals; int_from_float and float_from_int as function, method and on "
         "literals incl. ties just above 2^53; every case compiled and run by the real compiler and VM; values go in as "
         "exact decimal literals and come back through println + host parse (NaN sign through `r < 0.0`); distinct = "
         "distinct request; non-trivial = an operand or result is zero/subnormal/inf/NaN/beyond 2^53, or an error",
    nontrivial=lambda req, imp: ("err" in imp or "nan" in imp or any(
        w[:3] in ("000", "800", "7ff", "fff", "7fe", "ffe") or w[:3] >= "434" and w[:1] in "4c" for w in req.split()[2:5] if len(w) == 16)
        or req.split()[1] in ("fromint",)),
    trusted_base=COMMON_TB + [
        "IEEE-754 binary64 arithmetic of the host (+ - * / powf) — a parameter of the model, tied only by comparing the VM's result with the host's on every run",
        "f64::total_cmp is the order of Abra.F64.key (std documents it as: flip all bits if negative, else flip the sign bit) — tied by correspondence",
        "Rust `as i64` (saturating, NaN to 0) and `as f64` (nearest, ties to even) are Abra.F64.intFromFloat / floatFromInt — tied by correspondence",
        "f64::to_string / str::parse::<f64> round-trip every non-NaN value (documented Rust guarantee; used by the optimizer fold, by Abra.F64.viaString and by the harness to read results)",
    ],
    assumptions=[
        "NaN payloads other than the hardware's default NaN cannot be produced by an Abra program and are covered by the theorems only",
        "sqrt/sin/cos/tan/asin/acos/atan/log/log2/log10/atan2 are outside the model's language (libm: a parameter); they are executed and compared with the host's f64 functions by the Rust-side oracle only",
        "models the repaired behaviour of D32 (a NaN result is not folded) and D33 (unary minus subtracts from -0.0)",
    ],
    design_ref="DESIGN.md §6 C16",
    level_text="Theorems over all 2^64 bit patterns about a model of the comparison arms (total_cmp key), the zero test of "
               "division in every operand form, constant folding through decimal spelling, `f as i64` (decoded sign/exponent/"
               "mantissa: truncation toward zero, saturation, NaN to 0) and `n as f64` (nearest, ties to even); the model is "
               "tied to /repo on every run by executing the real compiler+VM on boundary and random operands in every form.",
    level_note="Partial by design: IEEE arithmetic and libm are parameters of the model, not theorems (tied by comparing with the "
               "host's f64 operations). Trusts Rust's total_cmp/as-casts/float printing as described in the trusted base.",
    technique="Lean 4 theorems (omega on the arithmetic reading of the key, Nat.testBit lemmas for the bit-level key, case "
              "analysis on decoded fields) over a hand-written UInt64 model + differential correspondence against the real VM",
    timeout=1500,
)
