from props._common import COMMON_TB

PROP = dict(
    title="Values are rendered as text exactly as documented",
    lean_module="AbraProofs.Properties.C28",
    required_theorems=["C28_str_eq_render", "C28_helper_eq_join", "C28_format_append_spec", "C28_print_spec",
                       "C28_array_shape", "C28_string_verbatim", "C28_format_chain_spec", "C28_rendering_is_pure", "C28_foreign_leaf_spliced", "C28_int_decimal"],
    harness_bin="c28",
    mismatch_is_violation=True,
    rule="ints at every change of decimal length: +-(10^k +- d) for k = 0..18, d = 0..3 and +-(10^k - d) for k = 15..18, d up to 300 (quick) / 3000 (thorough), 40 per "
         "program, each bare, via str into a local, via `..`, inside array, tuple, option and result; random int leaves are drawn from these, from 2^k +- 2, from "
         "random 64-bit values and from the list below; directed: 14 boundary ints (incl. MIN, MAX, +-2^32), 14 strings (empty, separators ', ' '[ ]' '(1, 2)', newline, tab, quote, backslash, "
         "non-ASCII), bools, nil, each alone and inside array (0/1/3 elements, nested with empty inner arrays), option, result (ok and err side), "
         "2/3/4-tuples; ints and strings also as literal operands of `..` (inlined str); leaves of types outside the built-in nest, rendered by "
         "their own str and spliced into the built-in containers: 12 floats (incl. -0.0, 1e21 and 1.5e-7 spelled as decimals, 17-digit values; also `let s = x.str()` and "
         "`string_from_float(x)` into a local), a user struct with `implement ToString`, a `channel<int>` with `implement ToString for channel<T>`; "
         "the mode `let s = v.str(); print(s)` (conversion result stored straight into a local); random: 1500 (quick) / 20000 (thorough) values of random nested "
         "types of depth <= 3 / 4 (array, tuple 2-4, option, result over int/bool/void/string, arrays of 0-6 elements), rendered through print, println, "
         "ToString.str, `\"<< \" .. v`, `v .. \" >>\"` and `v .. w`; purity stream: 5 minimal + 400 (quick) / 4000 (thorough) programs that build 2-4 strings at run time "
         "(results of `..`, int and bool conversions, strings built from other run-time strings incl. as LEFT operand), share the same string object "
         "several times inside one value and between values (array elements, tuple components, option/result payloads, struct fields), render every "
         "value and every string at least three times by different routes (println, ToString.str, print, `\"<\" .. v .. \">\"`, `v .. w`, `w .. v`, "
         "`v .. \"!\"`), compare each string and each value with `==` against a separately built twin and render the never-rendered twins last; "
         "the printed bytes are compared with the Lean model of the prelude's ToString code and "
         "with the documented format written in Rust; non-trivial = the value has a container or the text is not a plain decimal",
    nontrivial=lambda req, imp: any(t in req.split() for t in ("A", "T", "SOME", "NONE", "OK", "ERR", "S", "N", "B")),
    trusted_base=COMMON_TB + [
        "decimal text of ints: the VM's int-to-text is compared with Lean's Int repr, which C28_int_decimal shows to be the canonical numeral (sign first, decimal digits "
        "denoting the magnitude, minimal length); the comparison runs on every decimal-length boundary and on random ints on every run",
        "the model strV is a hand transliteration of the prelude's ToString impls, array_to_string_helper (on the suffix arr[idx..]) and format_append; "
        "the step from the Abra source to the model is checked by correspondence, not proved (two-way tie: model vs. real VM)",
        "concat_strings is assumed to be string concatenation (C17)",
    ],
    assumptions=["the text of a float is Rust's f64::to_string (trusted like i64::to_string); floats, values of user types and channels with a user ToString impl enter the "
                 "model as leaves `ext text` carrying the text their own str yields (computed by the harness), so for them the model and the oracle fix how the "
                 "built-in containers splice that text in, not the text itself",
                 "the documentation is silent about the empty array; the code prints `[  ]` (two spaces) and the specification follows the code"],
    design_ref="DESIGN.md §6 C28",
    level_text="Theorem over all values of the nested built-in types (any depth and size): the prelude's ToString code, as modelled, produces exactly "
               "the documented text (`render`), incl. array_to_string_helper = ', '-separated join, `..` = concatenation of the two texts, print/println, and any sequence of rendering "
               "statements over the same values prints statement by statement the documented text of its operands (the model is store-free, so this is purity at the model level; that the real heap of shared string objects behaves the same is checked by the purity stream of the correspondence, not proved). "
               "The model is tied to /repo on every run by rendering random nested values on the real VM through print, println, str and `..`.",
    level_note="The step from prelude.abra to the model is by correspondence. The empty array renders as `[  ]`; the spec follows the code there.",
    technique="Lean 4 theorem by mutual structural induction over nested values + differential correspondence against the real prelude on the real VM + documented format re-stated in Rust",
)
