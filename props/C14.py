from props._common import COMMON_TB

PROP = dict(
    title="Match and destructuring select the first matching arm and bind correctly",
    lean_module="AbraProofs.Properties.C14",
    required_theorems=["C14_patCompare_correct", "C14_patBind_correct", "C14_let_destructuring",
                       "C14_match_takes_first_pass", "C14_match_selects_first_partial", "C14_d27_regression",
                       "C14_let_accepted_binds", "C14_let_binds_first_combination", "C14_let_destructuring", "C14_d103_regression",
                       "C14_orfree_is_chain"],
    harness_bin="c14",
    mismatch_is_violation=True,
    rule="(scrutinee type, accepted arm list, value) triples over the universe of C12 (harness/src/patuniv.rs): 420 (quick) / "
         "9000 (thorough) seeded arm lists with bindings (base-typed positions), or-patterns with and without bindings, named "
         "fields in shuffled order, made acceptable (unreachable arms dropped, closed with a wildcard if needed); every value of "
         "the finite representative domain up to 5 (quick) / 24 (thorough) per case, at least one per arm; the compiled program "
         "computes `1000 + match s { pat_k -> { println(\"x=\" .. x)…; k } }` so the arm taken, every bound variable and a leaked "
         "stack slot are observed; plus 150 / 3000 attempts at plain `let` and `for` destructuring programs (wildcards and bindings in tuple / struct patterns; only the draws of a tuple or struct type run, about half: 75-85 in the quick tier); compared with the Lean model of the "
         "emitted code run on the model VM; spec oracle: Rust reference (first matching arm, bindings of the first matching "
         "alternative); the shapes of the repaired defects D27, D31, D46, D47 are unconditionally in the main stream and their original inputs (incl. the "
         "compile hang, in a child process with a time limit, re-run alone before a timeout counts) are hard regression checks: a wrong output is a spec failure; "
         "coverage-guided additions: a struct without fields (also as payload and tuple component), a generic enum with named fields, single-variant enums; 220 (quick) / 4000 irrefutable let / annotated let / var / for / let-in-function patterns with variant, named-variant and or sub-patterns, bound values compared with the model (pc let) and with the reference (first matching alternative); hard regression programs D97, D103, B15, A09; non-trivial = the arm taken is not arm 0, or something is bound, or an or-pattern occurs",
    nontrivial=lambda req, imp: not imp.startswith("arm=0 leak=0") or "=" in imp.split("leak=0", 1)[-1] or " or " in req,
    trusted_base=COMMON_TB + [
        "the VM's instruction semantics for the 18 instructions the pattern code uses (Abra.PatCompile.step), the run-time representation of values (repr) and forward-jump resolution are modelled, not proved against vm.rs; the tie observes arm index, bound values and stack balance, not the instruction stream",
        "type inference delivers arms of the scrutinee's type (patTyped); named fields are put in declaration order by the harness",
        "ToString for bool/int/float/string and str::parse::<f64> (bound values are printed by the program and parsed back)",
    ],
    assumptions=[
        "the model follows the code after the repairs D27 (binary-counter arm loop, read-only decision sets), D46 (a variant declaring several fields always stores a struct payload) and D47 (a void payload is popped with the variant; traverse_arm_pat skips it)",
        "scrutinee type is not void in the match theorem and in the harness' match stream",
    ],
    design_ref="DESIGN.md §6 C14",
    level_text="Theorems about a Lean model of the pattern code generator (translate_pat_comparison, translate_product_pat_comparison, "
               "traverse_arm_pat, handle_pat_binding, the ExprKind::Match arm loop) run on a model of the VM: for every environment, pattern "
               "of every kind, type, value, decision set and stack, the comparison code replaces the value by Bool(matches) of the selected "
               "alternative and touches nothing else (also when a product fails midway); the binding code consumes exactly the value and stores "
               "every variable's component (match arms, let, for); the whole match, as the code is, enters the body of the first pass whose selected "
               "alternative matches and binds through it, stack restored (C14_match_takes_first_pass); `let` / `var` / `for` (bind_irrefutable_pat after D103) bind under the first combination that matches "
               "(C14_let_binds_first_combination), which for a pattern the checker accepts and whose or-patterns form a chain is exactly what the pattern binds as a match arm, for every value (C14_let_accepted_binds); for arm lists whose arms are or-chains "
               "`a | b | c` of or-free alternatives (incl. arms without or-patterns) that is the first matching arm in source order, bound through "
               "its first matching alternative. Tied to /repo on every run: real programs report arm, bindings and "
               "stack balance, compared with the model and with a Rust reference.",
    level_note="partial: C14_match_selects_first_partial covers arms that are or-chains of or-free alternatives (and arms without or-patterns); for or-patterns NESTED inside "
               "tuple/struct/variant patterns (e.g. `(1 | 2, 3 | 4)`) the proved statement is C14_match_takes_first_pass (first matching pass of the binary-counter arm loop); that the passes enumerate "
               "exactly the arm's alternatives in order is covered by the tie only (D27, repaired, is replayed: C14_d27_regression and the harness probe). "
               "VM instruction semantics are modelled, not proved.",
    technique="Lean 4 theorems (structural induction on patterns over a skip-mode stack machine) + differential correspondence against compiled programs + Rust reference oracle",
    timeout=1500,
)
