from props._common import COMMON_TB

PROP = dict(
    title="Diagnostics point at the offending source text",
    lean_module="AbraProofs.Properties.C33",
    required_theorems=["C33_spans_cover", "C33_span_is_token", "C33_byte_span", "C33_token_byte_span", "C33_eof_position"],
    harness_bin="c33",
    # the compared observable (all token spans and lexer diagnostics of a whole file) is more than the
    # property fixes; the property itself is checked on every diagnostic by the harness's oracle
    mismatch_is_violation=False,
    rule="55 templates (21, + 2 for qualified variant patterns (D106: the label covers `Cl.Rd`), + 4 for a missing closing token at end of file (D111: rejected, label at the end of input where the closer was expected), + 8 for every postfix form — method call, call, index, `?`, `!`, member — on a PARENTHESISED operand, whose label must start at the `(`, + 20 for the diagnostic kinds the coverage report found unexecuted: annotation vs pattern, `%`/`%=` right operand, non-bool operand, clashes with builtin / prelude / host names, duplicate interface methods / output types / variants / fields / parameters, interface implemented for a non-generic instance, interface method without Self, #host+#foreign, foreign without ffi, struct pattern arity, `()` pattern, out-of-range literal pattern, unresolvable `use`), labels in the prelude file checked against the prelude text, and a hard probe for D93 (locals-limit diagnostic names line 3, not 0); one per diagnostic kind the generator can provoke (unrecognized token: ASCII, 2-byte and 4-byte character; "
         "unexpected token; integer literal out of range, plain and negated with `_`; unrecognized escape in `\"…\"`, `'…'`, after "
         "non-ASCII text, with a non-ASCII escaped character, in a triple-quoted literal, bad `\\x`; unresolved name; type conflict "
         "with annotation and between operands; empty parentheses; non-exhaustive match; redundant arm; assignment to an "
         "immutable binding; unresolved member function; unexpected end of file), each 14 (quick) / 150 (thorough) times behind "
         "0..4 random filler statements carrying non-ASCII text in strings, line comments, block comments and triple-quoted "
         "literals, and in front of 0..2 more. Plus the end-of-input family: 34 truncations that end exactly where an identifier / expression / type / pattern is required (`fn`, `type`, `use`, `interface`, `implement`, `s.`, `use a/`, `fn f(x:`, `let a = 1 +`, `match x {` ...) x last character of the file in {ASCII, 2-byte, 3-byte, 4-byte} x 4 trailer styles (comment on the same line, glued comment, block+line comment, comment two lines below) x with/without trailing newline; every primary and secondary range within the file and on char boundaries, and a diagnostic lying behind the code must sit at the end of input or on the last character. Generic oracle on every label of every diagnostic (primary and secondary): its text has balanced (), [], {} (string literals skipped; single-token diagnostics excepted), i.e. it never starts or ends inside a bracket pair. Per program: every diagnostic of check_lsp(...).errors() — primary range and "
         "secondary labels — within the file and on char boundaries; the template's diagnostic covers exactly the offending "
         "text known to the generator; all token spans and lexer diagnostics vs the Lean lexer model (byte offsets). "
         "distinct = distinct program texts; non-trivial = non-ASCII text precedes the error site (end-of-input family: the file's last character is not ASCII), as tagged by the harness",
    nontrivial=lambda req, imp: req.endswith("+na"),
    trusted_base=COMMON_TB + [
        "hook verif_lex in /repo/abra_core/src/parse.rs (cfg abra_verif)",
        "public API check_lsp / LspAnalysisResult::errors (AnalysisError.range) is what an editor sees",
        "the parser and the checker copy token spans into Location{lo,hi} unchanged (not modelled; exercised by the correspondence)",
    ],
    assumptions=[
        "for `Unexpected token` after a string the offending token is only required to be non-empty text of the statement",
    ],
    design_ref="DESIGN.md §6 C33",
    level_text="Theorems about the Lean lexer model: for every source text the token spans are non-empty, increasing, disjoint and "
               "within the text, each span is exactly what one lexer step at its start consumes, and the byte offsets handed out "
               "(Lexer::byte_pos) are byte lengths of whole-character prefixes covering exactly the token's UTF-8 bytes. Tied to /repo on "
               "every run by provoking every diagnostic kind behind non-ASCII text and checking the ranges an editor receives.",
    level_note="The theorems cover token spans; that parser/checker diagnostics use these spans (and combine first/last token of a "
               "construct) is checked by the correspondence only. The model follows /repo after the fixes of D12 (5388a80: byte offsets), "
               "D50 (53a5e12: an unrecognized character is reported with its whole byte range) and D51 (39e6d4f: the Eof token is the "
               "empty span at the end of the source).",
    technique="Lean 4 theorems (induction over the tokenizer's steps, a bound on every lexOne branch, UTF-8 length arithmetic) + differential correspondence against the real lexer and check_lsp",
    timeout=3000,
)
