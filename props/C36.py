from props._common import COMMON_TB

PROP = dict(
    title="Host-function bindings carry arguments and results without loss",
    lean_module="AbraProofs.Properties.C36",
    required_theorems=["C36_to_vm_pushes_one", "C36_from_to_vm", "C36_round_trip_typed", "C36_args_order",
                       "C36_ret_resumes", "C36_host_call"],
    harness_bin="c36",
    mismatch_is_violation=True,
    rule="host calls through the bindings that abra_core::generate_host_function_enum generates (run by the build script of "
         "harness/c36gen on every build) for a fixed signature file: 65 #host functions of arity 0-4 over int, float, bool, "
         "string, void, option, result, array, tuples of width 2-4 and 5, 7, 12, seven #host structs (void fields) and four #host enums, five of them declared in "
         "other modules that the host file imports in all four import forms (`use m`, `use m.(x)`, `use m except x`, `use m as p`: D95 regression), "
         "(bare, one-field, two-field and array payload variants), nested to depth 3; per signature (quick) 7 / (thorough) 120 "
         "cases with seeded random argument values (written as Abra literals; in 2 of 5 cases half of all arrays, strings and options are empty/none so that empty values sit beside non-empty siblings among the arguments and inside arrays, tuples and structs) and an independent random result value (incl. "
         "non-finite floats, empty arrays, multibyte strings); each case is one Abra program compiled and run by the real "
         "compiler and VM in one of three call forms (direct, through a variable holding the host function, from inside an Abra function) and one of four call shapes (single call; the same variable in two argument positions; the same variables passed to two successive calls; "
         "the returned value passed back), optionally with one array object bound once and used in two places of the arguments, arrays then having >= 2 elements with first != last; "
         "after the call(s) the program re-reads every argument (and a passed-back result) and prints it; "
         "compiler and VM, whose host call is served with the generated HostFunctionArgs::from_vm / HostFunctionRet::into_vm; "
         "compared with the model: the arguments the host read (parameter order), the text the Abra program prints for the "
         "returned value, the pending flag. distinct = distinct (signature, values); non-trivial = the case involves a "
         "constructor beyond scalars (option/result/array/tuple/struct/enum) or a void parameter",
    nontrivial=lambda req, imp: any(w in req.split() for w in ("opt", "res", "arr", "tup", "struct", "enum", "unit")),
    trusted_base=COMMON_TB + [
        "harness/c36gen: its build script (runs the real generator), the glue between generated Rust types and the dynamic value type, and its ToString impls for the #host types in the signature file",
        "the Abra front end and VM turn literals of the tested types into the VM values the model's encoding describes and print VM values by the prelude's ToString (this is exactly what the two directions of the correspondence observe)",
        "f64::to_string (float texts are supplied to the model by the harness), i64::to_string",
        "VM heap objects are treated as immutable trees (object identity, allocation and collection are outside this property)",
    ],
    assumptions=[
        "the Marshal model has no heap (VM objects are immutable trees), so `decoding an argument does not change the caller's object` holds in the model by construction and is "
        "checked on the implementation by a Rust-side oracle: every argument is re-read on the Abra side after the call(s) and compared with its value before, and shared/aliased "
        "array objects are decoded several times (a model with a mutable heap and a frame theorem is not claimed)",
        "two hard probes build the bindings generated for (a) a host file with `use m as p` and (b) two #host types of one name in two modules, embedded as "
        "/repo/e2e_tests/test_host_funcs does (`mod generated; use generated::*;`): D104/D105; the main child crate uses the same embedding, so the run-time "
        "round trip of all four import forms also depends on the generated code compiling there",
        "1-tuples are not expressible as Abra host signatures and are not exercised",
        "signatures are built from the supported types only (functions, polymorphic and wildcard types are rejected by name_of_ty with a *NotSupported name)",
        "the quantifier over signatures is carried by the induction on types in the theorems; the correspondence samples it on the fixed 65-signature file",
    ],
    design_ref="DESIGN.md §6 C36",
    level_text="Theorems by induction on the type, for all values and all stacks, about a model of VmType::{to_vm,from_vm}, the generated #host struct/enum "
               "impls, HostFunctionArgs::from_vm and HostFunctionRet::into_vm on the VM stack API: round trip, exactly one value pushed, argument order, "
               "result on top with the pending flag cleared; tied to /repo on every run by real host calls through freshly generated bindings.",
    level_note="The step from host_bindings.rs/bindings_common.rs/vm.rs to Abra.Marshal is checked by correspondence, not proved; the generator's text "
               "emission is exercised on one signature file per run, not modelled.",
    technique="Lean 4 mutual structural induction over types + differential correspondence through the real generated bindings, compiler and VM",
    timeout=2400,
)
