from props._common import COMMON_TB

PROP = dict(
    title="Array operations match a list model and fail cleanly",
    lean_module="AbraProofs.Properties.C26",
    required_theorems=["C26_len_spec", "C26_get_spec", "C26_set_spec", "C26_push_spec", "C26_pop_empty_is_error", "C26_pop_spec",
                       "C26_construct_spec", "C26_literal_spec", "C26_ref_semantics", "C26_is_empty_spec", "C26_swap_spec", "C26_remove_spec",
                       "C26_clear_spec", "C26_find_spec", "C26_contains_spec", "C26_clone_spec", "C26_clone_independent",
                       "C26_filled_spec"],
    harness_bin="c26",
    mismatch_is_violation=True,
    rule="programs over 2-3 array variables of depth 1 and 0-2 of depth 2 (array<array<E>>), E in {int from {0,1,2}, bool, void (nil), string from "
         "6 short strings}; first the 10 hard regression programs of D34/D35 (array<void>) and D88 (function values "
         "of array_get/array_set/array_push/array_pop at int and void element types in one program); array literals LONGER than 65535 elements (compiled as "
         "ConstructArray(65535) + one ArrayPush per further element): quick int x 65540 and void x 65536, thorough {int,bool,void,string} x {65535,65536,65537,65540}: "
         "len, elements around the seam, push, pop, read past the end; "
         "directed stream: every operation x array length {0,1,3} x index in {-1,0,len-1,len,len+1, MAX, MIN, MIN+1, +-2^32, 2^32+1, 2^62, -(2^32-1)} "
         "(quick: a seeded third); random stream: 500 (quick) / 6000 (thorough) histories of up to 25 / 80 statements drawn from "
         "push, pop, get, set, len, is_empty, swap, remove, clear, find, contains and assignment of literal / filled / clone / alias / "
         "element alias / pop results, with 0-8% wild indices; after every statement the program prints the result and every variable "
         "(iteration with `for x in a`); the whole transcript incl. the runtime error kind is compared with the Lean heap model and with a "
         "Rust reference list model; non-trivial = the history has at least 3 statements or ends in an error",
    nontrivial=lambda req, imp: req.count(";") >= 2 or "ERR" in imp,
    trusted_base=COMMON_TB + [
        "the prelude functions swap/remove/clear/find/contains/filled/clone are hand transliterations of prelude.abra onto the modelled "
        "instructions; the step from the Abra source and from vm.rs to the model is checked by correspondence, not proved "
        "(two-way tie: model vs. real VM; the Lean reference interpreter for Abra source does not exist yet)",
        "Rust Vec (push/pop/len/index) is assumed to be the list abstraction; array lengths are below 2^63",
        "type-directed dispatch of Equal/Clone is modelled by the nesting depth of the static type (eqAt / cloneAt)",
    ],
    assumptions=["indices are 64-bit integers (inI64); values are well-typed for their static nesting depth (WT), which the type checker guarantees"],
    design_ref="DESIGN.md §6 C26",
    level_text="Theorems over all heaps, addresses and 64-bit indices about a heap model of the VM's array instructions and the prelude's "
               "extension functions: each refines the list operation (l ++ [x], dropLast/getLast, two-sided bound, set, least index, "
               "swap-with-last removal), out-of-range indices answer the ArrayOutOfBounds error (in the model an error carries no heap: the program stops there; swap reads both elements before its first write), clone/filled produce deep, mutually independent "
               "copies at any nesting depth. Tied to /repo on every run by executing random aliased histories on the real VM.",
    level_note="The step from vm.rs / prelude.abra to the heap model is by correspondence. D6 (pop on an empty array panicked the host; design phase) and D34/D35 (array<void>: element reads in for-bodies faulted the VM, "
               "out-of-range stores of void were not detected; found by this check) are fixed in /repo; their inputs run on every run as a regression corpus.",
    technique="Lean 4 refinement theorems over an explicit heap model + differential correspondence against the real VM + reference list model in Rust",
)
