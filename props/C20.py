from props._common import COMMON_TB

PROP = dict(
    title="Immutable bindings cannot be assigned, and assignment never crashes",
    lean_module="AbraProofs.Properties.C20",
    required_theorems=["C20_let_rejected", "C20_var_accepted", "C20_other_forms", "C20_store_takes_effect",
                       "C20_capture_rejected", "C20_assign_total", "C20_table",
                       "C20_assign_total_old_counterexample", "C20_old_crash_iff", "C20_old_agrees", "C20_pat_mutability", "C20_target_after_scope"],
    harness_bin="c20",
    mismatch_is_violation=True,
    rule="the full table: 44 binding forms (let, var, destructured let/var, let/var patterns with a variant payload / named variant "
         "fields / a struct pattern / an or-pattern (annotated and not, over tuples and over variants, also as a for pattern), for variable plain/destructured, match binding plain/"
         "variant payload, function parameter, lambda parameter, array element of a let array / of a var array / nested, struct "
         "field plain / nested / of an array element, function name; captured let / var / destructured var / for / match / "
         "function parameter / lambda parameter assigned inside a lambda, a nested lambda or a task; a nested lambda's own local; "
         "element and field of a captured object; 48 shadowing forms (a same-named declaration of the OPPOSITE mutability, or a for / match / lambda-parameter "
         "binder of that name, inside a while / for / if / else / match arm / block / lambda body, with the assignment after the "
         "construct closed or inside it, also inside a lambda capturing the outer variable; the target's declaration is decided "
         "by the Names model through the `assignat` request) and 125 capture-only forms: element / field assignments inside a lambda, a "
         "nested lambda or a task where an outer binding (let, var, for variable, function parameter, match binding) occurs "
         "ONLY as the index, the inner or outer index of a[i][j], the index of s.f[i], the index of a[i].f, the right-hand "
         "side, or the array / struct expression of the target) x 6 operators x 3 contexts (top level, function body, lambda body; captured "
         "forms at top level) x integer operand pairs (6 fixed incl. overflow and zero divisor + 2 (quick) / 40 (thorough) "
         "seeded) and 2 float pairs; each program compiled and run for real, the assigned location printed afterwards; "
         "distinct = distinct (form, operator, operands); non-trivial = every case (each one decides accept/diagnostic)",
    nontrivial=lambda req, imp: True,
    trusted_base=COMMON_TB + [
        "integer arithmetic of the stored value is the model Abra.I64 of C15",
        "which variables a lambda captures is decided by the generator's program shapes, not by a model of collect_captures",
    ],
    assumptions=[
        "float operands: only the decision and the IEEE result computed by Rust are compared (no float arithmetic in the model)",
    ],
    design_ref="DESIGN.md §6 C20",
    level_text="Decision table theorems over every assignment target (binding form, captured or not, element, field, non-variable) "
               "and operator about a model of the checker's Assign case (incl. the captured-variable test of fdfd074), "
               "record_pat_mutability and the compiler's store: let and captured variables are rejected, var/element/field accepted "
               "and the emitted store leaves exactly the operator's value; the table is total (never a crash). Tied to /repo on "
               "every run by compiling and running the whole table as real programs.",
    level_note="The store lemma covers variable slots (F0); element/field stores are covered by the correspondence only. The table "
               "of the code before the D20 repair is kept as oldDecision with its proved counterexample to totality.",
    technique="Lean 4 theorems (case analysis, small stack-machine lemma) about a hand-written model + differential correspondence "
              "against the real front end and VM",
    exhaustive=lambda tier: False,
)
