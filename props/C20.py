from props._common import COMMON_TB

PROP = dict(
    title="Immutable bindings cannot be assigned, and assignment never crashes",
    lean_module="AbraProofs.Properties.C20",
    required_theorems=["C20_let_rejected", "C20_var_accepted", "C20_other_forms", "C20_store_takes_effect",
                       "C20_assign_total_partial", "C20_assign_total_counterexample",
                       "C20_capture_rejected_counterexample", "C20_crash_iff"],
    harness_bin="c20",
    mismatch_is_violation=True,
    rule="the full table: 20 binding forms (let, var, destructured let/var, for variable plain/destructured, match binding plain/"
         "variant payload, function parameter, lambda parameter, array element of a let array / of a var array / nested, struct "
         "field plain / nested / of an array element, function name, and let / for / match bindings captured by a lambda and "
         "assigned inside it) x 6 operators x 3 contexts (top level, function body, lambda body) x integer operand pairs (6 fixed "
         "incl. overflow and zero divisor + 2 (quick) / 40 (thorough) seeded) and 2 float pairs; each program compiled and run "
         "for real, the assigned location printed afterwards; captured var/parameter assignment (D20) only in the replay step; "
         "distinct = distinct (form, operator, operands); non-trivial = every case (each one decides accept/diagnostic)",
    nontrivial=lambda req, imp: True,
    trusted_base=COMMON_TB + [
        "integer arithmetic of the stored value is the model Abra.I64 of C15",
        "which variables a lambda captures is decided by the generator's program shapes, not by a model of collect_captures",
    ],
    assumptions=[
        "D20 (recorded finding): assignment to a captured `var`/parameter inside the capturing lambda panics the compiler; the "
        "full totality statement is false of the code as it is (proved negation), the _partial theorem excludes exactly these targets",
        "float operands: only the decision and the IEEE result computed by Rust are compared (no float arithmetic in the model)",
    ],
    design_ref="DESIGN.md §6 C20",
    level_text="Decision table theorems over every assignment target (binding form, captured or not, element, field, non-variable) "
               "and operator about a model of the checker's Assign case, record_pat_mutability and the compiler's store: let is "
               "rejected, var/element/field accepted and the emitted store leaves exactly the operator's value; totality is "
               "proved outside the recorded finding D20 and its negation is proved with the witness. Tied to /repo on every run "
               "by compiling and running the whole table as real programs.",
    level_note="C20_assign_total holds only as C20_assign_total_partial (hypothesis: the target is not a captured variable that "
               "the checker accepts); the negation of the full statement is C20_assign_total_counterexample (D20, known finding, "
               "replayed on every run). The store lemma covers variable slots (F0); element/field stores are covered by the "
               "correspondence only.",
    technique="Lean 4 theorems (case analysis, small stack-machine lemma) about a hand-written model + differential correspondence "
              "against the real front end and VM",
    exhaustive=lambda tier: False,
)
