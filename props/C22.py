from props._common import COMMON_TB

PROP = dict(
    title="Generic and interface calls dispatch to the concrete type's code",
    lean_module="AbraProofs.Properties.C22",
    required_theorems=["C22_subst_update", "C22_subst_update_body", "C22_impl_ty_extract", "C22_impl_selected",
                       "C22_impl_selected_unique", "C22_dispatch", "C22_method_by_name", "C22_label_injective",
                       "C22_label_stable", "C22_label_per_instantiation", "C22_operator_method",
                       "C22_num_operators_distinct", "C22_label_qualified", "C22_unqualified_label_clash",
                       "C22_method_value_eq_call", "C22_method_value_by_name",
                       "C22_method_by_position_counterexample"],
    harness_bin="c22",
    mismatch_is_violation=True,
    rule="(quick) 160 / (thorough) 3000 seeded programs: a two-method user interface implemented for a seeded subset (3-12) of "
         "{int, float, string, bool, (int, float), (int, int, string), array<T>, two structs, generic struct Bx<T>, enum, option<T>} "
         "in seeded declaration order with seeded method order per implementation; 10-17 calls per program over 8 call forms "
         "(qualified, dot, generic with one / two type parameters, nested generic, generic over array<T>, generic over a tuple) at "
         "seeded concrete instances (incl. array<int>/array<string>/array<struct>, Bx<int>/Bx<struct>); 3-5 times per program a "
         "generic function containing a lambda or a task is called at 2-3 different implementations: capture sets {only the "
         "generic value, only a concrete value, generic + concrete string, generic + concrete int, generic + concrete through "
         "a nested lambda, a lambda typed by the type parameter capturing a concrete value, a lambda calling such a lambda, a "
         "task with generic + concrete captures, a field of a generic struct + concrete}; every third program adds "
         "user implementations of Equal, Ord, ToString, Clone (operators and generic functions over them, also at int/float where "
         "the prelude implementation must run), every sixth Num (+ - * / on the user type), every fourth Index and "
         "Iterable/Iterator on a user container incl. `bag[i] op= v`; the Num programs use every operator (+ - * / ^) directly, "
         "in generic functions and as compound assignment on a variable, a struct field and an array element, and each operator "
         "case is also compared with the model's operator table (`monoop`); 21 fixed probes; 16 capture-order probes (a lambda in a generic function using a variable of the type parameter, directly or through a nested lambda, plus 1..8 int variables combined positionally and reassigned after creation; instantiated at void (nil), int and a struct); 4-6 times per program an interface method is used as a first-class VALUE (bound by let, passed to a "
         "higher-order function, element of an array, component of a tuple, and the same inside generic functions) at 2-3 "
         "implementations with seeded method order, the prelude methods ToString.str / Equal.equal / Ord.* / Clone.clone / "
         "Num.* as values at the user type whose Ord implementation lists its methods in another order, and method values at "
         "same-named types of two modules (`monov` requests: a method value dispatches like a call, by name); 12 (quick) / 200 (thorough) three-module programs in which two modules declare types with the same "
         "unqualified names (a struct `Item` and an enum `Kind`, different layouts, own Tg / ToString / Equal / Ord "
         "implementations, `use inv except (Item, Kind)` + `use inv as iv`) and the same generic functions (plain and with a "
         "capturing closure) and interface methods are instantiated at both in seeded order; per generic function the pair is "
         "also compared with the model's label function (`monolabel`: two labels); each method returns or prints a tag, so the output names the code that ran; "
         "distinct = distinct request lines; non-trivial = the call goes through a generic function or an implementation with "
         "swapped method order",
    nontrivial=lambda req, imp: "#generic" in req or "#nested" in req or "#builtin" in req or "alt+tag" in req,
    trusted_base=COMMON_TB + [
        "type inference (which monotype reaches the translator) is not modelled: the instance is an input of the model",
        "the rendering of monotypes inside labels and the prelude's own implementation lists are not modelled",
    ],
    assumptions=[
        "fixed probes (harness/probes_bg8, Rust-side oracle = the behaviour of the hand-monomorphised program written next to "
        "each probe, not the Lean model): every Num operator and compound assignment on a user type, `g[i] op= v` through a user "
        "Index with effectful array/index/rhs (evaluation order), qualified interface-method calls at builtin types incl. "
        "array<void>, unary minus on a user Num type (D86: diagnostic), `_` in annotations, type-qualified channel/array members, "
        "member functions on void/bool/string/tuples, implementations for function types (D99) / channel<T> / instantiated "
        "nominals (rejected), a constraint on a type-definition parameter, a generic instantiated at never, an interface output "
        "type of a constrained variable (D98: reported where it is left open, sound where the constraint fixes it), method syntax "
        "on a constrained type variable (D100, must work) and a for loop over `T Iterable` (recorded limitation: a diagnostic, or "
        "if accepted the correct count)",
        "implementations of one interface have pairwise different type keys (the checker rejects overlapping implementations; "
        "hypothesis of C22_impl_selected_unique)",
        "the method of the selected implementation is looked up by name (D48) and arithmetic operators on a user Num type "
        "call its methods (D49); both repairs have landed in /repo and the model follows them",
        "C22_method_value_eq_call holds by rfl (the model defines the value path like the call path); the tie of /repo's value "
        "path to the model is the `monov` correspondence only",
        "labels: the model's Ty.code is the descriptor's type identity (declaration ids), not the printed label text, which "
        "in /repo names nominal types by their unqualified name; distinctness in /repo comes from the func_map key and the "
        "label counter and is tied by the `monolabel` correspondence",
    ],
    design_ref="DESIGN.md §6 C22",
    level_text="Theorems about a model of MonomorphEnv::update, Type::subst, extract_impl_ty, SolvedType::key/fits_impl_ty, "
               "get_iface_impl_for_type and get_func_label over all types of a SolvedType-shaped language, all substitutions and "
               "all implementation lists: monomorphisation recovers the instance, the Self component is extracted, the "
               "implementation with the concrete type's key is selected, labels identify function + monotype. Tied to /repo on "
               "every run by generated programs whose output names the implementation and method that ran, compared with the "
               "model and with a reference dispatch.",
    level_note="PARTIAL: only the selection logic is a theorem; 'behaves exactly as if written by hand for that type' (code "
               "generation of the monomorphised body, type inference) is covered by the correspondence only.",
    technique="Lean 4 theorems (mutual structural induction over types, list lemmas) about a hand-written model + differential "
              "correspondence against the real front end and VM",
    exhaustive=lambda tier: False,
)
