from props._common import COMMON_TB

PROP = dict(
    title="Sorting yields a sorted permutation, stably for sort_by",
    lean_module="AbraProofs.Properties.C25",
    required_theorems=["C25_sort_perm", "C25_sort_sorted", "C25_sort_stable", "C25_sort_spec", "C25_sort_int",
                       "C25_sort_by_key_spec", "C25_sort_by_key_int", "C25_sort_lex_pairs",
                       "C25_mergePass_structure", "C25_merge_left_wins", "C25_merge_by_in_place",
                       "C25_insertion_sort_in_place", "C25_sort_by_index_level", "C25_sort_array_level"],
    harness_bin="c25",
    mismatch_is_violation=True,
    rule="(quick) every length 0-70 plus 95-97, 127-129, 160, 191-193, 255-257, 300 / (thorough) every length 0-300 twice, the "
         "boundaries 31-33, 63-65, 127-129, 255-257 again, 511-513 and 700; each length x 10 comparators "
         "(array<int>.sort, array<(int,int)>.sort = lexicographic, sort_by <= / >= on the key, sort_by_key first component, "
         "sort_by_key key%5, and the unlawful <, constant true, constant false, cyclic) with (key, tag) elements, keys from "
         "ranges of size 1, 2, 5, 41 and all of i64 incl. MIN/MAX, shapes random / ascending / descending / pre-sorted runs; "
         "each array is sorted by the real prelude code on the real VM and compared element by element with the Lean "
         "model; for the lawful comparators the output is also checked in Rust to be sorted, a permutation and stable, "
         "for the unlawful ones to be a permutation; non-trivial = at least 2 elements",
    nontrivial=lambda req, imp: len(req.split(" #")[0].split()) >= 4,
    trusted_base=COMMON_TB + [
        "the index-level model Abra.Lib.sortByA (whole array, the source's variables i/end/size/left/mid/right/i_curr/j/k, scratch array temp, in-place "
        "writes) is a hand transliteration of sort_by / insertion_sort_by / merge_by (prelude.abra); it is what the driver runs, and it is PROVED equal to the "
        "list model sortBy the property theorems are stated about; the step from the Abra source text to sortByA is checked by correspondence for lawful "
        "and unlawful comparators, not proved (the Lean reference interpreter for Abra source proposed in DESIGN.md does not exist yet: two-way tie)",
        "array lengths are far below 2^62, so `size * 2` and the index sums in sort_by cannot overflow (the model uses unbounded naturals)",
    ],
    assumptions=["the comparator passed to sort_by is a pure function; sortedness and stability are claimed for total, transitive comparators (the built-in <= on int, on keys, and on tuples is shown to be one)"],
    design_ref="DESIGN.md §6 C25",
    level_text="Theorems over all lists of any length: the model of sort_by returns a permutation for every comparator, a sorted list and a "
               "stable arrangement for every total transitive comparator; corollaries for sort on int and on (int,int) and for sort_by_key. "
               "The same is proved for the index-level model (in-place merge with scratch array, shifting insertion sort, the run/size/left loops), "
               "which is tied to /repo on every run by sorting arrays with the real "
               "prelude on the real VM under lawful and unlawful comparators and diffing against the model driver.",
    level_note="Index-level model (arrays, indices, in-place writes) proved equal to the list model; only the step from the Abra source text to the index-level model is by correspondence.",
    technique="Lean 4 theorems (induction over the run/merge structure) about a hand-written list model + differential correspondence against the real prelude on the real VM + executable property check on the implementation's output",
)
