#!/usr/bin/env python3
"""For every seeded/*/patch.diff record in meta.json the newest /repo commit the patch still applies to
(`base`) and whether that is the current HEAD (`applies_to_head`). Uses a detached scratch worktree under /tmp."""
import glob, json, os, subprocess, shutil
ROOT = os.path.dirname(os.path.dirname(os.path.abspath(__file__)))
WT = "/tmp/seed_bases_wt"
def sh(*a, **k):
    return subprocess.run(a, capture_output=True, text=True, **k)
subprocess.run(["git", "-C", "/repo", "worktree", "remove", "--force", WT], capture_output=True)
head = sh("git", "-C", "/repo", "rev-parse", "--short", "HEAD").stdout.strip()
revs = sh("git", "-C", "/repo", "rev-list", "--abbrev-commit", "--abbrev=7", "HEAD").stdout.split()[:260]
assert sh("git", "-C", "/repo", "worktree", "add", "--detach", WT, "HEAD").returncode == 0
pending = {d: os.path.join(d, "patch.diff") for d in sorted(glob.glob(os.path.join(ROOT, "seeded", "*"))) if os.path.exists(os.path.join(d, "patch.diff"))}
found = {}
try:
    for r in revs:
        if not pending:
            break
        sh("git", "-C", WT, "checkout", "-q", "--detach", r)
        for d, p in list(pending.items()):
            if sh("git", "-C", WT, "apply", "--check", p).returncode == 0:
                found[d] = r
                del pending[d]
finally:
    subprocess.run(["git", "-C", "/repo", "worktree", "remove", "--force", WT], capture_output=True)
for d, r in found.items():
    mp = os.path.join(d, "meta.json")
    m = json.load(open(mp))
    m["base"] = r
    m["applies_to_head"] = (r == head[:7])
    if not m["applies_to_head"]:
        m["note_base"] = "the code at the patch site was changed by later fix: commits; to replay, check out /repo at `base` in a scratch worktree and use VERIF_REPO"
    else:
        m.pop("note_base", None)
    json.dump(m, open(mp, "w"), indent=1)
print("head", head, "apply to head:", sum(1 for r in found.values() if r == head[:7]), "older base:", sum(1 for r in found.values() if r != head[:7]), "none:", [os.path.basename(d) for d in pending])
