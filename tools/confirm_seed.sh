#!/bin/bash
# Confirm a seeded change independently, in a detached scratch worktree (never /repo):
#   tools/confirm_seed.sh <dir with patch.diff and demo/run.sh>
# 1. unpatched main: demo/run.sh <wt> must exit 0        2. patched: builds, the pinned suite passes,
# demo/run.sh <wt> must exit non-zero.   Prints a summary and writes <dir>/confirm.log; removes the worktree.
set -u
d="$(realpath "$1")"
wt="/tmp/seedconfirm_$$"
log="$d/confirm.log"; : > "$log"
git -C /repo worktree add --detach "$wt" main >/dev/null 2>&1 || { echo "cannot create worktree"; exit 2; }
export CARGO_NET_OFFLINE=true
base=$(git -C "$wt" rev-parse --short HEAD)
( cd "$d/demo" && bash ./run.sh "$wt" ) >>"$log" 2>&1; rc_clean=$?
git -C "$wt" apply "$d/patch.diff" || { echo "patch does not apply"; git -C /repo worktree remove --force "$wt"; exit 2; }
( cd "$wt" && cargo nextest run --workspace --no-fail-fast --tool-config-file pb:/w/lib/nextest.toml --profile pb --test-threads 8 --offline 2>&1 | tail -4 ) >>"$log" 2>&1
suite=$(grep -E "tests run:" "$log" | tail -1)
( cd "$d/demo" && bash ./run.sh "$wt" ) >>"$log" 2>&1; rc_patched=$?
git -C "$wt" checkout -- . >/dev/null 2>&1; git -C "$wt" clean -fdq -e target >/dev/null 2>&1
git -C /repo worktree remove --force "$wt"
echo "base=$base demo_on_clean_main_rc=$rc_clean suite_with_patch=[$suite] demo_with_patch_rc=$rc_patched" | tee -a "$log"
