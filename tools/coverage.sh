#!/bin/bash
# Diagnostic (not a registered check): which lines of /repo does each harness actually execute?
#   tools/coverage.sh build            build every harness bin with -C instrument-coverage (nightly: llvm-tools)
#   tools/coverage.sh run Cnn [...]    run the bins (quick tier) and write work/cov/Cnn.profdata
#   tools/coverage.sh report [Cnn...]  per-file summary + uncovered ranges of /repo sources (default: union of all)
# Used to find code paths no generator reaches (where a change would be invisible to the correspondence half).
set -u
cd "$(dirname "$0")/.."
ROOT=$PWD; COV=$ROOT/work/cov; HD=$ROOT/work/harness_cov
TC=nightly
BIN=$(ls -d ~/.rustup/toolchains/nightly-x86_64-unknown-linux-gnu/lib/rustlib/x86_64-unknown-linux-gnu/bin)
mkdir -p "$COV"
case "${1:-}" in
build)
  mkdir -p "$HD/.cargo"
  [ -L "$HD/src" ] || ln -s "$ROOT/harness/src" "$HD/src"
  cp harness/Cargo.toml "$HD/Cargo.toml"; cp /repo/Cargo.lock "$HD/Cargo.lock"
  printf '[net]\noffline = true\n\n[build]\nrustflags = ["--cfg", "abra_verif", "-C", "instrument-coverage"]\n' > "$HD/.cargo/config.toml"
  (cd "$HD" && LLVM_PROFILE_FILE=/dev/null cargo +$TC build --offline --bins 2>&1 | tail -3)
  ;;
run)
  shift
  for p in "$@"; do
    b=$(echo "$p" | tr 'A-Z' 'a-z')
    out="$COV/out_$p"; rm -rf "$out" "$COV/raw_$p"; mkdir -p "$out" "$COV/raw_$p"
    ( LLVM_PROFILE_FILE="$COV/raw_$p/%p-%m.profraw" VERIF_SEED=1 VERIF_TIER=quick VERIF_REPO=/repo \
        timeout 3000 "$HD/target/debug/$b" "$out" > "$COV/run_$p.log" 2>&1
      "$BIN/llvm-profdata" merge -sparse "$COV/raw_$p"/*.profraw -o "$COV/$p.profdata" 2>>"$COV/run_$p.log"
      rm -rf "$COV/raw_$p" "$out"; echo "$p done" ) &
    while [ "$(jobs -r | wc -l)" -ge 6 ]; do sleep 2; done
  done
  wait
  ;;
report)
  shift
  if [ $# -eq 0 ]; then set -- $(ls "$COV"/*.profdata | xargs -n1 basename | sed 's/.profdata//' | grep -v '^_'); name=ALL; else name=$(echo "$@" | tr ' ' '+'); fi
  profs=""; objs=""
  for p in "$@"; do profs="$profs $COV/$p.profdata"; b=$(echo "$p" | tr 'A-Z' 'a-z'); objs="$objs -object $HD/target/debug/$b"; done
  "$BIN/llvm-profdata" merge -sparse $profs -o "$COV/_$name.profdata"
  objs=${objs# -object }
  "$BIN/llvm-cov" report $objs -instr-profile "$COV/_$name.profdata" /repo/abra_core/src /repo/utils/src 2>/dev/null > "$COV/$name.summary.txt"
  "$BIN/llvm-cov" show $objs -instr-profile "$COV/_$name.profdata" /repo/abra_core/src /repo/utils/src -show-line-counts-or-regions=false 2>/dev/null \
    | python3 tools/cov_uncovered.py > "$COV/$name.uncovered.txt"
  tail -n 40 "$COV/$name.summary.txt"
  echo "uncovered ranges: $COV/$name.uncovered.txt"
  ;;
*) sed -n 2,6p "$0";;
esac
