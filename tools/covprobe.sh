#!/bin/bash
# Diagnostic: does running an Abra program through the CLI execute given source lines of /repo?
#   tools/covprobe.sh prog.abra abra_core/src/translate_bytecode.rs 2624 2634   -> prints per-line counts in that range
#   (rebuild the instrumented CLI after /repo changes: tools/covprobe.sh --build)
set -u
cd "$(dirname "$0")/.."
T=$PWD/work/cli_cov_target
BIN=$(ls -d ~/.rustup/toolchains/nightly-x86_64-unknown-linux-gnu/lib/rustlib/x86_64-unknown-linux-gnu/bin)
if [ "${1:-}" = "--build" ]; then
  (cd /repo && LLVM_PROFILE_FILE=/dev/null RUSTFLAGS="-C instrument-coverage" cargo +nightly build -p abra_cli --offline --target-dir "$T" 2>&1 | tail -2)
  exit 0
fi
prog=$(realpath "$1"); file=$2; from=$3; to=${4:-$3}
d=$(mktemp -d /tmp/covprobe.XXXXXX)
( cd "$(dirname "$prog")" && LLVM_PROFILE_FILE="$d/p.profraw" timeout 60 "$T/debug/abra" "$prog" > "$d/out.txt" 2>&1 </dev/null ); rc=$?
echo "--- program exit=$rc, output (first 8 lines):"; head -8 "$d/out.txt"
"$BIN/llvm-profdata" merge -sparse "$d"/p.profraw -o "$d/p.profdata" 2>/dev/null || { echo "no profile written (process aborted?)"; rm -rf "$d"; exit 1; }
echo "--- $file lines $from-$to (count|source):"
"$BIN/llvm-cov" show "$T/debug/abra" -instr-profile "$d/p.profdata" "/repo/$file" 2>/dev/null | awk -F'|' -v a="$from" -v b="$to" '$1+0>=a && $1+0<=b {print}' | cut -c1-170
rm -rf "$d"
