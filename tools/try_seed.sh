#!/bin/bash
# Try the registered checks against a seeded change WITHOUT touching /repo:
#   tools/try_seed.sh <patch.diff> <Cnn> [<Cnn> ...]
# Creates a detached scratch worktree of /repo's main under /tmp, applies the patch there, runs
# `VERIF_REPO=<worktree> ./check Cnn` for each property (outputs go to work/alt/), prints the verdict
# lines, and removes the worktree and the alternate harness build afterwards.
set -u
patch="$(realpath "$1")"; shift
wt="/tmp/seedtry_$$"
cd "$(dirname "$0")/.."
git -C /repo worktree add --detach "$wt" main >/dev/null 2>&1 || { echo "cannot create worktree"; exit 2; }
if ! git -C "$wt" apply "$patch"; then echo "patch does not apply to main"; git -C /repo worktree remove --force "$wt"; exit 2; fi
rc=0
for p in "$@"; do
  echo "=== $p against $(basename "$patch")"
  VERIF_REPO="$wt" ./check "$p" --tier "${VERIF_TIER:-quick}" 2>&1 | grep -E "^\[|^OK|^VIOLATION|^KNOWN" | sed 's/^/    /'
done
git -C /repo worktree remove --force "$wt"
rm -rf "work/harness_alt_$(python3 -c "import hashlib,sys; print(hashlib.sha1(sys.argv[1].encode()).hexdigest()[:8])" "$wt")"
exit $rc
