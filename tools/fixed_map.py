#!/usr/bin/env python3
"""Merge `fixed:` entries for every fix: commit of /repo into known_findings.json (idempotent).
A fixed entry suppresses nothing; it records which property's check exposed the defect and the repairing commit."""
import json, subprocess, os
ROOT = os.path.dirname(os.path.dirname(os.path.abspath(__file__)))
MAP = {  # sha: (defect id, properties)
 "1a0f8be": ("D1-D3", ["C15"]), "53558bb": ("D10", ["C29"]), "a262b99": ("D22", ["C06", "C17"]), "7e2e189": ("D6", ["C26", "C01"]),
 "aafbeaf": ("D19", ["C04", "C20"]), "fa39245": ("D7", ["C08", "C01"]), "93f0793": ("D25", ["C18", "C04"]), "3680af1": ("D4", ["C05", "C16"]),
 "965042f": ("D26", ["C18"]), "af122a6": ("D5", ["C24"]), "e5138f0": ("D9", ["C27"]), "09db5de": ("D16", ["C03", "C19"]),
 "a108478": ("D17", ["C03"]), "a5e5af3": ("D18", ["C03"]), "3d09d81": ("D40", ["C30", "C04"]), "fc9cd91": ("D42", ["C30"]),
 "900b818": ("D34", ["C26", "C24", "C01"]), "e485a55": ("D35", ["C26"]), "900d6ca": ("D36", ["C03"]), "538d7cf": ("D8", ["C07"]),
 "3c804e6": ("D13", ["C37"]), "f56a816": ("D15", ["C13"]), "1e52327": ("D14", ["C38"]), "cb6f315": ("D37", ["C03", "C19"]),
 "08a8ac9": ("D41", ["C03", "C19"]), "46f8617": ("D11", ["C31"]), "df16aaf": ("D38", ["C02"]), "2429730": ("D39", ["C21", "C02"]),
 "aa391e6": ("D32", ["C05", "C16"]), "5388a80": ("D12", ["C33", "C32"]), "0513352": ("D33", ["C05", "C16"]), "49fe7d5": ("D28", ["C18"]),
 "c9c20d3": ("D43", ["C01", "C02"]), "0ca8383": ("D29", ["C18"]), "f908b10": ("D47", ["C14", "C02"]), "acfc8f4": ("D44", ["C11", "C36"]),
 "dd3e553": ("D30", ["C18", "C03"]), "7b3c398": ("D48", ["C22"]), "286a96a": ("D30b", ["C18"]), "5b44d4b": ("D45", ["C34"]),
 "f58d880": ("D49", ["C22", "C03"]), "3f5bcab": ("D34b", ["C01", "C23"]), "3e5dbb1": ("D46", ["C14", "C01"]), "1e10ab9": ("D31", ["C12", "C13"]),
 "c3512f7": ("D52", ["C22", "C03"]), "d50b96e": ("D36b", ["C03"]), "1ec9782": ("D34c", ["C01"]), "39e6d4f": ("D51", ["C33"]),
 "a3cecee": ("D54", ["C04", "C34"]), "53a5e12": ("D50", ["C33"]), "85117fd": ("D57", ["C04", "C34"]), "643396b": ("D31b", ["C12", "C23"]),
 "29b0667": ("D59", ["C02"]), "8851950": ("D56", ["C04", "C34"]), "b67d291": ("D27", ["C14"]), "448fb0c": ("D53", ["C04", "C34"]),
 "e25c64a": ("D60", ["C33", "C35"]), "3b6ea2e": ("D65", ["C03", "C05", "C04"]), "fdfd074": ("D20", ["C03"]), "a50312a": ("D64", ["C04", "C34"]),
 "73184d8": ("D66", ["C03", "C04"]), "8882383": ("D67", ["C01"]), "0cb8741": ("D24", ["C01"]), "eacb987": ("D68", ["C03", "C01"]), "8e0e420": ("D70", ["C12", "C13"]), "6577a34": ("D73", ["C02"]), "0d4ebe0": ("D74", ["C05"]), "9e990e2": ("D75", ["C02", "C05"]), "33617bc": ("D79", ["C03", "C04"]), "007e281": ("D76", ["C04"]), "31c1353": ("D77", ["C04"]), "8a8263e": ("D80", ["C04", "C03"]), "f10cb88": ("D81", ["C21", "C03"]), "8526476": ("D82", ["C04", "C21"]), "2cad6c7": ("D83", ["C04", "C03"]), "38fb6e7": ("D84", ["C04", "C34"]), "7fe8312": ("D85", ["C31", "C29"]), "cab8299": ("D86", ["C22", "C04"]), "79c3120": ("D87", ["C18", "C01"]), "3422f1d": ("D91", ["C02", "C03"]), "3cc222c": ("D88", ["C26", "C01"]), "e7444a7": ("D89", ["C09", "C01"]), "2fca043": ("D92", ["C32"]), "bc98586": ("D90", ["C03", "C04"]), "567a3fd": ("D93", ["C33"]), "759c886": ("D94", ["C04", "C21"]), "d9b5b0e": ("D95", ["C36"]), "e292b84": ("D96", ["C12", "C01"]), "f04535c": ("D97", ["C14", "C01"]), "0c43abd": ("D21", ["C02", "C01"]), "bbcc736": ("D99", ["C03", "C04"]), "efe8984": ("D98", ["C22", "C01"]), "97d7808": ("D23", ["C09", "C06"]), "ae0a5b4": ("D103", ["C14", "C01"]), "c7017fe": ("D102", ["C18"]), "2739cd9": ("D101", ["C21"]), "32c59ef": ("D100", ["C22"]), "acde027": ("D104", ["C36"]), "f2c5040": ("D105", ["C36"]), "f9af9cf": ("D106", ["C35", "C33"]), "2040d20": ("D107", ["C02", "C01"]), "84d8afa": ("D109", ["C32"]), "1a865aa": ("D110", ["C04", "C34"]), "0832a58": ("D111", ["C31", "C33", "C04"]), "015809f": ("D108", ["C21"]), "0d66a03": ("D112", ["C04", "C03"]), "39422dd": ("D113", ["C07"]), "cdc1d9e": ("D114", ["C04"]), "a317e6d": ("D115", ["C04"]), "2567d92": ("D71", ["C23", "C02"]), "b8f3207": ("D72", ["C19", "C01"]), "3dc9f66": ("D72b", ["C22", "C01"]), "3dd8862": ("D61", ["C22", "C01"]), "ddfdc59": ("D63", ["C02"]),
}
log = subprocess.run(["git", "-C", "/repo", "log", "--format=%h\t%s", "--grep", "^fix:"], capture_output=True, text=True).stdout
path = os.path.join(ROOT, "known_findings.json")
data = json.load(open(path))
have = {(f.get("commit"), f.get("property")) for f in data["findings"] if f.get("status") == "fixed"}
unmapped = []
for line in reversed(log.strip().splitlines()):
    sha, subj = line.split("\t", 1)
    if sha not in MAP:
        unmapped.append(line)
        continue
    did, props = MAP[sha]
    for p in props:
        if (sha, p) in have:
            continue
        # an agent may have recorded the same defect already under status fixed with another key
        if any(f.get("status") == "fixed" and f.get("property") == p and f.get("id") == did for f in data["findings"]):
            continue
        data["findings"].append({"property": p, "status": "fixed", "id": did, "commit": sha,
                                 "what": "fixed: property=%s %s %s" % (p, sha, subj[len("fix: "):])})
# drop fixed entries whose property is no longer the one recorded for their commit (re-mapping)
data["findings"] = [f for f in data["findings"] if not (f.get("status") == "fixed" and f.get("commit") in MAP
                                                          and f.get("property") not in MAP[f["commit"]][1])]
json.dump(data, open(path, "w"), indent=1, ensure_ascii=False)
print("fixed entries:", len([f for f in data["findings"] if f["status"] == "fixed"]), "open:", [f["id"] for f in data["findings"] if f["status"] == "open"])
if unmapped:
    print("UNMAPPED fix commits:\n" + "\n".join(unmapped))
