#!/usr/bin/env python3
"""stdin: `llvm-cov show` text output; stdout: per file the ranges of executable lines with count 0."""
import sys, re
cur, zero, out = None, [], {}
for line in sys.stdin:
    line = line.rstrip("\n")
    if line.endswith(":") and line.startswith("/") and "|" not in line:
        cur = line[:-1]
        out[cur] = []
        continue
    m = re.match(r"\s*(\d+)\|\s*([0-9.kMGE]*)\|(.*)", line)
    if not m or cur is None:
        continue
    ln, cnt, src = int(m.group(1)), m.group(2), m.group(3)
    if cnt == "0":
        out[cur].append((ln, src))
for f, ls in out.items():
    if not ls:
        continue
    print("== %s (%d uncovered lines)" % (f, len(ls)))
    start = prev = None
    buf = []
    for ln, src in ls + [(10**9, "")]:
        if prev is not None and ln == prev + 1:
            prev = ln
            buf.append(src)
            continue
        if start is not None:
            head = buf[0].strip()[:110]
            print("  %d-%d  %s" % (start, prev, head))
        start = prev = ln
        buf = [src]
