-- Root of the model library: import-free, executable definitions only.
import AbraModel.Int64
import AbraModel.Drv.Util
import AbraModel.Drv.I64
import AbraModel.Arena
import AbraModel.Drv.Arena
import AbraModel.Lib.Sort
import AbraModel.Drv.Sort
import AbraModel.CallOrder
import AbraModel.Drv.CallOrder
import AbraModel.Pratt
import AbraModel.Drv.Pratt
import AbraModel.StrOps
import AbraModel.Drv.StrOps
import AbraModel.SrcMap
import AbraModel.Drv.SrcMap
import AbraModel.Sched
import AbraModel.Drv.Sched
