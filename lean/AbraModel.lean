-- Root of the model library: import-free, executable definitions only.
import AbraModel.Int64
import AbraModel.Drv.Util
import AbraModel.Drv.I64
import AbraModel.Arena
import AbraModel.Drv.Arena
import AbraModel.Lib.Sort
import AbraModel.Drv.Sort
