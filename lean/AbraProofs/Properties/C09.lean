import AbraProofs.Lemmas.SchedChan
import AbraProofs.Lemmas.HeapIso
/-!
# C09 — channels deliver each value once, in order, as a valid independent copy; a read suspends only the reader

Order/once/blocking: theorems about the scheduler model `Abra.Sched` for every thread step function and
every embedder schedule.  Copy validity: theorems about the value/heap model `Abra.Heap` after fix 97d7808 of
defect D23 — `ChannelWrite` takes a snapshot of the written value (a `Message` owned by the queue),
`ChannelRead` rebuilds it on the reader's heap — proved without any hypothesis on what the writer does after
the write; the two witnesses of the old copy-at-read behaviour are kept, labelled historical.
-/
namespace Abra.Sched
variable {T V E : Type}

/-- the queue refinement holds initially -/
theorem C09_chanInv_new (m : T) : ChanInv (Runtime.new m : Runtime T V E) := by
  intro c; simp [Runtime.new, writesOf, readsOf, getQ]

/-- **Queue refinement, for every schedule.**  Whatever the embedder does (any budgets, any delay in
    servicing host calls), at the end the values written to a channel are exactly the values read from it,
    in the same order, followed by the values still queued. -/
theorem C09_chan_refines_queue {H : Type} (step : T → Action T V E) (host : H → Nat → T → H × T)
    (s : List (Nat × Bool)) (h : H) (r : Runtime T V E) (n : Nat) (hr : ChanInv r) :
    ChanInv (drive step host s h r n).2.1 :=
  drive_ct_inv step host (fun chans tr => ∀ c, writesOf c tr = readsOf c tr ++ getQ chans c)
    (fun r th hp => exec_chanInv step r th hp) s h r n hr

/-- the same for a single `run_n_steps` call -/
theorem C09_chan_refines_queue_runN (step : T → Action T V E) (b : Nat) (r : Runtime T V E) (hr : ChanInv r) :
    ChanInv (runN step b r).rt :=
  runN_ct_inv step (fun chans tr => ∀ c, writesOf c tr = readsOf c tr ++ getQ chans c)
    (fun r th hp => exec_chanInv step r th hp) b r hr

/-- **FIFO, each value once.**  For every program, every schedule and every channel, the sequence of
    values popped from the channel is a prefix of the sequence of values pushed to it (so the k-th read
    returns the k-th written value: in order, none lost before it, none duplicated). -/
theorem C09_chan_fifo {H : Type} (step : T → Action T V E) (host : H → Nat → T → H × T)
    (s : List (Nat × Bool)) (h : H) (main : T) (c : Nat) :
    readsOf c (drive step host s h (Runtime.new main : Runtime T V E) 0).2.1.trace <+:
      writesOf c (drive step host s h (Runtime.new main : Runtime T V E) 0).2.1.trace := by
  have := C09_chan_refines_queue step host s h _ 0 (C09_chanInv_new (V := V) (E := E) main) c
  exact ⟨_, this.symm⟩

/-- **Counting** (all that can be said for `channel<void>`, whose values carry no information): at every
    moment at most as many reads have succeeded as writes were made — a read never invents a value. -/
theorem C09_chan_count {H : Type} (step : T → Action T V E) (host : H → Nat → T → H × T)
    (s : List (Nat × Bool)) (h : H) (main : T) (c : Nat) :
    (readsOf c (drive step host s h (Runtime.new main : Runtime T V E) 0).2.1.trace).length ≤
      (writesOf c (drive step host s h (Runtime.new main : Runtime T V E) 0).2.1.trace).length :=
  (C09_chan_fifo step host s h main c).length_le

/-- **A blocked read changes nothing but the reader's step count.**  Executing `ChannelRead` on an empty
    queue leaves the reading thread exactly as it was (it will retry the same instruction), leaves every
    channel, the new-thread queue and the id counter as they were, and only logs the attempt. -/
theorem C09_read_blocks_only_reader (step : T → Action T V E) (r : Runtime T V E) (th : Thread T E)
    (c : Nat) (k : V → T) (hs : step th.st = .read c k) (hq : getQ r.chans c = []) :
    exec step r th = ({ r with trace := r.trace ++ [⟨th.id, .readBlocked c⟩] }, th) := by
  unfold exec; rw [hs]; simp only [hq]

/-- … and the scheduler keeps going: the turn of a lone blocked reader at the head of the queue consumes
    one step, rotates it to the back, and every other thread is untouched and gets its turn next. -/
theorem C09_blocked_reader_turn (step : T → Action T V E) (r : Runtime T V E) (th : Thread T E)
    (rest : List (Thread T E)) (c : Nat) (k : V → T) (s : Nat)
    (hq : r.runQueue = th :: rest) (hn : r.newThreads = []) (hc : th.canRun = true)
    (hrest : ∀ t ∈ rest, t.gone = false)
    (hs : step th.st = .read c k) (he : getQ r.chans c = []) :
    loop step 1 s r =
      ({ r with runQueue := rest ++ [th], trace := r.trace ++ [⟨th.id, .readBlocked c⟩] }, false, s + 1) := by
  have hd : NoDone r := by
    refine ⟨?_, by simp [hn]⟩
    intro t ht; rw [hq] at ht
    simp only [List.mem_cons] at ht
    rcases ht with rfl | ht
    · exact canRun_done hc
    · exact hrest t ht
  have hnc : (!th.canRun) = false := by simp [hc]
  rw [loop_succ step 0 s r hn hd]
  simp only [hq, List.dropWhile, hnc, List.takeWhile, List.append_nil]
  have hx := C09_read_blocks_only_reader step { r with runQueue := rest } th c k hs (by simpa using he)
  simp only [hx, ftt_notDone _ _ (canRun_done hc), Bool.false_eq_true, if_false]
  rw [drain_nil _ (by simpa using hn)]
  simp [loop]

example : ∃ (step : Nat → Action Nat Nat Nat) (r : Runtime Nat Nat Nat) (th : Thread Nat Nat),
    step th.st = .read 0 (fun v => v) ∧ getQ r.chans 0 = [] :=
  ⟨fun _ => .read 0 (fun v => v), Runtime.new 0, { id := 0, isMain := true, st := 0 }, rfl, rfl⟩

end Abra.Sched

namespace Abra.Heap

theorem chanReceive_unpack {f : Nat} {Hw Hr : Heaps} {t : Nat} {v v' : Val} {H' : Heaps}
    (h : chanReceive f Hw Hr t v = some (v', H')) : ∃ M', deepCopyM f Hw Hr [] t v = some (v', H', M') := by
  unfold chanReceive at h
  cases hc : deepCopyM f Hw Hr [] t v with
  | none => simp [hc] at h
  | some r =>
    obtain ⟨a, b, c⟩ := r
    simp only [hc, Option.map_some, Option.some.injEq, Prod.mk.injEq] at h
    obtain ⟨rfl, rfl⟩ := h
    exact ⟨c, rfl⟩

/-- **Scalars.**  For scalar payloads (int, float, bool) the received value is the written value: nothing is
    dereferenced, nothing allocated. -/
theorem C09_chan_copy_scalar (f : Nat) (Hw Hr : Heaps) (t : Nat) (v : Val)
    (hv : (∃ n, v = .int n) ∨ (∃ b, v = .float b) ∨ (∃ b, v = .bool b)) :
    chanReceive (f + 1) Hw Hr t v = some (v, Hr) := by
  rcases hv with ⟨n, rfl⟩ | ⟨b, rfl⟩ | ⟨b, rfl⟩ <;> rfl

/-- **A read returns the value as it was when written — isolation at write time.**  `Hw` = the heaps when the
    value was written, `Hr` = the heaps when it is read: ANY heaps — the writer may have stored into the written
    objects, collected them, or be gone altogether; no hypothesis relates `Hr` to `Hw`.  What the reader gets is
    an isomorphic copy of the graph AS WRITTEN: the result is the image of the written value under a map `M`,
    every copied object holds the image of the object of `Hw` it copies, `M` is injective (sharing and cycles
    kept exactly), everything reachable from the written value was copied and nothing else is reachable from the
    result; every object of the result was allocated by this read in the reader's heap (it did not exist
    before), and no existing object of `Hr` is changed. -/
theorem C09_chan_snapshot_at_write (f : Nat) (Hw Hr : Heaps) (t : Nat) (v v' : Val) (H' : Heaps)
    (hrecv : chanReceive f Hw Hr t v = some (v', H')) :
    ∃ M, mapVal? M v = some v' ∧ Iso Hw H' t M ∧ Ext Hr H' ∧
      (∀ w, ReachV Hw v w → ∃ w', mapVal? M w = some w') ∧
      (∀ w', ReachV H' v' w' → ∃ w, ReachV Hw v w ∧ mapVal? M w = some w') ∧
      (∀ w' x, ReachV H' v' w' → ptr? w' = some x → lookup Hr x = none ∧ x.tid = t) := by
  obtain ⟨M, hm⟩ := chanReceive_unpack hrecv
  obtain ⟨p, hv⟩ := deepCopyM_post Hw t f Hr [] v v' H' M hm
  have iso := iso_of_post p
  refine ⟨M, hv, iso, p.ext, iso_cover iso hv, iso_onto iso hv, ?_⟩
  intro w' x hw' hx
  obtain ⟨w, _, hmw⟩ := iso_onto iso hv w' hw'
  cases hp : ptr? w with
  | none =>
    simp only [mapVal?, hp, Option.some.injEq] at hmw
    rw [← hmw, hp] at hx; cases hx
  | some a =>
    simp only [mapVal?, hp] at hmw
    obtain ⟨a', e1, e2, e3, _⟩ := p.fresh a w' hmw rfl
    rw [hx] at e1; cases e1
    exact ⟨lookup_none_of_ge Hr x (by rw [e2]; exact e3), e2⟩

/-- **A channel inside a message is the SAME queue.**  If the written graph holds a handle on queue `q` (at any
    depth: directly, in a struct, an array, a variant), the received copy holds — at the corresponding place — a
    fresh handle object of the reader on that very queue `q`, whatever became of the writer and of every other
    handle: the heaps `Hr` at read time are arbitrary (`dropThread`, collection).  A queue is not an object of any
    thread's heap — in the runtime model it is an entry of `Runtime.chans`, which no thread's end touches — so the
    values pending in it survive the hand-over: `C09_chan_refines_queue` (written = read ++ still queued, for every
    schedule) applies to the inner queue like to any other. -/
theorem C09_chan_in_message_same_queue (f : Nat) (Hw Hr : Heaps) (t : Nat) (v v' : Val) (H' : Heaps)
    (hrecv : chanReceive f Hw Hr t v = some (v', H'))
    (w : Val) (a : Addr) (q : Nat) (hw : ReachV Hw v w) (ha : ptr? w = some a) (hq : lookup Hw a = some (.chan q)) :
    ∃ M c a', mapVal? M v = some v' ∧ mapVal? M w = some c ∧ ptr? c = some a' ∧ a'.tid = t ∧
      lookup Hr a' = none ∧ lookup H' a' = some (.chan q) := by
  obtain ⟨M, hm⟩ := chanReceive_unpack hrecv
  obtain ⟨p, hv⟩ := deepCopyM_post Hw t f Hr [] v v' H' M hm
  have iso := iso_of_post p
  obtain ⟨c, hc⟩ := iso_cover iso hv w hw
  have hc' := hc
  simp only [mapVal?, ha] at hc'
  obtain ⟨obj, ks, a', d1, d2, d3, d4, _⟩ := iso.done _ _ hc'
  rw [hq] at d1; cases d1
  obtain ⟨a'', e1, e2, e3, _⟩ := p.fresh a c hc' rfl
  rw [d2] at e1; cases e1
  simp only [Obj.kids, mapList?] at d3
  cases d3
  exact ⟨M, c, a', hv, hc, d2, e2, lookup_none_of_ge Hr a' (by rw [e2]; exact e3), by simpa [Obj.withKids] using d4⟩

/-- the queues of a runtime are not owned by threads: the end of a thread's turn (its drop included) leaves every
    queue as it is -/
theorem C09_queue_outlives_threads {T V E : Type} (r : Abra.Sched.Runtime T V E) (th : Abra.Sched.Thread T E) :
    (Abra.Sched.finishThreadTurn r th).1.chans = r.chans := Abra.Sched.ftt_chans r th

/-- … in particular a value that rendered as `tr` when it was written is received rendering as `tr`, whatever
    happened to the writer's heap in between. -/
theorem C09_chan_copy_valid (f g : Nat) (Hw Hr : Heaps) (t : Nat) (v v' : Val) (H' : Heaps) (tr : Tree)
    (hwr : render g Hw v = some tr) (hrecv : chanReceive f Hw Hr t v = some (v', H')) :
    render g H' v' = some tr := by
  obtain ⟨M, hv, iso, _, _, _, _⟩ := C09_chan_snapshot_at_write f Hw Hr t v v' H' hrecv
  exact iso_render iso g v v' tr hv hwr

/-- the read always succeeds on a well-formed written graph, with fuel = number of written objects + 1 -/
theorem C09_chan_receive_total (Hw Hr : Heaps) (t : Nat) (v : Val) (L : List Addr) (hwf : WF Hw v)
    (hL : ∀ w a, ReachV Hw v w → ptr? w = some a → a ∈ L) :
    ∃ r, chanReceive (L.length + 1) Hw Hr t v = some r := by
  obtain ⟨r, hr⟩ := deepCopyM_total Hw t (L.length + 1) Hr [] v L hwf (fun w a hw ha _ => hL w a hw ha) (Nat.lt_succ_self _)
  exact ⟨(r.1, r.2.1), by simp [chanReceive, hr]⟩

/-- heaps in which thread 1 owns one struct `{ v: 1 }` -/
def wH : Heaps := fun t => if t = 1 then [.struct [.int 1]] else []
def wV : Val := .struct ⟨1, 0⟩

/-- the two situations of the former defect D23, now harmless: the writer stores into the written struct after
    the write (`c.write(b); b.v = 2; c.read().v` is 1), or the writer is gone before the read -/
example :
    (∃ H', chanReceive 3 wH (setSlot wH ⟨1, 0⟩ 0 (.int 2)) 0 wV = some (.struct ⟨0, 0⟩, H') ∧
      lookup H' ⟨0, 0⟩ = some (.struct [.int 1])) ∧
    (∃ H', chanReceive 3 wH (dropThread wH 1) 0 wV = some (.struct ⟨0, 0⟩, H') ∧
      lookup H' ⟨0, 0⟩ = some (.struct [.int 1])) := ⟨⟨_, rfl, rfl⟩, ⟨_, rfl, rfl⟩⟩

/-- HISTORICAL (before fix 97d7808, defect D23): copying at read time, the reader saw `{ v: 2 }` although
    `{ v: 1 }` was written … -/
theorem C09_prerepair_mutated_witness :
    ∃ v' H', chanReceiveOld 3 (setSlot wH ⟨1, 0⟩ 0 (.int 2)) 0 wV = some (v', H') ∧
      v' = .struct ⟨0, 0⟩ ∧ lookup H' ⟨0, 0⟩ = some (.struct [.int 2]) ∧
      lookup wH ⟨1, 0⟩ = some (.struct [.int 1]) :=
  ⟨_, _, rfl, rfl, rfl, rfl⟩

/-- … and HISTORICAL: with the writer finished before the read the pointer dangled (a fault in the model, a
    read of freed memory in the code). -/
theorem C09_prerepair_reclaimed_witness :
    chanReceiveOld 3 (dropThread wH 1) 0 wV = none ∧ ∃ p, chanReceiveOld 3 wH 0 wV = some p :=
  ⟨rfl, _, rfl⟩

end Abra.Heap
