import AbraProofs.Lemmas.SchedChan
import AbraProofs.Lemmas.HeapIso
/-!
# C09 — channels deliver each value once, in order, as a valid independent copy; a read suspends only the reader

Order/once/blocking: theorems about the scheduler model `Abra.Sched` for every thread step function and
every embedder schedule.  Copy validity: theorems about the value/heap model `Abra.Heap` — `ChannelWrite`
stores the raw `Value` (a pointer into the writer's heap), `ChannelRead` deep-copies at read time — with
the full statement refuted by two witnesses (known finding D23) and proved under the hypothesis that the
written object graph is neither mutated nor reclaimed between write and read.
-/
namespace Abra.Sched
variable {T V E : Type}

/-- the queue refinement holds initially -/
theorem C09_chanInv_new (m : T) : ChanInv (Runtime.new m : Runtime T V E) := by
  intro c; simp [Runtime.new, writesOf, readsOf, getQ]

/-- **Queue refinement, for every schedule.**  Whatever the embedder does (any budgets, any delay in
    servicing host calls), at the end the values written to a channel are exactly the values read from it,
    in the same order, followed by the values still queued. -/
theorem C09_chan_refines_queue {H : Type} (step : T → Action T V E) (host : H → Nat → T → H × T)
    (s : List (Nat × Bool)) (h : H) (r : Runtime T V E) (n : Nat) (hr : ChanInv r) :
    ChanInv (drive step host s h r n).2.1 :=
  drive_ct_inv step host (fun chans tr => ∀ c, writesOf c tr = readsOf c tr ++ getQ chans c)
    (fun r th hp => exec_chanInv step r th hp) s h r n hr

/-- the same for a single `run_n_steps` call -/
theorem C09_chan_refines_queue_runN (step : T → Action T V E) (b : Nat) (r : Runtime T V E) (hr : ChanInv r) :
    ChanInv (runN step b r).rt :=
  runN_ct_inv step (fun chans tr => ∀ c, writesOf c tr = readsOf c tr ++ getQ chans c)
    (fun r th hp => exec_chanInv step r th hp) b r hr

/-- **FIFO, each value once.**  For every program, every schedule and every channel, the sequence of
    values popped from the channel is a prefix of the sequence of values pushed to it (so the k-th read
    returns the k-th written value: in order, none lost before it, none duplicated). -/
theorem C09_chan_fifo {H : Type} (step : T → Action T V E) (host : H → Nat → T → H × T)
    (s : List (Nat × Bool)) (h : H) (main : T) (c : Nat) :
    readsOf c (drive step host s h (Runtime.new main : Runtime T V E) 0).2.1.trace <+:
      writesOf c (drive step host s h (Runtime.new main : Runtime T V E) 0).2.1.trace := by
  have := C09_chan_refines_queue step host s h _ 0 (C09_chanInv_new (V := V) (E := E) main) c
  exact ⟨_, this.symm⟩

/-- **Counting** (all that can be said for `channel<void>`, whose values carry no information): at every
    moment at most as many reads have succeeded as writes were made — a read never invents a value. -/
theorem C09_chan_count {H : Type} (step : T → Action T V E) (host : H → Nat → T → H × T)
    (s : List (Nat × Bool)) (h : H) (main : T) (c : Nat) :
    (readsOf c (drive step host s h (Runtime.new main : Runtime T V E) 0).2.1.trace).length ≤
      (writesOf c (drive step host s h (Runtime.new main : Runtime T V E) 0).2.1.trace).length :=
  (C09_chan_fifo step host s h main c).length_le

/-- **A blocked read changes nothing but the reader's step count.**  Executing `ChannelRead` on an empty
    queue leaves the reading thread exactly as it was (it will retry the same instruction), leaves every
    channel, the new-thread queue and the id counter as they were, and only logs the attempt. -/
theorem C09_read_blocks_only_reader (step : T → Action T V E) (r : Runtime T V E) (th : Thread T E)
    (c : Nat) (k : V → T) (hs : step th.st = .read c k) (hq : getQ r.chans c = []) :
    exec step r th = ({ r with trace := r.trace ++ [⟨th.id, .readBlocked c⟩] }, th) := by
  unfold exec; rw [hs]; simp only [hq]

/-- … and the scheduler keeps going: the turn of a lone blocked reader at the head of the queue consumes
    one step, rotates it to the back, and every other thread is untouched and gets its turn next. -/
theorem C09_blocked_reader_turn (step : T → Action T V E) (r : Runtime T V E) (th : Thread T E)
    (rest : List (Thread T E)) (c : Nat) (k : V → T) (s : Nat)
    (hq : r.runQueue = th :: rest) (hn : r.newThreads = []) (hc : th.canRun = true)
    (hrest : ∀ t ∈ rest, t.done = false)
    (hs : step th.st = .read c k) (he : getQ r.chans c = []) :
    loop step 1 s r =
      ({ r with runQueue := rest ++ [th], trace := r.trace ++ [⟨th.id, .readBlocked c⟩] }, false, s + 1) := by
  have hd : NoDone r := by
    refine ⟨?_, by simp [hn]⟩
    intro t ht; rw [hq] at ht
    simp only [List.mem_cons] at ht
    rcases ht with rfl | ht
    · exact canRun_done hc
    · exact hrest t ht
  have hnc : (!th.canRun) = false := by simp [hc]
  rw [loop_succ step 0 s r hn hd]
  simp only [hq, List.dropWhile, hnc, List.takeWhile, List.append_nil]
  have hx := C09_read_blocks_only_reader step { r with runQueue := rest } th c k hs (by simpa using he)
  simp only [hx, ftt_notDone _ _ (canRun_done hc), Bool.false_eq_true, if_false]
  rw [drain_nil _ (by simpa using hn)]
  simp [loop]

example : ∃ (step : Nat → Action Nat Nat Nat) (r : Runtime Nat Nat Nat) (th : Thread Nat Nat),
    step th.st = .read 0 (fun v => v) ∧ getQ r.chans 0 = [] :=
  ⟨fun _ => .read 0 (fun v => v), Runtime.new 0, { id := 0, isMain := true, st := 0 }, rfl, rfl⟩

end Abra.Sched

namespace Abra.Heap

theorem deepCopy_unpack' {f : Nat} {H : Heaps} {t : Nat} {v v' : Val} {H' : Heaps}
    (h : chanReceive f H t v = some (v', H')) : ∃ M', deepCopyM f H H [] t v = some (v', H', M') := by
  unfold chanReceive deepCopy at h
  cases hc : deepCopyM f H H [] t v with
  | none => simp [hc] at h
  | some r =>
    obtain ⟨a, b, c⟩ := r
    simp only [hc, Option.map_some, Option.some.injEq, Prod.mk.injEq] at h
    obtain ⟨rfl, rfl⟩ := h
    exact ⟨c, rfl⟩

/-- **Scalars.**  For scalar payloads (int, float, bool) the received value is the written value,
    unconditionally: nothing is dereferenced. -/
theorem C09_chan_copy_scalar (f : Nat) (H : Heaps) (t : Nat) (v : Val)
    (hv : (∃ n, v = .int n) ∨ (∃ b, v = .float b) ∨ (∃ b, v = .bool b)) :
    chanReceive (f + 1) H t v = some (v, H) := by
  rcases hv with ⟨n, rfl⟩ | ⟨b, rfl⟩ | ⟨b, rfl⟩ <;> rfl

/-- **Heap payloads, under the hypothesis that excludes D23.**  `Hw` = heaps when the value was written,
    `Hr` = heaps when it is read.  If every object reachable from the written value is the same at read
    time (neither mutated nor reclaimed in between), the reader receives a value that renders exactly as
    the written value did at write time, and everything reachable from it lives in the reader's heap
    (an independent copy). -/
theorem C09_chan_copy_valid_partial (f g : Nat) (Hw Hr : Heaps) (t : Nat) (v v' : Val) (H' : Heaps) (tr : Tree)
    (xs : List Addr)
    (hwr : render g Hw v = some tr) (hxs : addrs g Hw v = some xs)
    (hsame : ∀ a ∈ xs, lookup Hr a = lookup Hw a)
    (hrecv : chanReceive f Hr t v = some (v', H')) :
    render g H' v' = some tr ∧ ∀ w' x, ReachV H' v' w' → ptr? w' = some x → x.tid = t := by
  have hr : render g Hr v = some tr := by rw [render_congr g v xs hxs hsame]; exact hwr
  obtain ⟨M, hm⟩ := deepCopy_unpack' hrecv
  obtain ⟨p, hv⟩ := deepCopyM_post Hr t f Hr [] v v' H' M hm
  have iso := iso_of_post p
  exact ⟨iso_render iso g v v' tr hv hr, iso_owned iso hv⟩

/-- the same for arbitrary (shared, cyclic) payloads: if the reader finds the written graph unchanged, what it
    receives is an isomorphic copy of the graph as it was written (same reachable values, object by object the
    image of the written object), owned by the reader. -/
theorem C09_chan_copy_graph_partial (f : Nat) (Hw Hr : Heaps) (t : Nat) (v v' : Val) (H' : Heaps)
    (hsame : ∀ w x, ReachV Hw v w → ptr? w = some x → lookup Hr x = lookup Hw x)
    (hrecv : chanReceive f Hr t v = some (v', H')) :
    ∃ M, mapVal? M v = some v' ∧ Iso Hr H' t M ∧ (∀ w, ReachV Hw v w ↔ ReachV Hr v w) ∧
      (∀ w x, ReachV Hw v w → ptr? w = some x → lookup Hr x = lookup Hw x) ∧
      ∀ w' x, ReachV H' v' w' → ptr? w' = some x → x.tid = t := by
  obtain ⟨M, hm⟩ := deepCopy_unpack' hrecv
  obtain ⟨p, hv⟩ := deepCopyM_post Hr t f Hr [] v v' H' M hm
  have iso := iso_of_post p
  exact ⟨M, hv, iso, reach_congr hsame, hsame, iso_owned iso hv⟩

/-- heaps in which thread 1 owns one struct `{ v: 1 }` -/
def wH : Heaps := fun t => if t = 1 then [.struct [.int 1]] else []
def wV : Val := .struct ⟨1, 0⟩

example : render 3 wH wV = some (.struct [.int 1]) ∧ addrs 3 wH wV = some [⟨1, 0⟩] ∧
    ∃ p, chanReceive 3 wH 0 wV = some p := ⟨rfl, rfl, _, rfl⟩

/-- **Finding D23, witness 1 (mutation after the write).**  `c.write(b); b.v = 2; c.read().v`: the reader
    (thread 0) receives `{ v: 2 }` although `{ v: 1 }` was written. -/
theorem C09_chan_copy_mutated_counterexample :
    ∃ v' H', chanReceive 3 (setSlot wH ⟨1, 0⟩ 0 (.int 2)) 0 wV = some (v', H') ∧
      v' = .struct ⟨0, 0⟩ ∧ lookup H' ⟨0, 0⟩ = some (.struct [.int 2]) ∧
      lookup wH ⟨1, 0⟩ = some (.struct [.int 1]) :=
  ⟨_, _, rfl, rfl, rfl, rfl⟩

/-- **Finding D23, witness 2 (the writer finished before the read).**  The writer's heap is freed with
    the thread; the read dereferences the dangling pointer — in the model a fault, in the real code a
    read of freed memory. -/
theorem C09_chan_copy_reclaimed_counterexample :
    chanReceive 3 (dropThread wH 1) 0 wV = none ∧ ∃ p, chanReceive 3 wH 0 wV = some p :=
  ⟨rfl, _, rfl⟩

end Abra.Heap
