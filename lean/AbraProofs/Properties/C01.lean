import AbraProofs.Properties.C02
/-!
# C01 — accepted programs never hit an internal VM fault (instruction contracts; F0 corollary)

Model: `Abra.VM` (VMCore): every place where vm.rs would panic or read through a mistyped value is an explicit
`fault` outcome of `step`.

* `C01_step_safe` — instruction contracts: under `Pre i s` (what the instruction needs to find: enough operands
  with the tags it reads, a valid slot, a frame to return to, a heap object of the expected kind) `step` never
  faults: it yields a next state, a documented runtime error, or `done`.  One contract per modelled instruction
  (binary/unary operators in the operand form the unoptimised compiler emits: top, top, top).
* `C01_step_post_*` — what the step leaves (stack-height effect), used to chain contracts.
* `C01_compile_safe_F0` — generated code meets the contracts: for an F0 program (no DepthSafe side condition: the
  compile model follows 0c43abd and pops the pending operands before a `break`/`continue`) whose reference
  evaluation finishes (value or documented error), no bounded run of the compiled code ends in a fault — a
  corollary of the C02 simulation and determinism of `step`.

-- OPEN: type soundness for the whole language (generics, closures, interfaces, heap data) is not proved; the
-- search over generated programs of all tiers and the repository corpus (harness c01) covers it.
-- OPEN: `C01_compile_safe_F0` for runs that do not terminate (needs a forward/coinductive simulation).
-/
namespace Abra.VM

/-- what instruction `i` needs in state `s` -/
def Pre (i : Instr Nat) (s : State) : Prop :=
  match i with
  | .pushNil _ | .pushInt _ | .pushBool _ | .pushStr _ | .pushAddr _ | .jump _ | .stop | .call _ _ => True
  | .pop | .dup | .constructVariant _ => s.stack ≠ []
  | .load o => ∃ k, slotIdx s.base o = some k ∧ k < s.stack.length
  | .store o => ∃ rest v k, s.stack = rest ++ [v] ∧ slotIdx s.base o = some k ∧ k < rest.length
  | .intOp _ d a b => d = .top ∧ a = .top ∧ b = .top ∧ ∃ rest x y, s.stack = rest ++ [.int x, .int y]
  | .intCmp _ d a b => d = .top ∧ a = .top ∧ b = .top ∧ ∃ rest x y, s.stack = rest ++ [.int x, .int y]
  | .eqBool d a b => d = .top ∧ a = .top ∧ b = .top ∧ ∃ rest x y, s.stack = rest ++ [.bool x, .bool y]
  | .not d a => d = .top ∧ a = .top ∧ ∃ rest x, s.stack = rest ++ [.bool x]
  | .jumpIf _ | .jumpIfFalse _ => ∃ rest b, s.stack = rest ++ [.bool b]
  | .callFuncObj _ => ∃ rest a t caps, s.stack = rest ++ [.struct_ a] ∧ s.heap[a]? = some (.struct_ (.addr t :: caps))
  | .ret n => s.stack ≠ [] ∧ n ≤ s.base ∧ s.base - n < s.stack.length ∧ ∃ fr frs, s.frames = fr :: frs ∧ fr.nargs ≤ s.base + 1
  | .retVoid => ∃ fr frs, s.frames = fr :: frs ∧ fr.nargs ≤ s.base
  | .panic => ∃ rest a msg, s.stack = rest ++ [.str a] ∧ s.heap[a]? = some (.str msg)
  | .constructStruct n => n ≤ s.stack.length
  | .makeClosure n => n + 1 ≤ s.stack.length
  | .deconstructStruct => ∃ rest a fs, s.stack = rest ++ [.struct_ a] ∧ s.heap[a]? = some (.struct_ fs)
  | .deconstructVariant => ∃ rest a tag v, s.stack = rest ++ [.variant a] ∧ s.heap[a]? = some (.variant tag v)
  | .getField k r => r = .top ∧ ∃ rest a fs, s.stack = rest ++ [.struct_ a] ∧ s.heap[a]? = some (.struct_ fs) ∧ k < fs.length
  | .print t => ∃ rest v txt, s.stack = rest ++ [v] ∧ renderVal t v = .ok txt

theorem pop?_ne_nil {l : List Val} (h : l ≠ []) : ∃ v r, pop? l = some (v, r) := by
  obtain ⟨r, v, rfl⟩ : ∃ r v, l = r ++ [v] := by
    induction l with
    | nil => exact absurd rfl h
    | cons a t ih =>
      cases t with
      | nil => exact ⟨[], a, rfl⟩
      | cons b t' =>
        obtain ⟨r, v, hr⟩ := ih (by simp)
        exact ⟨a :: r, v, by rw [hr]; rfl⟩
  exact ⟨v, r, pop?_snoc r v⟩

theorem pop2 (rest : List Val) (x y : Val) : pop? (rest ++ [x, y]) = some (y, rest ++ [x]) := by
  have : rest ++ [x, y] = (rest ++ [x]) ++ [y] := by simp
  rw [this]; exact pop?_snoc _ _

/-- **Instruction contracts**: under its precondition an instruction never faults. -/
theorem C01_step_safe (P : Program) (s : State) (i : Instr Nat) (hpc : P[s.pc]? = some i) (hpre : Pre i s) :
    ∀ f, VM.step P s ≠ .fault f := by
  intro f
  cases i with
  | pushNil n => simp [VM.step, hpc]
  | pushInt n => simp [VM.step, hpc]
  | pushBool b => simp [VM.step, hpc]
  | pushStr t => simp [VM.step, hpc]
  | pushAddr t => simp [VM.step, hpc]
  | jump t => simp [VM.step, hpc]
  | stop => simp [VM.step, hpc]
  | call n t => simp [VM.step, hpc]
  | pop =>
    obtain ⟨v, r, h⟩ := pop?_ne_nil hpre
    simp [VM.step, hpc, h]
  | dup =>
    obtain ⟨v, r, h⟩ := pop?_ne_nil hpre
    simp [VM.step, hpc, h]
  | constructVariant t =>
    obtain ⟨v, r, h⟩ := pop?_ne_nil hpre
    simp [VM.step, hpc, h]
  | load o =>
    obtain ⟨k, hk, hlt⟩ := hpre
    have : ∃ v, s.stack[k]? = some v := ⟨s.stack[k], List.getElem?_eq_getElem hlt⟩
    obtain ⟨v, hv⟩ := this
    simp [VM.step, hpc, hk, hv]
  | store o =>
    obtain ⟨rest, v, k, hs, hk, hlt⟩ := hpre
    simp [VM.step, hpc, hs, hk, hlt]
  | intOp op d a b =>
    obtain ⟨rfl, rfl, rfl, rest, x, y, hs⟩ := hpre
    simp only [VM.step, hpc, hs, loadReg, pop2, pop?_snoc, getInt, storeReg]
    cases I64.apply op.toI64 x y <;> simp
  | intCmp op d a b =>
    obtain ⟨rfl, rfl, rfl, rest, x, y, hs⟩ := hpre
    simp [VM.step, hpc, hs, loadReg, pop2, getInt, storeReg]
  | eqBool d a b =>
    obtain ⟨rfl, rfl, rfl, rest, x, y, hs⟩ := hpre
    simp [VM.step, hpc, hs, loadReg, pop2, getBool, storeReg]
  | not d a =>
    obtain ⟨rfl, rfl, rest, x, hs⟩ := hpre
    simp [VM.step, hpc, hs, loadReg, getBool, storeReg]
  | jumpIf t =>
    obtain ⟨rest, b, hs⟩ := hpre
    simp [VM.step, hpc, hs, getBool]
  | jumpIfFalse t =>
    obtain ⟨rest, b, hs⟩ := hpre
    simp [VM.step, hpc, hs, getBool]
  | callFuncObj n =>
    obtain ⟨rest, a, t, caps, hs, ho⟩ := hpre
    simp [VM.step, hpc, hs, ho]
  | ret n =>
    obtain ⟨hne, h1, h2, fr, frs, hf, h3⟩ := hpre
    obtain ⟨v, r, h⟩ := pop?_ne_nil hne
    simp [VM.step, hpc, h, h1, h2, hf, h3]
  | retVoid =>
    obtain ⟨fr, frs, hf, h3⟩ := hpre
    simp [VM.step, hpc, hf, h3]
  | panic =>
    obtain ⟨rest, a, msg, hs, ho⟩ := hpre
    simp [VM.step, hpc, hs, ho]
  | constructStruct n =>
    have : n ≤ s.stack.length := hpre
    simp [VM.step, hpc, splitLast, this]
  | makeClosure n =>
    have : n + 1 ≤ s.stack.length := hpre
    simp [VM.step, hpc, splitLast, this]
  | deconstructStruct =>
    obtain ⟨rest, a, fs, hs, ho⟩ := hpre
    simp [VM.step, hpc, hs, ho]
  | deconstructVariant =>
    obtain ⟨rest, a, tag, v, hs, ho⟩ := hpre
    simp [VM.step, hpc, hs, ho]
  | getField k r =>
    obtain ⟨rfl, rest, a, fs, hs, ho, hk⟩ := hpre
    have : ∃ v, fs[k]? = some v := ⟨fs[k], List.getElem?_eq_getElem hk⟩
    obtain ⟨v, hv⟩ := this
    simp [VM.step, hpc, hs, loadReg, ho, hv]
  | print t =>
    obtain ⟨rest, v, txt, hs, hr⟩ := hpre
    simp [VM.step, hpc, hs, hr]

/-- `Return` (contract + C23_return_restores): the step exists and the caller's frame is current again -/
theorem C01_step_post_ret (P : Program) (s : State) (n : Nat) (hpc : P[s.pc]? = some (.ret n)) (hpre : Pre (.ret n) s) :
    ∃ s' fr frs, VM.step P s = .ok s' ∧ s.frames = fr :: frs ∧ s'.frames = frs ∧ s'.base = fr.base ∧ s'.pc = fr.pc
      ∧ s'.stack.length ≤ s.base - fr.nargs + 1 := by
  obtain ⟨hne, h1, h2, fr, frs, hf, h3⟩ := hpre
  obtain ⟨v, r, h⟩ := pop?_ne_nil hne
  refine ⟨_, fr, frs, by simp [VM.step, hpc, h, h1, h2, hf, h3]; rfl, hf, rfl, rfl, rfl, ?_⟩
  simp
  omega

/-- stack-height effect of one instruction, `PushInt k`: it adds exactly `k` on top and advances the pc (the other
    instructions' effects are not stated as theorems) -/
theorem C01_step_post_push (P : Program) (s : State) (k : Int) (hpc : P[s.pc]? = some (.pushInt k)) :
    ∃ s', VM.step P s = .ok s' ∧ s'.stack = s.stack ++ [.int k] ∧ s'.pc = s.pc + 1 := by
  exact ⟨_, by simp [VM.step, hpc]; rfl, rfl, rfl⟩

/-- a terminal result of a bounded run does not depend on the fuel: any other bound gives the same result or
    runs out of fuel first -/
theorem run_terminal_stable {P : Program} : ∀ (n m : Nat) (s : State) (r : RunResult),
    VM.run P n s = r → (∀ t, r ≠ .outOfFuel t) → VM.run P m s = r ∨ ∃ t, VM.run P m s = .outOfFuel t := by
  intro n
  induction n with
  | zero => intro m s r h hne; simp only [VM.run] at h; exact absurd h.symm (hne s)
  | succ n ih =>
    intro m s r h hne
    cases m with
    | zero => exact .inr ⟨s, rfl⟩
    | succ m =>
      simp only [VM.run] at h ⊢
      cases hs : VM.step P s with
      | ok s' => rw [hs] at h; simp only; exact ih m s' r h hne
      | error k s' => rw [hs] at h; exact .inl h
      | done s' => rw [hs] at h; exact .inl h
      | fault f => rw [hs] at h; exact .inl h

end Abra.VM

namespace Abra.Compile
open Abra.Sem Abra.VM

/-- **Generated F0 code meets the contracts**: if the reference evaluation of an F0 program finishes (with a value or a
    documented runtime error), then no run of the compiled code, with any step bound, ends in an internal fault.
    (Until 0c43abd this needed DepthSafe: D21.) -/
theorem C01_compile_safe_F0 (ss : Stmts) (code : Program) (fuel : Nat)
    (hc : compileMain ss = some code)
    (hfin : (∃ v h out, Sem.run fuel ⟨[], [], ss⟩ = .done v h out) ∨ (∃ k out, Sem.run fuel ⟨[], [], ss⟩ = .error k out)) :
    ∀ (m : Nat) (f : Fault), VM.run code m State.init ≠ .fault f := by
  intro m f hfault
  have hsim := C02_compile_correct_F0_program ss code fuel hc
  rcases hfin with ⟨v, h, out, hr⟩ | ⟨k, out, hr⟩
  · rw [hr] at hsim
    obtain ⟨n, s, hrun, _, _⟩ := hsim
    rcases run_terminal_stable n m State.init _ hrun (by intro t h; cases h) with h | ⟨t, h⟩
    · rw [h] at hfault; cases hfault
    · rw [h] at hfault; cases hfault
  · rw [hr] at hsim
    obtain ⟨n, s, hrun, _⟩ := hsim
    rcases run_terminal_stable n m State.init _ hrun (by intro t h; cases h) with h | ⟨t, h⟩
    · rw [h] at hfault; cases hfault
    · rw [h] at hfault; cases hfault

/-- HISTORICAL (the translation scheme before 0c43abd; `compileMain` no longer produces such code). D21 as a fault:
    the operand left behind by `break` has the wrong tag for the instruction that finally consumes it.  `let r = 100 + { while true { let t = (true, …break…) }; 5 }` in the F0 instruction set:
    a bool is pushed, the loop is left, `AddInt` finds `[100, true, 5]`. -/
def d21FaultProg : Program :=
  [.pushNil 0, .pushInt 100, .pushBool true, .jump 4, .pushInt 5, .intOp .add .top .top .top, .stop]

theorem C01_depth_unsafe_fault : VM.run d21FaultProg 10 State.init = .fault .wrongType := by decide +kernel

/-! ### non-vacuity -/

example : Pre (.intOp .add .top .top .top) { State.init with stack := [.int 1, .int 2] } :=
  ⟨rfl, rfl, rfl, [], 1, 2, rfl⟩

example : Pre (.ret 1) { State.init with stack := [.int 7, .int 5, .int 9], base := 2, frames := [{ pc := 3, base := 0, nargs := 1 }] } :=
  ⟨by simp, by decide, by decide, _, _, rfl, by decide⟩

example : (compileMain loopExample).isSome = true ∧
    semOut (Sem.run 100 ⟨[], [], loopExample⟩) = some ["8\n"] := by
  refine ⟨by decide, by decide +kernel⟩

/-- the former D21 witness satisfies the hypotheses: accepted by the compile model, finishes in the reference -/
example : (compileMain d21Witness).isSome = true ∧ depthSafeSs 0 d21Witness = false ∧
    semOut (Sem.run 100 ⟨[], [], d21Witness⟩) = some ["105\n"] := by
  refine ⟨by decide, by decide, by decide +kernel⟩

end Abra.Compile
